"""C01 — invocation lifecycle follows the documented state machine; finals absorbing;
refused requests leave (status, owner, timestamp) untouched; Mem and SQLite identical."""
from __future__ import annotations

import z3

from pyvc.contract import Case, Contract, LoopSpec, Registry, Shape
from pyvc.prop import BoundedResult, Prop, RunCtx
from pyvc.solve import Obligation
from pyvc.types import BOOL, INT, REAL, STR, Atom, MapT, ObjT, Opt, SeqT, SetT, dd_set
from pyvc.values import Val

from . import common
from .common import ID, RUNNER, SPEC, Types, base_registry, runner_id_ok, spec_edge, spec_new_owner, spec_step_error

PID = "C01"
ST = "pynenc.invocation.status"


def status_contracts(T: Types, reg: Registry, repo: str, pid=PID):
    reg.natives[f"{ST}:_CONFIG"] = common.StatusConfigNative(repo, T)
    OREC, OSTR, OST = Opt(T.Record), Opt(RUNNER), Opt(T.Status)

    def err(c):
        return spec_step_error(T, c.arg("current_record"), c.arg("new_status"), c.arg("runner_id"))

    def owner_inv(c):
        cur = c.arg("current_record")
        return z3.And(runner_id_ok(c.arg("runner_id")),
                      z3.Implies(OREC.is_some(cur), runner_id_ok(T.Record.get(OREC.val(cur), "runner_id"))))

    def frm_of(c):
        cur = c.arg("current_record")
        return z3.If(OREC.is_some(cur), OST.some(T.Record.get(OREC.val(cur), "status")), OST.none())

    def no_edge(c):
        return z3.Not(common.spec_edge(T, frm_of(c), c.arg("new_status")))

    transition = Contract(
        key=f"{ST}:status_record_transition",
        params={"current_record": OREC, "new_status": T.Status, "runner_id": OSTR},
        result=T.Record,
        requires=[("runner-ids-none-or-nonempty", owner_inv)],
        cases=[
            # the edge is checked first: a missing edge is a TransitionError that carries the stored status, otherwise an OwnershipError
            Case("refused-no-such-edge", when=lambda c: z3.And(err(c), no_edge(c)), raises="InvocationStatusTransitionError", exact=True,
                 exc_fields={"from_status": lambda c: Val(frm_of(c), OST)}),
            Case("refused-not-the-owner", when=lambda c: z3.And(err(c), z3.Not(no_edge(c))), raises="InvocationStatusOwnershipError", exact=True),
            Case("accepted", when=lambda c: z3.Not(err(c)), ensures=[
                ("status-is-requested", lambda c: T.Record.get(c.result, "status") == c.arg("new_status")),
                ("owner-per-spec", lambda c: T.Record.get(c.result, "runner_id") ==
                 spec_new_owner(T, c.arg("current_record"), c.arg("new_status"), c.arg("runner_id"))),
            ]),
        ],
        properties=[pid],
        note="loop-free: the proof is complete for all records, statuses and runner-id strings; "
             "validate_transition / validate_ownership / compute_new_owner are inlined from their real ASTs",
    )
    is_final = Contract(
        key=f"{ST}:InvocationStatus.is_final", params={"self": T.Status}, result=BOOL,
        cases=[Case("spec", ensures=[("equals-spec-finals", lambda c: c.result == T.status_in(c.arg("self"), SPEC["final"]))])],
        properties=[pid])
    is_avail = Contract(
        key=f"{ST}:InvocationStatus.is_available_for_run", params={"self": T.Status}, result=BOOL,
        cases=[Case("spec", ensures=[("equals-spec-available", lambda c: c.result == T.status_in(c.arg("self"), SPEC["available"]))])],
        properties=[pid])
    can_tr = Contract(
        key=f"{ST}:InvocationStatus.can_transition_to", params={"self": T.Status, "target": T.Status}, result=BOOL,
        cases=[Case("spec", ensures=[("equals-spec-edge", lambda c: c.result == common.spec_edge_st(T, c.arg("self"), c.arg("target")))])],
        properties=[pid])
    return [transition, is_final, is_avail, can_tr]


def spec_lemmas(ctx: RunCtx):
    """Lemmas about the frozen graph itself (finite, evaluated directly)."""
    edges = [tuple(e) for e in SPEC["edges"]]
    out = []

    def ob(name, ok, detail=""):
        o = Obligation(name=f"{PID}/spec/{name}", kind="lemma", pc=[], goal=z3.BoolVal(bool(ok)), function="spec/lifecycle.json")
        o.status = "discharged" if ok else "failed"
        o.backend = "finite-evaluation"
        o.detail = detail
        return o
    out.append(ob("finals-have-no-out-edge", not any(a in SPEC["final"] for a, _ in edges)))
    out.append(ob("only-entry-is-REGISTERED", [b for a, b in edges if a == "START"] == ["REGISTERED"]))
    reach, todo = {"REGISTERED"}, ["REGISTERED"]
    while todo:
        x = todo.pop()
        for a, b in edges:
            if a == x and b not in reach:
                reach.add(b)
                todo.append(b)
    out.append(ob("every-status-reachable-from-REGISTERED", reach == set(SPEC["statuses"]), str(sorted(set(SPEC["statuses"]) - reach))))
    out.append(ob("nothing-re-enters-REGISTERED", not any(b == "REGISTERED" and a != "START" for a, b in edges)))
    return out


def build(ctx: RunCtx) -> Prop:
    T = Types(ctx.src)
    reg = base_registry(ctx.src, T)
    verify = status_contracts(T, reg, ctx.repo)
    for c in verify:
        reg.add(c)
    from . import c01_mem, c01_bounded
    verify += c01_mem.contracts(T, reg, ctx)
    from . import c01_sqlite
    verify += c01_sqlite.contracts(T, reg, ctx)
    # the only public writer: BaseOrchestrator.set_invocation_status hands exactly (id, status, requester's runner id) to the atomic transition
    from . import glue
    reg.T = T
    G = glue.glue_contracts(T, reg)
    verify += [G["set_invocation_status"]]
    prop = Prop(
        pid=PID, title="lifecycle state machine: status_record_transition == spec_step; Mem transition keeps the index invariant; "
                       "refused requests change nothing; both backends enumerated over the complete single-step space",
        level="proof", technique="contract-based deductive verification: AST->z3 VCs of the real functions against a frozen lifecycle spec",
        registry=reg, verify=verify, lemmas=[spec_lemmas] + c01_mem.lemmas(T, reg, ctx),
        bounded=[c01_bounded.single_step_space],
        replayers={"*status_record_transition*": c01_bounded.replay_transition},
        assumptions=[
            "runner ids are None or non-empty strings (RunnerContext never produces an empty id)",
            "status._CONFIG is a module constant: its value is read from the imported module of the tree under check",
            "datetime.now() is a fresh real number; floats/datetimes are treated as reals",
            "uuid4 invocation ids are fresh (precondition of _register_new_invocations)",
        ],
        trusted_base=["pyvc VC generator (/verif/pyvc)", "z3 5.1 / cvc5 1.0.3", "CPython import of pynenc.invocation.status for the constant table",
                      "sqlite3 statement semantics (SQLite side is covered by the exhaustive bounded stand-in, not by proof)"],
        not_decided="sequences are covered by induction over the writers' contracts (init: only REGISTERED is written for fresh ids; "
                    "step: every writer moves along a spec edge), not enumerated; SQL statement meaning is not proved.",
        min_obligations=10,
    )
    return prop
