"""C01 bounded / complete stand-ins and replay (real code, CPython)."""
from __future__ import annotations

import itertools

from pyvc.prop import BoundedResult

from .common import SPEC
from .realapp import force_status, new_invocation, read_record, real_app, runner_ctx, stored_invocation

EDGES = {tuple(e) for e in SPEC["edges"]}


def py_spec_step(cur_status, cur_owner, new, rid):
    """Independent executable spec of one request. Returns 'error' or (status, owner)."""
    frm = cur_status or "START"
    if (frm, new) not in EDGES:
        return "error"
    if cur_status is not None and cur_status in SPEC["owned"] and rid != cur_owner and new not in SPEC["recovery"]:
        return "error"
    if cur_status is not None and new in SPEC["acquires"] and not rid:
        return "error"
    if new in SPEC["acquires"]:
        owner = rid
    elif new in SPEC["keeps_owner"]:
        owner = cur_owner if cur_status is not None else None
    else:
        owner = None
    return (new, owner)


def single_step_space(ctx) -> BoundedResult:
    """Complete enumeration of (current status | none, owner) x (requested status, requester) through the
    public BaseOrchestrator.set_invocation_status on BOTH real backends, compared with py_spec_step."""
    from pynenc.exceptions import InvocationStatusError
    from pynenc.invocation.status import InvocationStatus
    res = BoundedResult("single_step_space", "complete: (14 statuses + unknown id) x 3 owners x 14 requests x 3 requesters, both backends",
                        exhaustive=True)
    owners = [None, "runner-A", "runner-B"]
    statuses = [None] + list(InvocationStatus)
    n = 0
    for backend in ("mem", "sqlite"):
        with real_app(backend) as app:
            for cur, owner, new, rid in itertools.product(statuses, owners, list(InvocationStatus), owners):
                if cur is None and owner is not None:
                    continue
                n += 1
                if cur is not None:
                    inv_id = new_invocation(app).invocation_id
                    force_status(app, inv_id, cur, owner)
                else:
                    inv_id = stored_invocation(app).invocation_id
                before = read_record(app, inv_id)
                expected = py_spec_step(cur.name if cur else None, owner, new.name, rid)
                if cur is None:
                    expected = "keyerror"  # both backends: documented KeyError for an unknown id, nothing created
                try:
                    # requesters are sibling workers under one parent runner: ownership is per worker, not per parent
                    app.orchestrator.set_invocation_status(inv_id, new, runner_ctx(rid, parent_id="parent-runner" if rid else None))
                    outcome = "ok"
                except InvocationStatusError:
                    outcome = "error"
                except KeyError:
                    outcome = "keyerror"
                except Exception as e:  # anything else is an observation, not a checker failure
                    outcome = f"exception:{type(e).__name__}"
                after = read_record(app, inv_id)
                ok = True
                if expected in ("error", "keyerror"):
                    ok = outcome == expected and after == before
                else:
                    ok = outcome == "ok" and after is not None and (after[0], after[1]) == expected
                if not ok:
                    res.failures.append({
                        "what": f"{backend}: ({cur.name if cur else None}, owner={owner}) --{new.name} by {rid}--> outcome={outcome} record={after}; spec={expected}, before={before}",
                        "input": {"backend": backend, "current": cur.name if cur else None, "owner": owner, "request": new.name, "requester": rid},
                        "observed": {"outcome": outcome, "after": after, "before": before}, "expected": expected,
                        "finding_key": f"{backend}:{'unknown-id' if cur is None else 'step'}:{new.name if cur is None else ''}",
                    })
                if n % 400 == 1:
                    res.samples.append({"backend": backend, "current": cur.name if cur else None, "owner": owner, "request": new.name,
                                        "requester": rid, "outcome": outcome, "spec": expected})
    res.cases = n
    res.distinct = n
    return res


def replay_transition(ctx, ob):
    """Replay a counter-model of status_record_transition on the real function."""
    from datetime import UTC, datetime
    from pynenc.exceptions import InvocationStatusError
    from pynenc.invocation.status import InvocationStatus, InvocationStatusRecord, status_record_transition
    a = ob.get("extra", {}).get("args_py")
    if not a:
        return {"confirmed": False, "reason": "no concrete arguments in the counter-model"}
    cur = a["current_record"]
    rec = None
    if cur is not None:
        rec = InvocationStatusRecord(InvocationStatus[cur["status"]], cur["runner_id"], datetime.fromtimestamp(0, UTC))
    new = InvocationStatus[a["new_status"]]
    rid = a["runner_id"]
    try:
        r = status_record_transition(rec, new, rid)
        observed = (r.status.name, r.runner_id)
    except InvocationStatusError as e:
        observed = "error"
    expected = py_spec_step(cur["status"] if cur else None, cur["runner_id"] if cur else None, new.name, rid)
    return {"confirmed": observed != expected, "input": a, "observed": observed, "expected": expected}
