"""C01 — MemOrchestrator status storage: representation invariant + transition contracts."""
from __future__ import annotations

import z3

from pyvc.contract import Case, Contract, LoopSpec, Registry, Shape
from pyvc.types import BOOL, INT, REAL, STR, Atom, MapT, ObjT, Opt, Record, SeqT, SetT, dd_set
from pyvc.values import Val, fresh_name

from .common import CALL, ID, RUNNER, TASK, Types, runner_id_ok, spec_new_owner, spec_step_error

MO = "pynenc.orchestrator.mem_orchestrator"
LOCK = Atom("Lock")


def inv_types(T: Types):
    """Invocation objects as seen by the orchestrator: only their identifiers are read."""
    from . import world
    world.view_types(T)


def mem_shape(T: Types, reg: Registry):
    if "MemOrchestrator" in reg.shapes:
        return reg.shapes["MemOrchestrator"]
    OREC = Opt(T.Record)
    rec_t = MapT(ID, T.Record)
    idx_t = MapT(T.Status, SetT(ID), default=dd_set(ID), default_name="set")

    def in_index(idx, s, i):
        cell = z3.Select(idx, s)
        return z3.And(idx_t.opt.is_some(cell), z3.Select(idx_t.opt.val(cell), i))

    def R(c):
        rec, idx = c.f("invocation_status_record"), c.f("status_index")
        i = z3.Const(fresh_name("i"), ID.sort())
        cell = z3.Select(rec, i)
        conj = []
        for m in T.Status.members:
            s = T.S(m)
            conj.append(in_index(idx, s, i) == z3.And(rec_t.opt.is_some(cell), T.Record.get(rec_t.opt.val(cell), "status") == s))
        return z3.ForAll([i], z3.And(conj))

    def O(c):
        rec = c.f("invocation_status_record")
        i = z3.Const(fresh_name("i"), ID.sort())
        cell = z3.Select(rec, i)
        return z3.ForAll([i], z3.Implies(rec_t.opt.is_some(cell), runner_id_ok(T.Record.get(rec_t.opt.val(cell), "runner_id"))))

    shape = Shape(
        "MemOrchestrator",
        fields={
            "invocation_status_record": rec_t,
            "status_index": idx_t,
            "locks": MapT(ID, LOCK),
            "task_id_to_inv_id": MapT(TASK, SetT(ID), default=dd_set(ID), default_name="set"),
            "call_id_to_inv_id": MapT(CALL, SetT(ID), default=dd_set(ID), default_name="set"),
            "inv_id_to_call_id": MapT(ID, CALL),
            "invocation_retries": MapT(ID, INT),
            "runner_creation_time": MapT(RUNNER, REAL),
            "runner_last_heartbeat": MapT(RUNNER, REAL),
            "runner_atomic_service_eligible": MapT(RUNNER, BOOL),
            "app": ObjT("App"),
        },
        cls=(MO, "MemOrchestrator"),
        invariants=[("R:index-matches-records", R), ("O:owners-none-or-nonempty", O)],
        doc="R: id in status_index[s] <=> invocation_status_record[id].status == s",
    )
    shape.in_index = in_index
    shape.R, shape.O = R, O
    reg.add_shape(shape)
    if "App" not in reg.shapes:
        reg.add_shape(Shape("App", fields={}))
    return shape


def contracts(T: Types, reg: Registry, ctx, pid="C01"):
    inv_types(T)
    shape = mem_shape(T, reg)
    OREC, OSTR = Opt(T.Record), Opt(RUNNER)
    rec_t = shape.fields["invocation_status_record"]
    locks_t = shape.fields["locks"]

    reg.add(Contract(key="threading:Lock", result=LOCK, cases=[Case("new")], assumed=True, effect_events=False,
                     note="threading.Lock() returns a fresh lock"))

    def cur_rec(c):
        return z3.Select(c.old("invocation_status_record"), c.arg("invocation_id"))

    def no_edge(c):
        from .common import spec_edge
        return z3.Not(spec_edge(T, Opt(T.Status).some(T.Record.get(OREC.val(cur_rec(c)), "status")), c.arg("status")))

    def err(c):
        return spec_step_error(T, cur_rec(c), c.arg("status"), c.arg("runner_id"))

    unchanged = [
        ("records-unchanged", lambda c: c.f("invocation_status_record") == c.old("invocation_status_record")),
        ("index-unchanged", lambda c: c.f("status_index") == c.old("status_index")),
    ]
    get_lock = Contract(
        key=f"{MO}:MemOrchestrator._get_invocation_lock", shape="MemOrchestrator",
        params={"invocation_id": ID}, result=LOCK, frame=["locks"],
        cases=[Case("get-or-create", ensures=[
            ("existing-lock-kept", lambda c: z3.Implies(locks_t.opt.is_some(z3.Select(c.old("locks"), c.arg("invocation_id"))),
                                                        c.f("locks") == c.old("locks"))),
            ("result-is-the-entry", lambda c: z3.Select(c.f("locks"), c.arg("invocation_id")) == locks_t.opt.some(c.result)),
            ("others-unchanged", lambda c: c.f("locks") == z3.Store(c.old("locks"), c.arg("invocation_id"), locks_t.opt.some(c.result))),
        ])],
        properties=[pid, "C02"],
    )
    atomic = Contract(
        key=f"{MO}:MemOrchestrator._atomic_status_transition", shape="MemOrchestrator",
        params={"invocation_id": ID, "status": T.Status, "runner_id": OSTR}, result=T.Record,
        requires=[("runner-id-none-or-nonempty", lambda c: runner_id_ok(c.arg("runner_id")))],
        frame=["invocation_status_record", "status_index", "locks"],
        cases=[
            Case("unknown-id", when=lambda c: OREC.is_none(cur_rec(c)), raises="KeyError", ensures=unchanged),
            Case("refused-no-such-edge", when=lambda c: z3.And(OREC.is_some(cur_rec(c)), err(c), no_edge(c)), raises="InvocationStatusTransitionError",
                 exact=True, ensures=unchanged,
                 exc_fields={"from_status": lambda c: Val(Opt(T.Status).some(T.Record.get(OREC.val(cur_rec(c)), "status")), Opt(T.Status))}),
            Case("refused-not-the-owner", when=lambda c: z3.And(OREC.is_some(cur_rec(c)), err(c), z3.Not(no_edge(c))), raises="InvocationStatusOwnershipError",
                 exact=True, ensures=unchanged),
            Case("accepted", when=lambda c: z3.And(OREC.is_some(cur_rec(c)), z3.Not(err(c))), ensures=[
                ("only-this-record-written", lambda c: c.f("invocation_status_record") ==
                 z3.Store(c.old("invocation_status_record"), c.arg("invocation_id"), rec_t.opt.some(c.result))),
                ("status-is-requested", lambda c: T.Record.get(c.result, "status") == c.arg("status")),
                ("owner-per-spec", lambda c: T.Record.get(c.result, "runner_id") ==
                 spec_new_owner(T, cur_rec(c), c.arg("status"), c.arg("runner_id"))),
            ]),
        ],
        properties=[pid],
    )
    def lock_ownership(c):
        """kind-5 obligation: every read/write of the record map and the status index happens while holding the lock that
        _get_invocation_lock returned for *this* invocation id"""
        evs = [e for e in c.st.events if isinstance(e, dict)]
        got = [e for e in evs if e.get("ev") == "call" and e["key"].endswith("MemOrchestrator._get_invocation_lock")]
        heap = [e for e in evs if e.get("ev") == "heap" and e["field"] in ("invocation_status_record", "status_index")]
        if len(got) != 1 or not heap:
            return z3.BoolVal(False)
        lock_term = got[0]["result"].term
        held = all(any(p[0] == "lock" and z3.eq(p[1], lock_term) for p in e["perms"]) for e in heap)
        calls_inside = [e for e in evs if e.get("ev") == "call" and e["key"].endswith("_interanl_atomic_status_transition")]
        held_calls = all(any(p[0] == "lock" and z3.eq(p[1], lock_term) for p in e.get("perms", ())) for e in calls_inside)
        return z3.And(z3.BoolVal(held and held_calls), got[0]["args"]["invocation_id"].term == c.arg("invocation_id"))
    atomic.trace_fields = ("invocation_status_record", "status_index")
    for case in atomic.cases:
        case.ensures = list(case.ensures) + [("C02:ownership:read-validate-write-under-the-lock-of-this-invocation-id", lock_ownership)]

    internal = Contract(
        key=f"{MO}:MemOrchestrator._interanl_atomic_status_transition", shape="MemOrchestrator",
        params={"invocation_id": ID, "prev_status_record": OREC, "new_record": T.Record}, result=T.Record,
        requires=[
            ("prev-is-the-stored-record", lambda c: c.arg("prev_status_record") == z3.Select(c.f("invocation_status_record"), c.arg("invocation_id"))),
            ("new-owner-none-or-nonempty", lambda c: runner_id_ok(T.Record.get(c.arg("new_record"), "runner_id"))),
        ],
        frame=["invocation_status_record", "status_index"],
        cases=[Case("write", ensures=[
            ("only-this-record-written", lambda c: c.f("invocation_status_record") ==
             z3.Store(c.old("invocation_status_record"), c.arg("invocation_id"), rec_t.opt.some(c.arg("new_record")))),
            ("returns-new-record", lambda c: c.result == c.arg("new_record")),
        ])],
        properties=[pid],
    )
    get_rec = Contract(
        key=f"{MO}:MemOrchestrator.get_invocation_status_record", shape="MemOrchestrator",
        params={"invocation_id": ID}, result=T.Record, frame=[],
        cases=[
            Case("unknown-id", when=lambda c: OREC.is_none(cur_rec(c)), raises="KeyError", exact=True),
            Case("known", when=lambda c: OREC.is_some(cur_rec(c)), ensures=[
                ("returns-stored-record", lambda c: c.result == OREC.val(cur_rec(c)))]),
        ],
        properties=[pid],
    )

    # ---- registration: writes REGISTERED for ids without a record only (no precondition on the ids: re-registration must not move a status)
    invs_t = SeqT(T.Invocation)

    def inv_id_at(c, k):
        return T.Invocation.get(c.arg("invocations")[k], "invocation_id")

    def fresh_ids(c):
        k, j = z3.Ints(f"{fresh_name('k')} {fresh_name('j')}")
        n = z3.Length(c.arg("invocations"))
        rec = c.f("invocation_status_record")
        return z3.And(
            z3.ForAll([k], z3.Implies(z3.And(k >= 0, k < n), OREC.is_none(z3.Select(rec, inv_id_at(c, k))))),
            z3.ForAll([k, j], z3.Implies(z3.And(k >= 0, k < j, j < n), inv_id_at(c, k) != inv_id_at(c, j))))

    def reg_progress(c, upto, record_term):
        k = z3.Int(fresh_name("k"))
        i = z3.Const(fresh_name("i"), ID.sort())
        rec, old = c.f("invocation_status_record"), c.old("invocation_status_record")
        n = z3.Length(c.arg("invocations"))
        # an id that already has a record keeps it (same as SQLite's ON CONFLICT DO NOTHING); a new id gets the REGISTERED record
        done = z3.ForAll([k], z3.Implies(z3.And(k >= 0, k < upto), z3.Select(rec, inv_id_at(c, k)) == z3.If(
            OREC.is_some(z3.Select(old, inv_id_at(c, k))), z3.Select(old, inv_id_at(c, k)), rec_t.opt.some(record_term))))
        kk = z3.Int(fresh_name("kk"))
        others = z3.ForAll([i], z3.Implies(z3.Not(z3.Exists([kk], z3.And(kk >= 0, kk < upto, inv_id_at(c, kk) == i))),
                                           z3.Select(rec, i) == z3.Select(old, i)))
        return z3.And(done, others)

    register = Contract(
        key=f"{MO}:MemOrchestrator._register_new_invocations", shape="MemOrchestrator",
        params={"invocations": invs_t, "runner_id": OSTR}, result=T.Record,
        requires=[("runner-id-none-or-nonempty", lambda c: runner_id_ok(c.arg("runner_id")))],
        frame=["invocation_status_record", "status_index", "task_id_to_inv_id", "call_id_to_inv_id", "inv_id_to_call_id", "invocation_retries"],
        loops={0: LoopSpec(inv=[
            ("R", shape.R), ("O", shape.O),
            ("registered-so-far", lambda c: reg_progress(c, c.x("i"), c.v("status_record"))),
            ("record-is-REGISTERED", lambda c: z3.And(T.Record.get(c.v("status_record"), "status") == T.S("REGISTERED"),
                                                      runner_id_ok(T.Record.get(c.v("status_record"), "runner_id")))),
        ])},
        cases=[Case("registered", ensures=[
            ("result-is-REGISTERED", lambda c: T.Record.get(c.result, "status") == T.S("REGISTERED")),
            ("registered-by-the-given-runner", lambda c: T.Record.get(c.result, "runner_id") == c.arg("runner_id")),
            ("exactly-the-given-ids-written", lambda c: reg_progress(c, z3.Length(c.arg("invocations")), c.result)),
        ])],
        properties=[pid],
        note="init step of the induction: the only status ever written for an id without a record is REGISTERED",
    )
    W = {"invocation_status_record": {"a": {"status": "PENDING", "runner_id": "r1", "timestamp": 1.0},
                                      "b": {"status": "SUCCESS", "runner_id": None, "timestamp": 2.0}},
         "status_index": {"PENDING": ["a"], "SUCCESS": ["b"], "RUNNING": []}}
    atomic.witnesses = [{"fields": W, "args": {"invocation_id": "a", "status": "RUNNING", "runner_id": "r1"}},
                        {"fields": W, "args": {"invocation_id": "zz", "status": "RUNNING", "runner_id": None}}]
    internal.witnesses = [{"fields": W, "args": {"invocation_id": "a", "prev_status_record": W["invocation_status_record"]["a"],
                                                 "new_record": {"status": "RUNNING", "runner_id": "r1", "timestamp": 3.0}}}]
    get_rec.witnesses = [{"fields": W, "args": {"invocation_id": "b"}}]
    out = [get_lock, atomic, internal, get_rec, register]
    for c in out:
        reg.add(c)
    return out


def lemmas(T, reg, ctx):
    return []
