"""C01/C02 — SQLiteOrchestrator._atomic_status_transition: glue obligations.

Proved: the row is selected by the given id inside a BEGIN IMMEDIATE transaction on one connection, decoded
positionally into (status, owner, timestamp), handed unchanged to status_record_transition together with the
requested status and requester; a missing row raises KeyError before any write; a refusal writes nothing; on
acceptance exactly one UPDATE binds exactly the fields of the *returned* record and the same id, then commits.
Not proved: what the SELECT / UPDATE statements mean (bounded stand-in single_step_space, exhaustive)."""
from __future__ import annotations

import z3

from pyvc import ops, sqlmodel
from pyvc.contract import Case, Contract, Registry, Shape
from pyvc.sqlmodel import all_events, sql_events
from pyvc.types import BOOL, DATETIME, INT, REAL, STR, ObjT, Opt
from pyvc.values import Val

from .common import ID, RUNNER, Types, runner_id_ok

SO = "pynenc.orchestrator.sqlite_orchestrator"
INV = "{self.tables.INVOCATIONS}"


def T(b):
    return z3.BoolVal(bool(b))


def schema(Ty: Types):
    vals = [z3.StringVal(str(Ty.Status.values[m])) for m in Ty.Status.members]
    return {
        "status": (STR, lambda t: z3.Or([t == v for v in vals])),
        "status_runner_id": (Opt(RUNNER), runner_id_ok),
        "status_timestamp": (REAL, None),
        "invocation_id": (ID, None),
        "retry_count": (INT, None),
    }


def contracts(Ty: Types, reg: Registry, ctx, pid="C01"):
    sqlmodel.install(reg, schema(Ty))
    if "Tables" not in reg.shapes:
        reg.add_shape(Shape("Tables", fields={}))
    reg.add_shape(Shape("SQLiteOrchestrator", fields={"sqlite_db_path": STR, "tables": ObjT("Tables"), "app": ObjT("App")},
                        cls=(SO, "SQLiteOrchestrator")))
    sq = reg.shapes["SQLiteOrchestrator"]
    sq.auto_fields, sq.auto_str_key = True, ID       # further bookkeeping attributes are "don't care" fields; str keys there are invocation ids
    reg.ann_types = dict(getattr(reg, "ann_types", {}), InvocationStatusRecord=Ty.Record, InvocationStatus=Ty.Status)
    tr_key = "pynenc.invocation.status:status_record_transition"
    reg.contracts[tr_key].event = True
    OREC, OSTR = Opt(Ty.Record), Opt(RUNNER)

    def stmts(c):
        return sql_events(c.st)

    def sel(c):
        s = [e for e in stmts(c) if e["kind"] == "SELECT"]
        return s[0] if len(s) == 1 else None

    def calls(c):
        return [e for e in all_events(c.st) if e.get("ev") == "call" and e["key"] == tr_key]

    def ownership(c):
        s = stmts(c)
        return T(bool(s) and s[0]["kind"] == "BEGIN IMMEDIATE" and len({e["conn"] for e in s}) == 1
                 and all(e["owned"] for e in s if e["kind"] in ("SELECT", "UPDATE", "INSERT", "DELETE")))

    def select_by_id(c):
        e = sel(c)
        if e is None or e["table"] != INV or e["info"]["where"] != ["invocation_id"] or len(e["params"]) != 1:
            return T(False)
        if e["info"]["columns"][:3] != ["status", "status_runner_id", "status_timestamp"] and \
                set(e["info"]["columns"]) < {"status", "status_runner_id", "status_timestamp"}:
            return T(False)
        return e["params"][0].term == c.arg("invocation_id")

    def no_update(c):
        return T(not [e for e in stmts(c) if e["kind"] in ("UPDATE", "INSERT", "DELETE")])

    def decoded_row_validated(c):
        e, cs = sel(c), calls(c)
        if e is None or e.get("row") is None or len(cs) != 1:
            return T(False)
        row, a = e["row"], cs[0]["args"]
        status_enum = z3.Const("decoded_status", Ty.Status.sort())
        link = z3.Or([z3.And(row["status"].term == z3.StringVal(str(Ty.Status.values[m])), status_enum == Ty.S(m)) for m in Ty.Status.members])
        cur = a["current_record"].term
        return z3.And(OREC.is_some(cur),
                      z3.Implies(link, Ty.Record.get(OREC.val(cur), "status") == status_enum),
                      z3.Exists([status_enum], link),
                      Ty.Record.get(OREC.val(cur), "runner_id") == row["status_runner_id"].term,
                      a["new_status"].term == c.arg("status"), a["runner_id"].term == c.arg("runner_id"))

    def unknown_id(c):
        e = sel(c)
        return z3.And(T(e is not None and e.get("row") is None and not calls(c)), no_update(c))

    def refused(c):
        cs = calls(c)
        return z3.And(T(len(cs) == 1 and cs[0]["case"].startswith("refused")), no_update(c))

    def accepted_write(c):
        cs = calls(c)
        ups = [e for e in stmts(c) if e["kind"] == "UPDATE"]
        if len(cs) != 1 or cs[0]["case"] != "accepted" or len(ups) != 1:
            return T(False)
        u, rec = ups[0], cs[0]["result"]
        if u["table"] != INV or u["info"]["set"] != ["status", "status_runner_id", "status_timestamp"] or \
                u["info"]["where"] != ["invocation_id"] or len(u["params"]) != 4:
            return T(False)
        evs = all_events(c.st)
        iu = max(i for i, e in enumerate(evs) if e.get("ev") == "sql" and e["kind"] == "UPDATE")
        committed = any(e.get("ev") == "commit" for e in evs[iu:])
        other_writes = [e for e in stmts(c) if e["kind"] in ("INSERT", "DELETE")]
        p = u["params"]
        from pyvc.ops import coerce, enum_value
        return z3.And(
            T(committed and not other_writes),
            p[0].term == enum_value(Val(Ty.Record.get(rec.term, "status"), Ty.Status)).term,
            coerce(p[1], OSTR).term == Ty.Record.get(rec.term, "runner_id"),
            p[2].term == Ty.Record.get(rec.term, "timestamp"),
            p[3].term == c.arg("invocation_id"),
            c.result == rec.term)

    atomic = Contract(
        key=f"{SO}:SQLiteOrchestrator._atomic_status_transition", shape="SQLiteOrchestrator",
        params={"invocation_id": ID, "status": Ty.Status, "runner_id": OSTR}, result=Ty.Record, frame=[],
        requires=[("runner-id-none-or-nonempty", lambda c: runner_id_ok(c.arg("runner_id")))],
        cases=[
            Case("unknown-id", raises="KeyError", exact=True, ensures=[
                ("ownership:BEGIN-IMMEDIATE-first-one-connection", ownership), ("selected-by-the-given-id", select_by_id),
                ("no-row-and-nothing-written", unknown_id)]),
            Case("refused", raises="InvocationStatusError", ensures=[
                ("ownership:BEGIN-IMMEDIATE-first-one-connection", ownership), ("selected-by-the-given-id", select_by_id),
                ("stored-row-and-request-handed-to-the-state-machine-unchanged", decoded_row_validated),
                ("nothing-written", refused)]),
            Case("accepted", ensures=[
                ("ownership:BEGIN-IMMEDIATE-first-one-connection", ownership), ("selected-by-the-given-id", select_by_id),
                ("stored-row-and-request-handed-to-the-state-machine-unchanged", decoded_row_validated),
                ("one-UPDATE-binding-exactly-the-returned-record-then-commit", accepted_write)]),
            Case("commit-fault", raises="OperationalError", ensures=[
                ("ownership:BEGIN-IMMEDIATE-first-one-connection", ownership),
                ("a-failed-commit-leaves-the-stored-record-as-it-was(rolled back with the transaction)",
                 lambda c: T(not any(e.get("ev") == "commit" for e in all_events(c.st))))]),
        ],
        properties=[pid, "C02"])
    reg.add(atomic)
    return [atomic]
