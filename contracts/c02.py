"""C02 — an invocation is held by at most one runner at a time (sequential contracts + lock/transaction ownership)."""
from __future__ import annotations

import z3

from pyvc.prop import BoundedResult, Prop, RunCtx
from pyvc.solve import Obligation

from . import c01_mem, c01_sqlite, c08_sqlite
from .common import SPEC, import_real
from .glueprop import GLUE_ASSUMPTIONS, GLUE_TRUSTED, setup

PID = "C02"


def graph_lemmas(ctx: RunCtx):
    """On the table of the tree under check: between two claims of one invocation there is always a release, and while an
    invocation is in a status that requires ownership only its owner (or a recovery status) moves it."""
    mod = import_real(ctx.repo, "pynenc.invocation.status")
    defs = {k: v for k, v in mod._CONFIG.definitions.items() if k is not None}
    out = []

    def ob(name, ok, detail=""):
        o = Obligation(name=f"{PID}/lemma/{name}", kind="lemma", pc=[], goal=z3.BoolVal(bool(ok)), function="pynenc.invocation.status:_CONFIG")
        o.status = "discharged" if ok else "failed"
        o.backend = "finite-evaluation"
        o.detail = detail
        return o
    acquiring = [s for s, d in defs.items() if d.acquires_ownership]
    # remove every status that releases ownership; an acquiring status must not be reachable from an acquiring status
    keep = {s for s, d in defs.items() if not d.releases_ownership}
    bad = []
    for a in acquiring:
        seen, todo = set(), [t for t in defs[a].allowed_transitions if t in keep]
        while todo:
            x = todo.pop()
            if x in seen:
                continue
            seen.add(x)
            todo.extend(t for t in defs[x].allowed_transitions if t in keep)
        bad += [(a.name, s.name) for s in seen if defs[s].acquires_ownership]
    out.append(ob("every-path-between-two-claims-passes-a-status-that-releases-ownership", not bad, str(bad)))
    out.append(ob("only-PENDING-acquires-ownership", sorted(s.name for s in acquiring) == sorted(SPEC["acquires"]), str([s.name for s in acquiring])))
    owned = sorted(s.name for s, d in defs.items() if d.requires_ownership)
    out.append(ob("ownership-required-in-exactly-PENDING-RUNNING-PAUSED-RESUMED", owned == sorted(SPEC["owned"]), str(owned)))
    overrides = sorted(s.name for s, d in defs.items() if d.overrides_ownership)
    out.append(ob("only-the-two-recovery-statuses-override-ownership", overrides == sorted(SPEC["recovery"]), str(overrides)))
    # available statuses never carry an owner (they release on entry), so a claim always starts from an unowned record
    avail_rel = all(defs[s].releases_ownership for s in defs if defs[s].available_for_run)
    out.append(ob("available-statuses-release-ownership-on-entry", avail_rel))
    return out


def lock_selection(ctx: RunCtx):
    """Ownership obligation (kind 5): the map invocation id -> lock must be a function also under concurrent callers, i.e. the
    selection in MemOrchestrator._get_invocation_lock is one atomic dict operation (setdefault) or runs under a lock.  A
    check-then-insert on the shared dict lets two callers obtain two different locks for one id."""
    import ast
    fi = ctx.src.function("pynenc.orchestrator.mem_orchestrator:MemOrchestrator._get_invocation_lock")
    accesses, under_lock = [], True
    with_nodes = [n for n in ast.walk(fi.node) if isinstance(n, ast.With)]
    guarded = {id(x) for w in with_nodes for x in ast.walk(w)}
    for node in ast.walk(fi.node):
        if isinstance(node, ast.Attribute) and node.attr == "locks" and isinstance(node.value, ast.Name) and node.value.id == "self":
            accesses.append(node)
            if id(node) not in guarded:
                under_lock = False
    single_atomic = False
    if len(accesses) == 1:
        for node in ast.walk(fi.node):
            if isinstance(node, ast.Call) and isinstance(node.func, ast.Attribute) and node.func.attr == "setdefault" and node.func.value is accesses[0]:
                single_atomic = True
    ok = bool(accesses) and (single_atomic or under_lock)
    o = Obligation(name=f"{PID}/ownership/MemOrchestrator._get_invocation_lock/lock-selection-is-one-atomic-operation-or-under-a-lock", kind="perm",
                   pc=[], goal=z3.BoolVal(ok), function=fi.key)
    o.status, o.backend = ("discharged" if ok else "failed"), "ast-scan"
    o.detail = f"{len(accesses)} accesses to self.locks; single setdefault: {single_atomic}; all under a lock: {under_lock and bool(with_nodes)}"
    return [o]


def forced_schedules(ctx: RunCtx) -> BoundedResult:
    """Bounded stand-in: two real pollers, forced to interleave at the claim, on queues with duplicate ids - never both get one id."""
    import threading
    from .realapp import new_invocation, real_app, runner_ctx
    res = BoundedResult("forced_schedules", "2 pollers x queues with 1-3 ids incl. duplicated messages x both backends; both pollers are released "
                        "together at the PENDING request (barrier inside set_invocation_status); 12 rounds each")
    n = 0
    for backend in ("mem", "sqlite"):
        for dup in (1, 2, 3):
            for rounds in range(6):
                with real_app(backend) as app:
                    invs = [new_invocation(app) for _ in range(2)]
                    for _ in range(dup - 1):
                        app.broker.route_invocation(invs[0].invocation_id)
                    barrier = threading.Barrier(2, timeout=3)
                    real = app.orchestrator._atomic_status_transition

                    def gated(invocation_id, status, runner_id=None, real=real, barrier=barrier):
                        try:
                            barrier.wait()
                        except threading.BrokenBarrierError:
                            pass
                        return real(invocation_id, status, runner_id)
                    app.orchestrator._atomic_status_transition = gated
                    got = {}

                    def poll(name):
                        got[name] = [i.invocation_id for i in app.orchestrator.get_invocations_to_run(3, runner_ctx(name))]
                    ts = [threading.Thread(target=poll, args=(nm,)) for nm in ("r1", "r2")]
                    for t in ts:
                        t.start()
                    for t in ts:
                        t.join(20)
                    n += 1
                    both = set(got.get("r1", [])) & set(got.get("r2", []))
                    twice = [x for v in got.values() for x in set(v) if v.count(x) > 1]
                    if (both or twice) and len(res.failures) < 10:
                        res.failures.append({"what": f"{backend}: invocation claimed twice without a release: both={sorted(both)} twice={twice}",
                                             "input": {"backend": backend, "copies_of_first_id": dup}, "finding_key": f"{backend}:double-claim"})
    res.cases = n
    res.distinct = n
    res.samples = [{"backend": "sqlite", "copies_of_first_id": 2}]
    return res


def build(ctx: RunCtx) -> Prop:
    T, reg, G = setup(ctx)
    import dataclasses
    from pyvc.contract import Case
    # C02 does not ask that the poll cannot fail (that is C06/C03): an escaping status error is allowed here
    gai = dataclasses.replace(G["get_additional_invocations_to_run"])
    gai.cases = list(gai.cases) + [Case("poll-fails-on-a-blocked-invocation(C06)", raises="InvocationStatusError")]
    for attr in ("mutable_params", "yield_hook", "gen_distinct"):
        setattr(gai, attr, getattr(G["get_additional_invocations_to_run"], attr))
    verify = [gai, G["get_blocking_invocations_to_run"], G["get_invocations_to_run"], G["set_invocation_status"]]
    mem = c01_mem.contracts(T, reg, ctx, pid=PID)
    verify += [c for c in mem if c.key.endswith("_atomic_status_transition") or c.key.endswith("_get_invocation_lock")]
    verify += c01_sqlite.contracts(T, reg, ctx, pid=PID)
    verify += [c for c in c08_sqlite.contracts(reg, ctx) if c.key.endswith("retrieve_invocation")]
    return Prop(
        pid=PID, title="between two claims there is a release (graph lemma on the real table); an id is yielded to a runner only after that activation's own "
                       "PENDING request succeeded; the read-validate-write of a transition runs under the lock of that invocation id (Mem) / inside BEGIN "
                       "IMMEDIATE on one connection (SQLite orchestrator and broker)",
        level="proof", technique="contract-based deductive verification: sequential contracts + lock/transaction ownership obligations on the real ASTs; forced two-thread schedules as bounded stand-in",
        registry=reg, verify=verify, lemmas=[graph_lemmas, lock_selection], bounded=[forced_schedules],
        assumptions=GLUE_ASSUMPTIONS + ["threading.Lock is mutual exclusion; dict.setdefault is atomic under the GIL",
                                        "SQLite BEGIN IMMEDIATE gives one writer until commit/rollback; sqlite3 does not commit implicitly between the statements used"],
        trusted_base=GLUE_TRUSTED + ["CPython GIL atomicity of dict.setdefault", "sqlite3"],
        not_decided="no interleaving is explored by the proof: mutual exclusion holds IF the assumed lock / transaction contracts hold. "
                    "The task body running in two workers at once is covered by the RUNNING-request-dominates-the-body obligation of DistributedInvocation.run (C19 module).",
        min_obligations=60,
    )
