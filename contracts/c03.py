"""C03 (kernel) — no accepted invocation is stranded: the no-stranding predicate J holds at every exit of the lifecycle
operations; the single-crash windows between two effects are reported as known findings."""
from __future__ import annotations

from pyvc.prop import Prop, RunCtx

from .glueprop import GLUE_ASSUMPTIONS, GLUE_TRUSTED, setup

PID = "C03"


def build(ctx: RunCtx) -> Prop:
    T, reg, G = setup(ctx)
    names = ["register_new_invocations", "_route_new_call_invocation", "route_calls", "get_additional_invocations_to_run",
             "get_blocking_invocations_to_run", "get_invocations_to_run", "reroute_invocations", "set_invocation_retry",
             "set_invocation_status"]
    verify = [G[n] for n in names]
    from . import c03_more
    verify += c03_more.contracts(T, reg, G, ctx)
    from .c06_leaf import replay_poll_raises
    return Prop(
        pid=PID, title="J(id) := final, or available and queued, or PENDING/RUNNING with an owner - proved at every exit (normal and exceptional) of "
                       "registration, claiming, reroute, retry, kill-and-reroute and the two recovery tasks, for all states satisfying J at entry",
        level="other", technique="contract-based deductive verification of the no-stranding invariant at the exits of the real lifecycle functions (AST->z3 VCs)",
        registry=reg, verify=verify, lemmas=c03_more.lemmas(T, reg, G, ctx), bounded=c03_more.bounded(),
        replayers={"*get_additional_invocations_to_run/raises:InvocationStatusError:undeclared-exception*": replay_poll_raises},
        assumptions=GLUE_ASSUMPTIONS + ["recovery notices PENDING (timeout scan) and RUNNING under a dead owner (heartbeat scan): C04"],
        trusted_base=GLUE_TRUSTED,
        not_decided="liveness ('reaches a final status', 'body completed at least once') needs fairness of recovery and surviving runners and is outside "
                    "this family; a process kill is only expressible as 'the state between two effects' (step windows listed as known findings).",
        min_obligations=100,
        # runner side (verified in the C11 module's registry): kill-and-reroute ends final or available-and-queued; the thread runner's loop
        # iteration takes over every invocation its poll claimed (drains the generator, so that the poll's own re-routing code runs)
        # a replacement worker gets an id no tracked worker has (recovery recognises a dead owner by its id: C04)
        parts=[("contracts.c11", ["pynenc.runner.base_runner:BaseRunner._kill_and_reroute", "pynenc.runner.thread_runner:ThreadRunner.runner_loop_iteration"]),
               ("contracts.c14", ["pynenc.runner.persistent_process_runner:PersistentProcessRunner._spawn_persistent_process"])],
    )
