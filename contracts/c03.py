"""C03 (kernel) — placeholder module while the glue contracts are built."""
from __future__ import annotations

from pyvc.prop import Prop, RunCtx

from . import c01, glue
from .common import Types, base_registry

PID = "C03"


def build(ctx: RunCtx) -> Prop:
    T = Types(ctx.src)
    reg = base_registry(ctx.src, T)
    reg.T = T
    for c in c01.status_contracts(T, reg, ctx.repo, pid="C01"):
        reg.add(c)
    G = glue.glue_contracts(T, reg)
    verify = [G[k] for k in G]
    return Prop(pid=PID, title="glue", level="proof", technique="glue", registry=reg, verify=verify, min_obligations=5)
