"""C03, bounded part: a surviving runner polls between any two backend effects of a multi-step lifecycle operation.

The deductive contracts state what holds at the exits of an operation; the window *between* two of its effects is visible to other
runners.  This stand-in runs the real operation (recovery tasks, retry, reroute, kill-and-reroute, batch routing) on the real backends and,
in separate runs, lets another runner poll the broker right before each of its backend effects and once after it; afterwards no invocation may
be stranded (J: final, or available and queued, or PENDING/RUNNING under a runner that is alive).  Bounded (single preemption, small
scenarios), never counted as proved."""
from __future__ import annotations

from pyvc.prop import BoundedResult, RunCtx

EFFECTS = [("orchestrator", "_atomic_status_transition"), ("orchestrator", "increment_invocation_retries"), ("orchestrator", "_register_new_invocations"),
           ("broker", "route_invocation"), ("broker", "route_invocations"), ("broker", "retrieve_invocation")]


def contracts(T, reg, G, ctx):
    return []


def lemmas(T, reg, G, ctx):
    return []


class Cut:
    """Counts the backend effects of the operation under test and runs `action` right before effect number `at` (once)."""

    def __init__(self, app, at, action):
        self.app, self.at, self.action, self.n, self.active, self.saved = app, at, action, 0, False, []

    def __enter__(self):
        for comp, meth in EFFECTS:
            obj = getattr(self.app, comp)
            real = getattr(obj, meth, None)
            if real is None:
                continue
            self.saved.append((obj, meth, real))

            def wrapper(*a, _real=real, **kw):
                if self.active:
                    self.n += 1
                    if self.n == self.at:
                        self.active = False        # the poller's own effects are not cut points
                        try:
                            self.action()
                        finally:
                            self.active = True
                return _real(*a, **kw)
            setattr(obj, meth, wrapper)
        self.active = True
        return self

    def __exit__(self, *exc):
        self.active = False
        for obj, meth, real in self.saved:
            setattr(obj, meth, real)
        return False


def poller_between_effects(ctx: RunCtx) -> BoundedResult:
    import time as _time
    from datetime import UTC, datetime
    from pynenc import context
    from pynenc.invocation.status import InvocationStatus as S
    from . import verif_tasks as vt
    from .realapp import force_status, new_invocation, real_app, runner_ctx
    thorough = ctx.tier == "thorough"
    res = BoundedResult("poller_between_effects", "real operations {recover_pending, recover_running, set_invocation_retry, reroute_invocations, kill-and-reroute, "
                        "route_calls batch of 3} x a second runner polling right before effect k (every k) and after the operation, on the in-memory backend" +
                        (" and SQLite" if thorough else "") + "; afterwards every invocation is final, or available and queued, or PENDING/RUNNING under a live runner")
    n = 0
    final = {"SUCCESS", "FAILED", "CONCURRENCY_CONTROLLED_FINAL"}
    avail = {"REGISTERED", "REROUTED", "RETRY"}

    def scenarios(app):
        A, B, R = runner_ctx("runner-A-dead"), runner_ctx("runner-B"), runner_ctx("recovery-runner")
        orch = app.orchestrator

        def poll():
            for inv in orch.get_invocations_to_run(5, B):
                pass        # B claims what it is handed (PENDING under the live runner B)

        def as_core_task(fn):
            def run():
                context.set_current_app(app)
                context.set_runner_context(app.app_id, R)
                fn()
            return run
        from pynenc import core_tasks

        def unwrap(task):
            return getattr(task, "func", None) or getattr(task, "__wrapped__", None) or task

        def stuck(status, owner, age):
            inv = new_invocation(app)
            while app.broker.retrieve_invocation() is not None:      # the queue entry of the registration was consumed by the dead runner
                pass
            force_status(app, inv.invocation_id, status, owner, ts=datetime.fromtimestamp(_time.time() - age, UTC))
            return inv

        def s_recover_pending():
            inv = stuck(S.PENDING, "runner-A-dead", 10_000.0)
            return [inv], as_core_task(unwrap(core_tasks.recover_pending_invocations))

        def s_recover_running():
            inv = stuck(S.RUNNING, "runner-A-dead", 10_000.0)
            return [inv], as_core_task(unwrap(core_tasks.recover_running_invocations))

        def s_retry():
            inv = stuck(S.RUNNING, "runner-B", 0.0)
            return [inv], lambda: orch.set_invocation_retry(inv.invocation_id, vt.Retriable("again"), B)

        def s_reroute():
            inv = stuck(S.PENDING, "runner-B", 0.0)
            return [inv], lambda: orch.reroute_invocations({inv.invocation_id}, B)

        def s_kill():
            inv = stuck(S.RUNNING, "runner-B", 0.0)
            from pynenc.runner.thread_runner import ThreadRunner
            r = ThreadRunner(app, runner_context=B)
            return [inv], lambda: r._kill_and_reroute(inv.invocation_id)
        return {"recover_pending": s_recover_pending, "recover_running": s_recover_running, "set_invocation_retry": s_retry,
                "reroute_invocations": s_reroute, "kill_and_reroute": s_kill}, poll

    for backend in (("mem", "sqlite") if thorough else ("mem",)):
        names = None
        with real_app(backend, max_pending_seconds=100.0, runner_considered_dead_after_minutes=1.0) as probe:
            names = list(scenarios(probe)[0])
        for name in names:
            k = 0
            while True:
                k += 1
                n += 1
                with real_app(backend, max_pending_seconds=100.0, runner_considered_dead_after_minutes=1.0) as app:
                    scen, poll = scenarios(app)
                    app.orchestrator.register_runner_heartbeats(["runner-B", "recovery-runner"])
                    try:
                        invs, op = scen[name]()
                        with Cut(app, k, poll) as cut:
                            op()
                        total = cut.n
                        poll_after = k > total           # the last run of a scenario polls after the operation instead
                        if poll_after:
                            poll()
                    except Exception as e:      # noqa: BLE001
                        res.failures.append({"what": f"{backend}: {name}, poll before effect {k}: {type(e).__name__}: {str(e)[:120]}", "finding_key": f"{backend}:{name}:error"})
                        break
                    queued = []
                    while (i := app.broker.retrieve_invocation()) is not None:
                        queued.append(i)
                    for inv in invs:
                        r = app.orchestrator.get_invocation_status_record(inv.invocation_id)
                        ok = r.status.name in final or (r.status.name in avail and inv.invocation_id in queued) or \
                            (r.status.name in ("PENDING", "RUNNING") and r.runner_id in ("runner-B", "recovery-runner"))
                        if not ok and len(res.failures) < 8:
                            res.failures.append({"what": f"{backend}: {name} with a second runner polling " + ("after it" if poll_after else f"right before its backend effect #{k}") +
                                                         f": the invocation ends {r.status.name} owner={r.runner_id} queued={inv.invocation_id in queued} (stranded)",
                                                 "input": {"operation": name, "poll_before_effect": k}, "finding_key": f"{name}:stranded"})
                    if k > total:
                        break
    res.cases = n
    res.distinct = n
    res.samples = [{"operation": "recover_pending", "poll_before_effect": 2}]
    return res


def bounded():
    from .c08 import large_batches       # a routed batch of any size is queued completely (accepted invocations that never reach the queue are lost)
    return [poller_between_effects, large_batches]
