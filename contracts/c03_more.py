def contracts(T, reg, G, ctx):
    return []
def lemmas(T, reg, G, ctx):
    return []
