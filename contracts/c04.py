"""C04 — recovery re-queues stuck PENDING/RUNNING work and never steals live work."""
from __future__ import annotations

import itertools

import z3

from pyvc import ops
from pyvc.contract import Case, Contract, LoopSpec, Registry, Shape
from pyvc.prop import BoundedResult, Prop, RunCtx
from pyvc.types import BOOL, DATETIME, INT, REAL, STR, Atom, MapT, ObjT, Opt, SeqT, SetT
from pyvc.values import OK, TupleVal, Val, fresh_name, mk_fresh

from . import c01_mem, glue, world
from .common import ID, RUNNER, SPEC, Types, runner_id_ok, spec_step_error
from .glue import HIST, QUEUE, REC, Jall, bag_nonneg, ctx_ok, known, owner_of, owners_ok, status_of
from .glueprop import GLUE_ASSUMPTIONS, GLUE_TRUSTED, setup

PID = "C04"
MO = "pynenc.orchestrator.mem_orchestrator"
CT = "pynenc.core_tasks"
OSTR = Opt(RUNNER)


def mem_scan_contracts(T: Types, reg: Registry, ctx):
    mem = c01_mem.contracts(T, reg, ctx, pid=PID)   # registers the MemOrchestrator shape (+ R / O invariants)
    shape = reg.shapes["MemOrchestrator"]
    shape.auto_fields = True     # further bookkeeping attributes of the class are "don't care" fields of their annotated type
    reg.shapes["App"].fields.setdefault("conf", ObjT("AppConf"))
    rec_t = shape.fields["invocation_status_record"]
    hb_t = shape.fields["runner_last_heartbeat"]
    now = lambda c: c.g("$clock0")
    rec = lambda c: c.f("invocation_status_record")

    def st_of(c, i):
        return T.Record.get(rec_t.opt.val(z3.Select(rec(c), i)), "status")

    def ts_of(c, i):
        return T.Record.get(rec_t.opt.val(z3.Select(rec(c), i)), "timestamp")

    def own_of(c, i):
        return T.Record.get(rec_t.opt.val(z3.Select(rec(c), i)), "runner_id")

    def has(c, i):
        return rec_t.opt.is_some(z3.Select(rec(c), i))

    # ---- pending scan: exactly the invocations PENDING for at least max_pending_seconds
    def stale_pending(c, within=None):
        i = z3.Const(fresh_name("sp"), ID.sort())
        cond = z3.And(has(c, i), st_of(c, i) == T.S("PENDING"), now(c) - ts_of(c, i) >= c.f("app.conf.max_pending_seconds"))
        if within is not None:
            cond = z3.And(cond, z3.Select(within, i))
        return z3.Lambda([i], cond)
    pending = Contract(
        key=f"{MO}:MemOrchestrator.get_pending_invocations_for_recovery", shape="MemOrchestrator", params={}, generator=ID, frame=[],
        loops={0: LoopSpec(modifies=[], inv=[
            ("yielded=stale-ones-among-the-scanned", lambda c: c.out_set == stale_pending(c, c.x("seen"))),
            ("cutoff-is-now-minus-limit", lambda c: c.v("cutoff_time") == now(c) - c.f("app.conf.max_pending_seconds")),
        ])},
        cases=[Case("scan", ensures=[
            ("yields-exactly-PENDING-for-at-least-the-limit", lambda c: c.out_set == stale_pending(c)),
        ])], properties=[PID])
    pending.gen_distinct = True

    # ---- running scan: RUNNING under an owner with no heartbeat within the timeout (or none at all)
    def dead_owner(c, within=None):
        i = z3.Const(fresh_name("do"), ID.sort())
        hb = c.f("runner_last_heartbeat")
        o = own_of(c, i)
        cellhb = z3.Select(hb, OSTR.val(o))
        fresh = z3.And(hb_t.opt.is_some(cellhb), now(c) - hb_t.opt.val(cellhb) <= c.arg("timeout_seconds"))
        cond = z3.And(has(c, i), st_of(c, i) == T.S("RUNNING"), OSTR.is_some(o), z3.Not(fresh))
        if within is not None:
            cond = z3.And(cond, z3.Select(within, i))
        return z3.Lambda([i], cond)
    running = Contract(
        key=f"{MO}:MemOrchestrator._get_running_invocations_for_recovery", shape="MemOrchestrator", params={"timeout_seconds": REAL},
        generator=ID, frame=[],
        loops={0: LoopSpec(modifies=[], inv=[
            ("yielded=dead-owner-ones-among-the-scanned", lambda c: c.out_set == dead_owner(c, c.x("seen"))),
            # helper fact about the local the current code computes first (stated only while that local exists: the contract itself does not depend on it)
            ("active-set-is-heartbeat-within-timeout", lambda c: z3.BoolVal(True) if not c.has_local("active_runner_ids") else z3.ForAll(
                [z3.Const("ar", STR.sort())], z3.Select(c.v("active_runner_ids"), z3.Const("ar", STR.sort())) == z3.And(
                    hb_t.opt.is_some(z3.Select(c.f("runner_last_heartbeat"), z3.Const("ar", STR.sort()))),
                    hb_t.opt.val(z3.Select(c.f("runner_last_heartbeat"), z3.Const("ar", STR.sort()))) >= now(c) - c.arg("timeout_seconds")))),
        ])},
        cases=[Case("scan", ensures=[
            ("yields-exactly-RUNNING-under-an-owner-without-a-fresh-heartbeat", lambda c: c.out_set == dead_owner(c)),
        ])], properties=[PID])
    running.gen_distinct = True

    # ---- heartbeats
    hbm = lambda c, f: c.f(f)

    def hb_post(c, seen):
        r = z3.Const(fresh_name("hr"), STR.sort())
        ct_t = shape.fields["runner_creation_time"]
        el_t = shape.fields["runner_atomic_service_eligible"]
        t = c.g("$clock0")
        return z3.ForAll([r], z3.And(
            z3.Select(c.f("runner_last_heartbeat"), r) == z3.If(z3.Select(seen, r), hb_t.opt.some(t), z3.Select(c.old("runner_last_heartbeat"), r)),
            z3.Select(c.f("runner_creation_time"), r) == z3.If(z3.And(z3.Select(seen, r), z3.Not(ct_t.opt.is_some(z3.Select(c.old("runner_creation_time"), r)))),
                                                                ct_t.opt.some(t), z3.Select(c.old("runner_creation_time"), r)),
            z3.Select(c.f("runner_atomic_service_eligible"), r) == z3.If(z3.Select(seen, r), el_t.opt.some(c.arg("can_run_atomic_service")),
                                                                          z3.Select(c.old("runner_atomic_service_eligible"), r))))
    heartbeats = Contract(
        key=f"{MO}:MemOrchestrator.register_runner_heartbeats", shape="MemOrchestrator",
        params={"runner_ids": SetT(STR), "can_run_atomic_service": BOOL}, defaults={"can_run_atomic_service": lambda eng, st: __import__("pyvc.values", fromlist=["boolval"]).boolval(False)},
        frame=["runner_last_heartbeat", "runner_creation_time", "runner_atomic_service_eligible"],
        loops={0: LoopSpec(modifies=["runner_last_heartbeat", "runner_creation_time", "runner_atomic_service_eligible"],
                           inv=[("heartbeat-now-for-processed-ids-creation-time-only-if-new-others-untouched", lambda c: hb_post(c, c.x("seen"))),
                                ("time-read-once", lambda c: c.v("current_time") == c.g("$clock0"))])},
        cases=[Case("registered", ensures=[
            ("heartbeat=now-for-exactly-the-given-ids-creation-time-only-if-new-others-untouched", lambda c: hb_post(c, c.arg("runner_ids")))])],
        properties=[PID], note="the id list is iterated as a set (the body is idempotent per id)")
    out = [pending, running, heartbeats]
    for c in out:
        reg.add(c)
    return out


def recovery_task_contracts(T: Types, reg: Registry, G: dict):
    """core_tasks.recover_pending_invocations / recover_running_invocations over the abstract world.  The scan result is
    modelled as the stale set plus arbitrary ids that have *moved on* since the scan (lost races)."""
    rec_t = MapT(ID, T.Record)
    SID = SetT(ID)

    def h_app_ctx(eng, st, recv, args, kwargs):
        v = mk_fresh(T.RunnerCtx, "ctx")
        st.assume(z3.Length(T.RunnerCtx.get(v.term, "runner_id")) > 0)
        st.ghost["$task_ctx"] = v
        return [(OK, st, TupleVal([st.ghost["$root"], v]))]
    reg.add(Contract(key=f"{CT}:get_app_and_runner_ctx", handler=h_app_ctx, assumed=True,
                     note="returns the current app and the runner context of the worker executing the core task"))
    # abstract scans: a superset of the stale set whose extra members are no longer in the scanned status
    for name, status in (("get_pending_invocations_for_recovery", "PENDING"), ("get_running_invocations_for_recovery", "RUNNING")):
        stale = z3.Function(f"stale_{status}", ID.sort(), z3.BoolSort())
        reg.add(Contract(
            key=f"Orchestrator.{name}", shape="Orchestrator", params={}, generator=ID, frame=[], assumed=True, check_invariants=False, effect_events=False,
            cases=[Case("scan", ensures=[
                ("stale-ones-are-returned-extras-have-moved-on", (lambda stale, status: lambda c: z3.ForAll([z3.Const("si", ID.sort())], z3.And(
                    z3.Implies(stale(z3.Const("si", ID.sort())), z3.And(c.out_set[z3.Const("si", ID.sort())], known(T, c.f("rec"), z3.Const("si", ID.sort())),
                                                                       status_of(T, c.f("rec"), z3.Const("si", ID.sort())) == T.S(status))),
                    z3.Implies(z3.And(c.out_set[z3.Const("si", ID.sort())], z3.Not(stale(z3.Const("si", ID.sort())))),
                               z3.And(known(T, c.f("rec"), z3.Const("si", ID.sort())), status_of(T, c.f("rec"), z3.Const("si", ID.sort())) != T.S(status))))))(stale, status)),
            ])], note="abstract scan (exact set proved for Mem in this module; SQLite bounded); ids whose status changed since the scan model lost races"))
        reg.shapes["Orchestrator"].abstract_methods[name] = f"Orchestrator.{name}"
        setattr(T, f"stale_{status}", stale)
    # a lost race: between the scan and the transition the owner moved the invocation on, so the recovery transition
    # can be refused for any invocation the task has not taken yet (nothing changes); the tasks must survive that
    import dataclasses
    sis = dataclasses.replace(G["set_invocation_status"])
    sis.cases = list(sis.cases) + [Case("lost-race", raises="InvocationStatusError", ensures=glue.unchanged(REC, HIST, glue.WAITED, glue.EDGES, glue.PURGE))]
    sis.key = "Orchestrator.set_invocation_status(racy)"
    sis.assumed = True
    reg.add(sis)
    out = []
    for fn, status, recovery in (("recover_pending_invocations", "PENDING", "PENDING_RECOVERY"), ("recover_running_invocations", "RUNNING", "RUNNING_RECOVERY")):
        stale = getattr(T, f"stale_{status}")
        O = "orchestrator."

        def post(c, stale=stale):
            i = z3.Const(fresh_name("ri"), ID.sort())
            r, r0 = c.f(O + "rec"), c.old(O + "rec")
            b, b0 = c.f("broker.queue"), c.old("broker.queue")
            requeued = z3.And(status_of(T, r, i) == T.S("REROUTED"), OSTR.is_none(owner_of(T, r, i)), z3.Select(b, i) >= z3.Select(b0, i) + 1)
            untouched = z3.And(z3.Select(r, i) == z3.Select(r0, i), z3.Select(b, i) == z3.Select(b0, i))
            return z3.ForAll([i], z3.And(
                z3.Implies(stale(i), z3.Or(requeued, untouched)),          # untouched only when the race for it was lost
                z3.Implies(z3.Not(stale(i)), untouched),
                z3.Implies(known(T, r, i), z3.Not(T.status_in(status_of(T, r, i), SPEC["recovery"]))
                           if False else z3.BoolVal(True))))

        def nothing_left_in_recovery(c, recovery=recovery):
            i = z3.Const(fresh_name("nl"), ID.sort())
            r, r0 = c.f(O + "rec"), c.old(O + "rec")
            return z3.ForAll([i], z3.Implies(z3.And(known(T, r, i), status_of(T, r, i) == T.S(recovery)),
                                             z3.And(known(T, r0, i), status_of(T, r0, i) == T.S(recovery))))

        def loop_inv(c, stale=stale, recovery=recovery, status=status):
            i = z3.Const(fresh_name("li"), ID.sort())
            r, r0 = c.f(O + "rec"), c.old(O + "rec")
            taken = c.v("invocations_to_reroute")
            return z3.And(
                c.f("broker.queue") == c.old("broker.queue"),
                z3.ForAll([i], z3.And(
                    z3.Implies(z3.Select(taken, i), z3.And(z3.Select(c.x("seen"), i), stale(i))),
                    z3.Implies(z3.Select(taken, i), z3.And(known(T, r, i), status_of(T, r, i) == T.S(recovery), OSTR.is_none(owner_of(T, r, i)))),
                    z3.Implies(z3.Not(z3.Select(taken, i)), z3.Select(r, i) == z3.Select(r0, i)))),
                owners_ok(T, r))
        c = Contract(
            key=f"{CT}:{fn}", params={}, frame=[O + f for f in (REC, HIST, glue.WAITED, glue.EDGES, glue.PURGE)] + ["broker.queue"],
            requires=[("owners-ok-bag-nonneg", lambda c: z3.And(owners_ok(T, c.f(O + "rec")), bag_nonneg(c.f("broker.queue"))))],
            loops={0: LoopSpec(inv=[("taken-so-far-are-in-the-recovery-status-others-untouched", loop_inv)])},
            cases=[Case("recovered", ensures=[
                ("every-stale-invocation-ends-REROUTED-unowned-and-queued-(or-untouched-when-its-race-was-lost)-every-other-one-is-untouched", post),
                ("nothing-the-run-took-is-left-in-the-recovery-status", nothing_left_in_recovery)])],
            properties=[PID, "C03"])
        c.root_shape = "App"
        c.annotations = {"set[InvocationId]": SID}
        c.call_overrides = {"set_invocation_status": "Orchestrator.set_invocation_status(racy)"}
        reg.add(c)
        out.append(c)
    return out


# --------------------------------------------------------------------------- bounded: both real backends, controlled clock
def recovery_boundaries(ctx: RunCtx) -> BoundedResult:
    import time as _time
    from datetime import UTC, datetime
    from pynenc.invocation.status import InvocationStatus as S
    from .realapp import force_status, new_invocation, real_app, runner_ctx
    res = BoundedResult("recovery_boundaries", "both real backends: PENDING ages {limit-1s, limit+1s} and RUNNING owners with heartbeat ages "
                        "{timeout-2s, timeout+2s, never} x child-reported heartbeats, scans compared with the spec; then the real recovery task functions")
    n = 0
    for backend in ("mem", "sqlite"):
        with real_app(backend, max_pending_seconds=100.0, runner_considered_dead_after_minutes=1.0) as app:
            orch = app.orchestrator
            now = _time.time()
            cases = []
            for age, stale in ((99.0, False), (101.0, True)):
                inv = new_invocation(app)
                force_status(app, inv.invocation_id, S.PENDING, "r-pend", ts=datetime.fromtimestamp(now - age, UTC))
                cases.append((inv.invocation_id, "pending", stale))
            orch.register_runner_heartbeats(["r-fresh", "r-old"])
            # age the heartbeat of r-old beyond the 60 s timeout, keep r-fresh inside it
            if backend == "mem":
                orch.runner_last_heartbeat["r-old"] = now - 62.0
                orch.runner_last_heartbeat["r-fresh"] = now - 58.0
            else:
                from pynenc.util.sqlite_utils import create_sqlite_connection as sc
                with sc(orch.sqlite_db_path) as conn:
                    conn.execute(f"UPDATE {orch.tables.RUNNER_HEARTBEATS} SET last_heartbeat = ? WHERE runner_id = ?", (now - 62.0, "r-old"))
                    conn.execute(f"UPDATE {orch.tables.RUNNER_HEARTBEATS} SET last_heartbeat = ? WHERE runner_id = ?", (now - 58.0, "r-fresh"))
                    conn.commit()
            for owner, dead in (("r-fresh", False), ("r-old", True), ("r-never", True)):
                inv = new_invocation(app)
                force_status(app, inv.invocation_id, S.RUNNING, owner)
                cases.append((inv.invocation_id, "running", dead))
            got_p = set(orch.get_pending_invocations_for_recovery())
            got_r = set(orch.get_running_invocations_for_recovery())
            for iid, kind, expect in cases:
                n += 1
                got = iid in (got_p if kind == "pending" else got_r)
                if got != expect:
                    res.failures.append({"what": f"{backend}: {kind} scan {'selects' if got else 'misses'} an invocation that is {'stuck' if expect else 'live'}",
                                         "finding_key": f"{backend}:{kind}-scan"})
        # (a) a runner that was silent past the timeout and then heartbeats again is alive again: its new RUNNING work is not taken
        # (b) a stuck set larger than any page: ONE recovery pass over it (consuming the scan while re-queueing, as the core task does) takes all of it
        import pynenc.orchestrator.mem_orchestrator as mo
        import pynenc.orchestrator.sqlite_orchestrator as so
        import pynenc.orchestrator.base_orchestrator as bo
        clock = [1_800_000_000.0]
        saved = [(m, m.time) for m in (mo, so, bo) if hasattr(m, "time")]
        for m, _f in saved:
            m.time = lambda: clock[0]
        try:
            with real_app(backend, max_pending_seconds=100.0, runner_considered_dead_after_minutes=1.0) as app:
                orch = app.orchestrator
                ctx_rec = runner_ctx("recovery-runner")
                orch.register_runner_heartbeats(["r-revived"])
                a = new_invocation(app)
                force_status(app, a.invocation_id, S.RUNNING, "r-revived")
                clock[0] += 120.0
                first = set(orch.get_running_invocations_for_recovery())
                orch.register_runner_heartbeats(["r-revived"])               # the runner is back (its own or a parent-reported heartbeat)
                b = new_invocation(app)
                force_status(app, b.invocation_id, S.RUNNING, "r-revived")
                clock[0] += 5.0
                second = set(orch.get_running_invocations_for_recovery())
                n += 1
                if a.invocation_id not in first or b.invocation_id in second or a.invocation_id in second:
                    res.failures.append({"what": f"{backend}: runner silent for 120 s then alive again: first scan {'takes' if a.invocation_id in first else 'misses'} its old work, "
                                                 f"scan after the new heartbeat {'takes' if (b.invocation_id in second or a.invocation_id in second) else 'leaves'} work of the live runner",
                                         "finding_key": f"{backend}:revived-runner"})
            with real_app(backend, max_pending_seconds=100.0, runner_considered_dead_after_minutes=1.0) as app:
                orch = app.orchestrator
                ctx_rec = runner_ctx("recovery-runner")
                big = 130
                stuck_p = [new_invocation(app) for _ in range(big)]
                stuck_r = [new_invocation(app) for _ in range(big)]
                for inv in stuck_p:
                    force_status(app, inv.invocation_id, S.PENDING, "r-gone", ts=datetime.fromtimestamp(clock[0] - 500.0, UTC))
                for inv in stuck_r:
                    force_status(app, inv.invocation_id, S.RUNNING, "r-gone")
                for scan, target in ((orch.get_pending_invocations_for_recovery, S.PENDING_RECOVERY), (orch.get_running_invocations_for_recovery, S.RUNNING_RECOVERY)):
                    for iid in scan():                                        # consume lazily while moving each id on, like the core tasks
                        orch.set_invocation_status(iid, target, ctx_rec)
                n += 1
                left_p = sum(1 for inv in stuck_p if orch.get_invocation_status(inv.invocation_id) == S.PENDING)
                left_r = sum(1 for inv in stuck_r if orch.get_invocation_status(inv.invocation_id) == S.RUNNING)
                if left_p or left_r:
                    res.failures.append({"what": f"{backend}: one recovery pass over {big} stuck PENDING and {big} stuck RUNNING invocations leaves {left_p} PENDING and {left_r} RUNNING "
                                                 f"under the dead runner", "finding_key": f"{backend}:large-stuck-set"})
        finally:
            for m, f in saved:
                m.time = f
    res.cases = n
    res.distinct = n
    res.samples = [{"pending_age_s": 101.0, "limit_s": 100.0, "expected": "recovered"}]
    return res


def build(ctx: RunCtx) -> Prop:
    T, reg, G = setup(ctx)
    verify = mem_scan_contracts(T, reg, ctx)
    verify += recovery_task_contracts(T, reg, G)
    verify += [G["reroute_invocations"]]
    return Prop(
        pid=PID, title="Mem scans yield exactly the stale sets (real arithmetic); heartbeats recorded for exactly the reported ids; the recovery tasks re-queue "
                       "every stale invocation and touch nothing else, also when some transitions are refused (lost races)",
        level="proof", technique="contract-based deductive verification of the real scan / heartbeat / recovery-task functions (AST->z3 VCs) + bounded boundary cases on both backends",
        registry=reg, verify=verify, bounded=[recovery_boundaries],
        assumptions=GLUE_ASSUMPTIONS + ["time() is read as a real number; float rounding of timestamps is ignored",
                                        "a lost race is modelled as a scan result that contains ids whose status has changed since the scan"],
        trusted_base=GLUE_TRUSTED + ["sqlite3 (scan statements: bounded stand-in only)"],
        not_decided="an owner's heartbeat turning fresh between the scan and the recovery transition (no interleaving is explored).",
        min_obligations=30,
    )
