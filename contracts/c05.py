"""C05 — a final status always comes with the matching result or exception."""
from __future__ import annotations

from pyvc.prop import Prop, RunCtx

from . import c01, glue
from .common import Types, base_registry

PID = "C05"


def build(ctx: RunCtx) -> Prop:
    T = Types(ctx.src)
    reg = base_registry(ctx.src, T)
    reg.T = T
    for c in c01.status_contracts(T, reg, ctx.repo, pid="C01"):
        reg.add(c)
    G = glue.glue_contracts(T, reg)
    verify = [G["set_invocation_status"], G["set_invocation_result"], G["set_invocation_exception"]]
    from . import c05_reader
    verify += c05_reader.contracts(T, reg, ctx)
    return Prop(
        pid=PID, title="SUCCESS => result stored and FAILED => exception stored at every program point of set_invocation_result / "
                       "set_invocation_exception (step invariant) and at their exits; get_final_result refuses non-final, raises the stored exception on FAILED",
        level="proof", technique="contract-based deductive verification: step invariant between every two effects of the real glue functions over abstract component contracts",
        registry=reg, verify=verify, lemmas=c05_reader.lemmas(T, reg, ctx), bounded=c05_reader.bounded(),
        assumptions=["component contracts of world.py (orchestrator storage, state backend, trigger reports) are assumed at glue level; "
                     "the Mem implementations are proved against them in C01/C08/C09, SQLite is bounded",
                     "a concurrent reader observes exactly the states between two backend effects (sequential consistency of the backend)",
                     "trigger.report_* only writes the trigger store"],
        trusted_base=["pyvc VC generator", "z3 5.1", "cvc5 1.0.3"],
        not_decided="real reader/worker interleavings are not explored (the reader contract is sequential; the step invariant J5 covers what a concurrent reader can see "
                    "between two effects of the writer); the value round trip through serializers is decided in C15 (bounded there for third-party serializers).",
        min_obligations=20,
        # "the matching result": what is read back is what was stored - results/exceptions go through the client data store, whose reference key
        # must address the whole content (verified in the C15 module's registry)
        parts=[("contracts.c15", ["pynenc.client_data_store.base_client_data_store:_generate_key",
                                  "pynenc.client_data_store.base_client_data_store:BaseClientDataStore._maybe_store",
                                  "pynenc.client_data_store.base_client_data_store:BaseClientDataStore.resolve",
                                  "pynenc.client_data_store.mem_client_data_store:MemClientDataStore._store",
                                  "pynenc.client_data_store.sqlite_client_data_store:SQLiteClientDataStore._store"])],
    )
