"""C05, storage and reader side.

* leaf contracts of the outcome stores: MemStateBackend._set_result / _set_exception / _get_result / _get_exception are verified (each touches
  only its own table: storing an exception never removes a result and vice versa); the SQLite ones at glue level (one INSERT OR REPLACE into
  the own table bound to (id, value), committed, nothing else written);
* DistributedInvocation.get_final_result: the status it acts on is the cached final one, a fresh cached non-final one, or the orchestrator's; a
  non-final observed status never yields a value (InvocationError), SUCCESS yields the stored result of this invocation, FAILED raises the
  stored exception of this invocation - and under the C05 invariant (J5) neither read can miss."""
from __future__ import annotations

import z3

from pyvc import sqlmodel
from pyvc.contract import Case, Contract, Registry, Shape
from pyvc.sqlmodel import all_events, sql_events
from pyvc.types import BOOL, INT, REAL, STR, Atom, MapT, ObjT, Opt
from pyvc.values import NONE, OK, RAISE, ExcVal, Val, fresh_name, mk_fresh

from . import glue, world
from .common import ID, SPEC, Types
from .glue import EXC, REC, RES, known, status_of

PID = "C05"
MS = "pynenc.state_backend.mem_state_backend"
SS = "pynenc.state_backend.sqlite_state_backend"
DI = "pynenc.invocation.dist_invocation"
PAYLOAD = glue.PAYLOAD


def T_(b):
    return z3.BoolVal(bool(b))


def contracts(T: Types, reg: Registry, ctx):
    out = []
    # ---- in-memory outcome tables
    TAB = MapT(ID, STR)
    reg.add_shape(Shape("MemOutcomes", fields={"_results": TAB, "_exceptions": TAB}, cls=(MS, "MemStateBackend")))
    same = lambda f: (f"{f}-untouched", lambda c: c.f(f) == c.old(f))
    for meth, mine, other in (("_set_result", "_results", "_exceptions"), ("_set_exception", "_exceptions", "_results")):
        vname = "serialized_result" if meth == "_set_result" else "serialized_exception"
        out.append(Contract(
            key=f"{MS}:MemStateBackend.{meth}", shape="MemOutcomes", params={"invocation_id": ID, vname: STR}, frame=[mine],
            cases=[Case("stored", ensures=[
                ("exactly-this-entry-written", (lambda mine, vname: lambda c: c.f(mine) == z3.Store(c.old(mine), c.arg("invocation_id"), TAB.opt.some(c.arg(vname))))(mine, vname)),
                ("C05:the-other-kind-of-outcome-is-not-touched", (lambda other: lambda c: c.f(other) == c.old(other))(other))])],
            properties=[PID]))
    for meth, mine in (("_get_result", "_results"), ("_get_exception", "_exceptions")):
        cell = (lambda mine: lambda c: z3.Select(c.old(mine), c.arg("invocation_id")))(mine)
        out.append(Contract(
            key=f"{MS}:MemStateBackend.{meth}", shape="MemOutcomes", params={"invocation_id": ID}, result=STR, frame=[],
            cases=[Case("missing", when=(lambda cell: lambda c: TAB.opt.is_none(cell(c)))(cell), raises="KeyError", exact=True),
                   Case("stored", when=(lambda cell: lambda c: TAB.opt.is_some(cell(c)))(cell),
                        ensures=[("what-was-stored-for-this-id", (lambda cell: lambda c: c.result == TAB.opt.val(cell(c)))(cell))])],
            properties=[PID]))
    # ---- SQLite outcome tables (glue)
    sqlmodel.install(reg, {"invocation_id": (ID, None), "result_data": (STR, None), "exception_data": (STR, None)})
    if "Tables" not in reg.shapes:
        reg.add_shape(Shape("Tables", fields={}))
    reg.add_shape(Shape("SQLiteOutcomes", fields={"sqlite_db_path": STR, "tables": ObjT("Tables")}, cls=(SS, "SQLiteStateBackend")))
    for meth, table, col in (("_set_result", "{self.tables.RESULTS}", "result_data"), ("_set_exception", "{self.tables.EXCEPTIONS}", "exception_data")):
        vname = "serialized_result" if meth == "_set_result" else "serialized_exception"

        def one_write(c, table=table, col=col, vname=vname):
            ws = [e for e in sql_events(c.st) if e["kind"] in ("INSERT", "UPDATE", "DELETE")]
            if len(ws) != 1 or ws[0]["kind"] != "INSERT" or ws[0]["table"] != table or len(ws[0]["params"]) != 2:
                return T_(False)
            text = " ".join(ws[0]["info"]["text"].upper().split())
            evs = all_events(c.st)
            iw = max(i for i, e in enumerate(evs) if e.get("ev") == "sql" and e["kind"] == "INSERT")
            committed = any(e.get("ev") == "commit" for e in evs[iw:])
            return z3.And(T_((" OR REPLACE " in " " + text + " " or "DO UPDATE" in text) and committed and ws[0]["info"]["columns"][:2] == ["invocation_id", col]),
                          ws[0]["params"][0].term == c.arg("invocation_id"), ws[0]["params"][1].term == c.arg(vname))
        out.append(Contract(
            key=f"{SS}:SQLiteStateBackend.{meth}", shape="SQLiteOutcomes", params={"invocation_id": ID, vname: STR}, frame=[],
            cases=[Case("stored", ensures=[("C05:one-upsert-of-(id,value)-into-the-own-table-committed-and-nothing-else-written", one_write)]),
                   Case("commit-fault", raises="OperationalError")], properties=[PID]))
    reg.sql_commit_faults = True

    # ---- the reader
    OST = Opt(T.Status)
    result_of = z3.Function("stored_result_of", ID.sort(), PAYLOAD.sort())
    sb = reg.shapes["StateBackend"]
    sb.abstract_methods = dict(sb.abstract_methods, get_result="StateBackend.get_result", get_exception="StateBackend.get_exception")
    reg.add(Contract(key="StateBackend.get_result", shape="StateBackend", params={"invocation_id": ID}, result=PAYLOAD, frame=[], assumed=True,
                     check_invariants=False, effect_events=False, cases=[
                         Case("missing", when=lambda c: z3.Not(z3.Select(c.old("res"), c.arg("invocation_id"))), raises="KeyError", exact=True),
                         Case("stored", when=lambda c: z3.Select(c.old("res"), c.arg("invocation_id")),
                              ensures=[("the-stored-result-of-this-invocation", lambda c: c.result == result_of(c.arg("invocation_id")))])],
                     note="resolve(deserialize(stored string)): the value round trip is C15"))

    def h_get_exception(eng, st, recv, args, kwargs):
        i = args[0] if args else kwargs["invocation_id"]
        exc = eng.heap_read(st, recv, "exc")
        have, miss = st.fork(), st.fork()
        have.assume(z3.Select(exc.term, i.term))
        miss.assume(z3.Not(z3.Select(exc.term, i.term)))
        out_ = []
        from pyvc.solve import quick_sat
        if quick_sat(have.pc):
            out_.append((OK, have, ExcVal("StoredTaskException", exact=True, fields={"of": i})))
        if quick_sat(miss.pc):
            out_.append((RAISE, miss, ExcVal("KeyError", exact=True)))
        return out_
    reg.add(Contract(key="StateBackend.get_exception", handler=h_get_exception, assumed=True, note="returns the stored exception object of this invocation (KeyError if none)"))
    reg.exceptions["StoredTaskException"] = ["Exception"]
    reg.shapes["AppConf"].fields["cached_status_time"] = REAL
    reg.add_shape(Shape("ReaderInvocation", fields={"app": ObjT("App"), "invocation_id": ID, "_cached_status": OST, "_cached_status_time": REAL},
                        cls=(DI, "DistributedInvocation")))
    reg.shapes["ReaderInvocation"].properties = ("status",)
    reg.shapes["ReaderInvocation"].backrefs = [("app.orchestrator", "app", "app"), ("app.state_backend", "app", "app")]
    O, S_ = "app.orchestrator.", "app.state_backend."
    me = lambda c: c.f("invocation_id")
    cur = lambda c: status_of(T, c.f(O + REC), me(c))
    final = lambda s: T.status_in(s, SPEC["final"])
    cached0 = lambda c: c.old("_cached_status")
    now = lambda c: c.st.ghost["$clock0"].term if "$clock0" in c.st.ghost else z3.Real(fresh_name("no_clock_read"))
    fresh_nonfinal = lambda c: z3.And(OST.is_some(cached0(c)), z3.Not(final(OST.val(cached0(c)))),
                                      now(c) - c.old("_cached_status_time") < c.f("app.conf.cached_status_time"))
    observed = lambda c: z3.If(z3.And(OST.is_some(cached0(c)), final(OST.val(cached0(c)))), OST.val(cached0(c)),
                               z3.If(fresh_nonfinal(c), OST.val(cached0(c)), cur(c)))
    reader = Contract(
        key=f"{DI}:DistributedInvocation.get_final_result", shape="ReaderInvocation", params={}, result=PAYLOAD,
        frame=["_cached_status", "_cached_status_time"],
        requires=[("registered", lambda c: known(T, c.f(O + REC), me(c))),
                  ("C05-invariant:SUCCESS=>result-stored,FAILED=>exception-stored", lambda c: glue.J5(T, c.f(O + REC), c.f(S_ + "res"), c.f(S_ + "exc"))),
                  ("a-cached-final-status-is-the-current-one(final statuses are absorbing: C01)", lambda c: z3.Implies(
                      z3.And(OST.is_some(c.f("_cached_status")), final(OST.val(c.f("_cached_status")))), cur(c) == OST.val(c.f("_cached_status"))))],
        cases=[
            Case("not-final", when=lambda c: z3.Not(final(observed(c))), raises="InvocationError", exact=True,
                 ensures=[("C05:a-non-final-invocation-never-yields-a-value", lambda c: z3.BoolVal(True))]),
            Case("failed", when=lambda c: observed(c) == T.S("FAILED"), raises="StoredTaskException", exact=True,
                 ensures=[("C05:raises-the-stored-exception-of-THIS-invocation", lambda c: T_(c.exc is None) if c.exc is None else
                           (c.exc.fields["of"].term == me(c) if "of" in c.exc.fields else T_(False)))]),
            Case("success", when=lambda c: observed(c) == T.S("SUCCESS"),
                 ensures=[("C05:returns-the-stored-result-of-THIS-invocation", lambda c: c.result == result_of(me(c)))]),
            Case("final-without-outcome", when=lambda c: observed(c) == T.S("CONCURRENCY_CONTROLLED_FINAL"), raises="KeyError",
                 ensures=[("outside-the-property(an invocation that was never run has no outcome)", lambda c: z3.BoolVal(True))]),
            Case("final-without-outcome(stored anyway)", when=lambda c: observed(c) == T.S("CONCURRENCY_CONTROLLED_FINAL"),
                 ensures=[("outside-the-property", lambda c: z3.BoolVal(True))]),
        ], properties=[PID],
        note="sequential reader; a concurrent worker only adds outcomes and moves statuses forward (J5 is kept at every step: set_invocation_result/exception)")
    out.append(reader)
    for c in out:
        reg.add(c)
    return out


def lemmas(T, reg, ctx):
    return [reader_entry_points, exception_codec_stateless]


def exception_codec_stateless(ctx):
    """Purity obligation over the real AST: rebuilding the exception of a FAILED invocation (BaseStateBackend.deserialize_exception ->
    PynencError.from_json -> _from_json_dict) is a function of the stored string and of the exception classes that exist now; it keeps
    no process-wide table that an earlier read could have frozen (no class-level or module-level container, no assignment to a class
    attribute or global on this path)."""
    import ast
    from pyvc.solve import Obligation
    EX, SB = "pynenc.exceptions", "pynenc.state_backend.base_state_backend"
    bad = []
    mod = ctx.src.module(EX)
    CONTAINER_CTORS = {"dict", "list", "set", "defaultdict", "OrderedDict", "WeakValueDictionary", "WeakKeyDictionary", "deque", "Counter", "ChainMap"}

    def is_container(v):
        if isinstance(v, (ast.Dict, ast.List, ast.Set, ast.DictComp, ast.ListComp, ast.SetComp)):
            return True
        if isinstance(v, ast.Call):
            fname = v.func.id if isinstance(v.func, ast.Name) else v.func.attr if isinstance(v.func, ast.Attribute) else ""
            return fname in CONTAINER_CTORS
        return False
    for node in mod.tree.body:                                   # module-level containers in exceptions.py
        if isinstance(node, (ast.Assign, ast.AnnAssign)) and is_container(getattr(node, "value", None)):
            tg = node.targets[0] if isinstance(node, ast.Assign) else node.target
            if isinstance(tg, ast.Name) and tg.id != "__all__":
                bad.append(f"exceptions.py line {node.lineno}: module-level container {tg.id}")
    classes = [n for n in mod.tree.body if isinstance(n, ast.ClassDef)]
    for cls in classes:
        for node in cls.body:                                    # class-level containers of the exception classes
            if isinstance(node, (ast.Assign, ast.AnnAssign)) and is_container(getattr(node, "value", None)):
                tg = node.targets[0] if isinstance(node, ast.Assign) else node.target
                bad.append(f"{cls.name} line {node.lineno}: class-level container {getattr(tg, 'id', '?')} shared by the whole process")
        for fn in [n for n in cls.body if isinstance(n, (ast.FunctionDef, ast.AsyncFunctionDef))]:
            if fn.name not in ("from_json", "_from_json_dict", "to_json", "_to_json_dict") and not fn.name.startswith("_get"):
                continue
            for d in fn.decorator_list:
                dn = d.func if isinstance(d, ast.Call) else d
                if (isinstance(dn, ast.Name) and dn.id in ("cache", "lru_cache")) or (isinstance(dn, ast.Attribute) and dn.attr in ("cache", "lru_cache")):
                    bad.append(f"{cls.name}.{fn.name}: memoised (process-wide cache of results)")
            for node in ast.walk(fn):
                if isinstance(node, (ast.Assign, ast.AugAssign, ast.AnnAssign)):
                    for t in (node.targets if isinstance(node, ast.Assign) else [node.target]):
                        root = t
                        while isinstance(root, (ast.Attribute, ast.Subscript)):
                            root = root.value
                        if isinstance(t, (ast.Attribute, ast.Subscript)) and isinstance(root, ast.Name) and (root.id == "cls" or root.id[:1].isupper()):
                            bad.append(f"{cls.name}.{fn.name} line {node.lineno}: assigns a class attribute ({ast.unparse(t)[:40]})")
                if isinstance(node, ast.Global):
                    bad.append(f"{cls.name}.{fn.name} line {node.lineno}: global statement")
    try:
        sbc = ctx.src.klass(SB, "BaseStateBackend")
        for fn in [n for n in sbc.body if isinstance(n, ast.FunctionDef) and n.name in ("serialize_exception", "deserialize_exception")]:
            for node in ast.walk(fn):
                for t in ((node.targets if isinstance(node, ast.Assign) else [node.target]) if isinstance(node, (ast.Assign, ast.AugAssign)) else []):
                    root = t
                    while isinstance(root, (ast.Attribute, ast.Subscript)):
                        root = root.value
                    if isinstance(t, (ast.Attribute, ast.Subscript)) and isinstance(root, ast.Name) and (root.id in ("self", "cls") or root.id[:1].isupper()):
                        bad.append(f"BaseStateBackend.{fn.name} line {node.lineno}: writes object state ({ast.unparse(t)[:40]})")
    except Exception as e:      # noqa: BLE001
        bad.append(f"BaseStateBackend not found: {e}")
    pe = [c for c in classes if c.name == "PynencError"]
    if not pe or "from_json" not in [n.name for n in pe[0].body if isinstance(n, ast.FunctionDef)]:
        bad.append("PynencError.from_json not found")
    ok = not bad
    o = Obligation(name=f"{PID}/purity/exception-codec/rebuilding-a-stored-exception-keeps-no-process-wide-state", kind="lemma", pc=[], goal=z3.BoolVal(ok),
                   function=f"{EX}:PynencError.from_json")
    o.status, o.backend, o.detail = ("discharged" if ok else "failed"), "ast-scan", " | ".join(bad)[:500]
    return [o]


def exception_class_histories(ctx):
    """Bounded: exception classes come into existence while the process runs.  A task fails with an exception class, a reader asks for the
    result; then a new class (a PynencError subclass, a plain Exception subclass) is defined in a module imported later, a task fails with it,
    the reader asks again: same type, same arguments, every time, on both backends."""
    import sys
    import types
    from pyvc.prop import BoundedResult
    from pynenc import exceptions as ex
    from pynenc.invocation.status import InvocationStatus as S
    from . import verif_tasks as vt
    from .realapp import new_invocation, real_app, runner_ctx
    res = BoundedResult("exception_class_histories", "FAILED invocations read back on both backends: an existing PynencError subclass, a plain exception, then classes "
                        "defined after the first reads (PynencError subclass, subclass of a subclass, plain Exception subclass) in a module imported later")
    n = 0
    for backend in ("mem", "sqlite"):
        with real_app(backend) as app:
            B = runner_ctx("runner-B")
            late = types.ModuleType(f"verif_late_errors_{backend}_{id(app) % 10000}")
            sys.modules[late.__name__] = late

            def fail_and_read(exc):
                inv = new_invocation(app, vt.add, x=1, y=2)
                list(app.orchestrator.get_invocations_to_run(1, B))
                app.orchestrator.set_invocation_status(inv.invocation_id, S.RUNNING, B)
                app.orchestrator.set_invocation_exception(inv, exc, B)
                reader = app.state_backend.get_invocation(inv.invocation_id)
                try:
                    return ("value", reader.result)
                except Exception as e:      # noqa: BLE001
                    return ("raised", type(e).__name__, type(e).__module__, getattr(e, "args", None), getattr(e, "__dict__", {}))
            steps = [("existing PynencError subclass", lambda: ex.RetryError("again")),
                     ("plain exception", lambda: vt.Other("boom", 1))]

            def define(name, base, mod=late):
                cls = type(name, (base,), {"__module__": mod.__name__})
                setattr(mod, name, cls)
                return cls
            steps += [("PynencError subclass defined after the first reads", lambda: define("LateError", ex.PynencError)("late", 2)),
                      ("subclass of a subclass defined later", lambda: define("LaterRetry", ex.RetryError)("later")),
                      ("plain Exception subclass defined later", lambda: define("LatePlain", Exception)("plain", 3))]
            for label, make in steps:
                n += 1
                try:
                    exc = make()
                    got = fail_and_read(exc)
                except Exception as e:      # noqa: BLE001
                    got = ("harness-error", type(e).__name__, str(e)[:100])
                    exc = None
                ok = exc is not None and got[0] == "raised" and got[1] == type(exc).__name__ and tuple(got[3] or ()) == tuple(exc.args)
                if not ok and len(res.failures) < 8:
                    res.failures.append({"what": f"{backend}: {label}: the body raised {type(exc).__name__}{getattr(exc, 'args', None)}, the reader got {str(got)[:200]}",
                                         "input": {"backend": backend, "step": label}, "finding_key": f"{backend}:exception-class"})
            sys.modules.pop(late.__name__, None)
    res.cases = n
    res.distinct = n
    res.samples = [{"step": "PynencError subclass defined after the first reads"}]
    return res


def reader_entry_points(ctx):
    """Structural obligation over the real AST: every way a caller obtains an outcome from a DistributedInvocation goes through
    get_final_result (the contracted reader, which checks the status first).  `result` / `async_result` return nothing but
    `self.get_final_result()`, and no other method of the invocation classes reads results or exceptions from the state backend."""
    import ast
    from pyvc.solve import Obligation
    bad, checked = [], []
    for clsname in ("DistributedInvocation", "DistributedInvocationGroup"):
        try:
            cls = ctx.src.klass(DI, clsname)
        except Exception:      # noqa: BLE001
            bad.append(f"class {clsname} not found")
            continue
        for fn in [n for n in cls.body if isinstance(n, (ast.FunctionDef, ast.AsyncFunctionDef))]:
            checked.append(f"{clsname}.{fn.name}")
            for node in ast.walk(fn):
                if isinstance(node, ast.Attribute) and node.attr in ("get_result", "get_exception", "_get_result", "_get_exception") and fn.name != "get_final_result":
                    bad.append(f"{clsname}.{fn.name} line {node.lineno}: reads .{node.attr} outside get_final_result (no status check in front of it)")
            if clsname == "DistributedInvocation" and fn.name in ("result", "async_result"):
                rets = [n for n in ast.walk(fn) if isinstance(n, ast.Return)]
                for r in rets:
                    v = r.value
                    ok = isinstance(v, ast.Call) and isinstance(v.func, ast.Attribute) and v.func.attr == "get_final_result" and \
                        isinstance(v.func.value, ast.Name) and v.func.value.id == "self" and not v.args and not v.keywords
                    if not ok:
                        bad.append(f"DistributedInvocation.{fn.name} line {r.lineno}: returns something else than self.get_final_result()")
                if not rets:
                    bad.append(f"DistributedInvocation.{fn.name}: no return")
    need = {"DistributedInvocation.result", "DistributedInvocation.async_result", "DistributedInvocation.get_final_result"}
    missing = sorted(need - set(checked))
    ok = not bad and not missing
    o = Obligation(name=f"{PID}/structure/DistributedInvocation/every-outcome-is-read-through-get_final_result", kind="lemma", pc=[], goal=z3.BoolVal(ok),
                   function=f"{DI}:DistributedInvocation.result")
    o.status, o.backend, o.detail = ("discharged" if ok else "failed"), "ast-scan", " | ".join(bad + [f"missing {m}" for m in missing])[:500]
    o.extra = {"methods_scanned": len(checked)}
    return [o]


def reader_between_effects(ctx):
    """Bounded stand-in for the concurrent reader: the real finishing operations run on the real backends; a reader looks (status, then result)
    right before every backend effect of the writer and after it, and, in separate runs, every single backend effect of the writer fails once.
    What the reader may see: SUCCESS with exactly the returned value, FAILED with an exception of the same type and arguments, or not final
    and then no value."""
    from pyvc.prop import BoundedResult
    from pynenc.invocation.status import InvocationStatus as S
    from . import verif_tasks as vt
    from .c03_more import Cut
    from .realapp import new_invocation, real_app, runner_ctx
    thorough = ctx.tier == "thorough"
    res = BoundedResult("reader_between_effects", "real set_invocation_result / set_invocation_exception "
                        "x values {small, large enough to be externalised, nested} / exceptions {with args, large args} x a reader polling right before backend effect k (every k) "
                        "and after the operation, and x backend effect k failing once (every k); in-memory" + (" and SQLite" if thorough else "") +
                        "; the reader's view is compared with the value / exception handed to the writer")
    effects = [("state_backend", "_set_result"), ("state_backend", "_set_exception"), ("client_data_store", "_store"),
               ("orchestrator", "_atomic_status_transition"), ("state_backend", "_add_histories")]
    values = [("small", 42), ("large", "x" * 5000), ("nested", {"a": [1, 2, {"b": "y" * 3000}], "c": None})]
    excs = [("args", vt.Other("boom", 7)), ("large-args", vt.Other("z" * 4000, 1))]

    class Fault(Exception):
        pass
    n = 0
    import threading
    threading.excepthook = lambda args: None      # a fault injected into the history writer thread ends that thread: expected, keep stderr readable

    import threading as _th
    stop_waiting = _th.Event()

    def view(app, inv):
        """what a reader sees now: ('value', v) | ('raised', type, args) | ('not-final',)"""
        from pynenc import exceptions as ex
        try:
            reader = app.state_backend.get_invocation(inv.invocation_id)      # a reader has its own invocation object (no status cached by the writer)
            st = app.orchestrator.get_invocation_status(inv.invocation_id)
            if not st.is_final():
                # the blocking entry point: asked while the invocation is not final it must not come back with a value
                import threading
                box = {}
                waiter = app.state_backend.get_invocation(inv.invocation_id)

                def ask():
                    try:
                        box["v"] = ("value", waiter.result)
                    except Exception as e:      # noqa: BLE001
                        box["v"] = ("raised", type(e).__name__)
                stop_waiting.clear()
                t = threading.Thread(target=ask, daemon=True)
                t.start()
                t.join(0.15)
                stop_waiting.set()
                if box.get("v", ("",))[0] == "value":
                    return ("value-while-" + st.name, box["v"][1], st.name)
            v = reader.get_final_result()
            return ("value", v, st.name)
        except ex.InvocationError:
            return ("not-final", None, None)
        except Exception as e:      # noqa: BLE001
            return ("raised", type(e).__name__, getattr(e, "args", None))

    def acceptable(seen, kind, payload):
        if seen[0] == "not-final":
            return True
        if kind == "result":
            return seen[0] == "value" and seen[1] == payload
        return seen[0] == "raised" and seen[1] == type(payload).__name__ and tuple(seen[2]) == tuple(payload.args)
    for backend in (("mem", "sqlite") if thorough else ("mem",)):
        for kind, (label, payload) in [("result", v) for v in values] + [("exception", e) for e in excs]:
            for mode in ("reader", "fault"):
                k = 0
                while True:
                    k += 1
                    n += 1
                    with real_app(backend) as app:
                        for comp, meth in effects:
                            getattr(app, comp)                      # instantiate
                        B = runner_ctx("runner-B")
                        inv = new_invocation(app, vt.add, x=1, y=2)
                        list(app.orchestrator.get_invocations_to_run(1, B))
                        app.orchestrator.set_invocation_status(inv.invocation_id, S.RUNNING, B)
                        seen = []

                        def action():
                            if mode == "reader":
                                seen.append(view(app, inv))
                            else:
                                raise Fault("storage fault injected")
                        cut = Cut(app, k, action)
                        cut_effects = effects
                        import contracts.c03_more as _cm
                        saved = _cm.EFFECTS
                        _cm.EFFECTS = cut_effects
                        try:
                            with cut:
                                try:
                                    if kind == "result":
                                        app.orchestrator.set_invocation_result(inv, payload, B)
                                    else:
                                        app.orchestrator.set_invocation_exception(inv, payload, B)
                                except Fault:
                                    pass
                                except Exception as e:      # noqa: BLE001
                                    seen.append(("writer-error", type(e).__name__, str(e)[:80]))
                            total = cut.n
                        finally:
                            _cm.EFFECTS = saved
                        app.state_backend.wait_for_all_async_operations()
                        seen.append(view(app, inv))
                        bad = [sv for sv in seen if sv[0] != "writer-error" and not acceptable(sv, kind, payload)]
                        if bad and len(res.failures) < 8:
                            res.failures.append({"what": f"{backend}: set_invocation_{kind}({label}) with " + (f"a reader right before backend effect #{k}" if mode == "reader" else
                                                         f"backend effect #{k} failing") + f": the reader saw {str(bad[0])[:160]} (expected the handed-in {kind} or 'not final')",
                                                 "input": {"backend": backend, "kind": kind, "payload": label, "mode": mode, "k": k}, "finding_key": f"{backend}:{kind}:{mode}"})
                    if k > total:
                        break
    res.cases = n
    res.distinct = n
    res.samples = [{"kind": "result", "payload": "large", "mode": "reader", "k": 2}]
    return res


def bounded():
    return [reader_between_effects, exception_class_histories]
