def contracts(T, reg, ctx):
    return []
def lemmas(T, reg, ctx):
    return []
def bounded():
    return []
