"""C05, storage and reader side.

* leaf contracts of the outcome stores: MemStateBackend._set_result / _set_exception / _get_result / _get_exception are verified (each touches
  only its own table: storing an exception never removes a result and vice versa); the SQLite ones at glue level (one INSERT OR REPLACE into
  the own table bound to (id, value), committed, nothing else written);
* DistributedInvocation.get_final_result: the status it acts on is the cached final one, a fresh cached non-final one, or the orchestrator's; a
  non-final observed status never yields a value (InvocationError), SUCCESS yields the stored result of this invocation, FAILED raises the
  stored exception of this invocation - and under the C05 invariant (J5) neither read can miss."""
from __future__ import annotations

import z3

from pyvc import sqlmodel
from pyvc.contract import Case, Contract, Registry, Shape
from pyvc.sqlmodel import all_events, sql_events
from pyvc.types import BOOL, INT, REAL, STR, Atom, MapT, ObjT, Opt
from pyvc.values import NONE, OK, RAISE, ExcVal, Val, fresh_name, mk_fresh

from . import glue, world
from .common import ID, SPEC, Types
from .glue import EXC, REC, RES, known, status_of

PID = "C05"
MS = "pynenc.state_backend.mem_state_backend"
SS = "pynenc.state_backend.sqlite_state_backend"
DI = "pynenc.invocation.dist_invocation"
PAYLOAD = glue.PAYLOAD


def T_(b):
    return z3.BoolVal(bool(b))


def contracts(T: Types, reg: Registry, ctx):
    out = []
    # ---- in-memory outcome tables
    TAB = MapT(ID, STR)
    reg.add_shape(Shape("MemOutcomes", fields={"_results": TAB, "_exceptions": TAB}, cls=(MS, "MemStateBackend")))
    same = lambda f: (f"{f}-untouched", lambda c: c.f(f) == c.old(f))
    for meth, mine, other in (("_set_result", "_results", "_exceptions"), ("_set_exception", "_exceptions", "_results")):
        vname = "serialized_result" if meth == "_set_result" else "serialized_exception"
        out.append(Contract(
            key=f"{MS}:MemStateBackend.{meth}", shape="MemOutcomes", params={"invocation_id": ID, vname: STR}, frame=[mine],
            cases=[Case("stored", ensures=[
                ("exactly-this-entry-written", (lambda mine, vname: lambda c: c.f(mine) == z3.Store(c.old(mine), c.arg("invocation_id"), TAB.opt.some(c.arg(vname))))(mine, vname)),
                ("C05:the-other-kind-of-outcome-is-not-touched", (lambda other: lambda c: c.f(other) == c.old(other))(other))])],
            properties=[PID]))
    for meth, mine in (("_get_result", "_results"), ("_get_exception", "_exceptions")):
        cell = (lambda mine: lambda c: z3.Select(c.old(mine), c.arg("invocation_id")))(mine)
        out.append(Contract(
            key=f"{MS}:MemStateBackend.{meth}", shape="MemOutcomes", params={"invocation_id": ID}, result=STR, frame=[],
            cases=[Case("missing", when=(lambda cell: lambda c: TAB.opt.is_none(cell(c)))(cell), raises="KeyError", exact=True),
                   Case("stored", when=(lambda cell: lambda c: TAB.opt.is_some(cell(c)))(cell),
                        ensures=[("what-was-stored-for-this-id", (lambda cell: lambda c: c.result == TAB.opt.val(cell(c)))(cell))])],
            properties=[PID]))
    # ---- SQLite outcome tables (glue)
    sqlmodel.install(reg, {"invocation_id": (ID, None), "result_data": (STR, None), "exception_data": (STR, None)})
    if "Tables" not in reg.shapes:
        reg.add_shape(Shape("Tables", fields={}))
    reg.add_shape(Shape("SQLiteOutcomes", fields={"sqlite_db_path": STR, "tables": ObjT("Tables")}, cls=(SS, "SQLiteStateBackend")))
    for meth, table, col in (("_set_result", "{self.tables.RESULTS}", "result_data"), ("_set_exception", "{self.tables.EXCEPTIONS}", "exception_data")):
        vname = "serialized_result" if meth == "_set_result" else "serialized_exception"

        def one_write(c, table=table, col=col, vname=vname):
            ws = [e for e in sql_events(c.st) if e["kind"] in ("INSERT", "UPDATE", "DELETE")]
            if len(ws) != 1 or ws[0]["kind"] != "INSERT" or ws[0]["table"] != table or len(ws[0]["params"]) != 2:
                return T_(False)
            text = " ".join(ws[0]["info"]["text"].upper().split())
            evs = all_events(c.st)
            iw = max(i for i, e in enumerate(evs) if e.get("ev") == "sql" and e["kind"] == "INSERT")
            committed = any(e.get("ev") == "commit" for e in evs[iw:])
            return z3.And(T_((" OR REPLACE " in " " + text + " " or "DO UPDATE" in text) and committed and ws[0]["info"]["columns"][:2] == ["invocation_id", col]),
                          ws[0]["params"][0].term == c.arg("invocation_id"), ws[0]["params"][1].term == c.arg(vname))
        out.append(Contract(
            key=f"{SS}:SQLiteStateBackend.{meth}", shape="SQLiteOutcomes", params={"invocation_id": ID, vname: STR}, frame=[],
            cases=[Case("stored", ensures=[("C05:one-upsert-of-(id,value)-into-the-own-table-committed-and-nothing-else-written", one_write)]),
                   Case("commit-fault", raises="OperationalError")], properties=[PID]))
    reg.sql_commit_faults = True

    # ---- the reader
    OST = Opt(T.Status)
    result_of = z3.Function("stored_result_of", ID.sort(), PAYLOAD.sort())
    sb = reg.shapes["StateBackend"]
    sb.abstract_methods = dict(sb.abstract_methods, get_result="StateBackend.get_result", get_exception="StateBackend.get_exception")
    reg.add(Contract(key="StateBackend.get_result", shape="StateBackend", params={"invocation_id": ID}, result=PAYLOAD, frame=[], assumed=True,
                     check_invariants=False, effect_events=False, cases=[
                         Case("missing", when=lambda c: z3.Not(z3.Select(c.old("res"), c.arg("invocation_id"))), raises="KeyError", exact=True),
                         Case("stored", when=lambda c: z3.Select(c.old("res"), c.arg("invocation_id")),
                              ensures=[("the-stored-result-of-this-invocation", lambda c: c.result == result_of(c.arg("invocation_id")))])],
                     note="resolve(deserialize(stored string)): the value round trip is C15"))

    def h_get_exception(eng, st, recv, args, kwargs):
        i = args[0] if args else kwargs["invocation_id"]
        exc = eng.heap_read(st, recv, "exc")
        have, miss = st.fork(), st.fork()
        have.assume(z3.Select(exc.term, i.term))
        miss.assume(z3.Not(z3.Select(exc.term, i.term)))
        out_ = []
        from pyvc.solve import quick_sat
        if quick_sat(have.pc):
            out_.append((OK, have, ExcVal("StoredTaskException", exact=True, fields={"of": i})))
        if quick_sat(miss.pc):
            out_.append((RAISE, miss, ExcVal("KeyError", exact=True)))
        return out_
    reg.add(Contract(key="StateBackend.get_exception", handler=h_get_exception, assumed=True, note="returns the stored exception object of this invocation (KeyError if none)"))
    reg.exceptions["StoredTaskException"] = ["Exception"]
    reg.shapes["AppConf"].fields["cached_status_time"] = REAL
    reg.add_shape(Shape("ReaderInvocation", fields={"app": ObjT("App"), "invocation_id": ID, "_cached_status": OST, "_cached_status_time": REAL},
                        cls=(DI, "DistributedInvocation")))
    reg.shapes["ReaderInvocation"].properties = ("status",)
    reg.shapes["ReaderInvocation"].backrefs = [("app.orchestrator", "app", "app"), ("app.state_backend", "app", "app")]
    O, S_ = "app.orchestrator.", "app.state_backend."
    me = lambda c: c.f("invocation_id")
    cur = lambda c: status_of(T, c.f(O + REC), me(c))
    final = lambda s: T.status_in(s, SPEC["final"])
    cached0 = lambda c: c.old("_cached_status")
    now = lambda c: c.st.ghost["$clock0"].term if "$clock0" in c.st.ghost else z3.Real(fresh_name("no_clock_read"))
    fresh_nonfinal = lambda c: z3.And(OST.is_some(cached0(c)), z3.Not(final(OST.val(cached0(c)))),
                                      now(c) - c.old("_cached_status_time") < c.f("app.conf.cached_status_time"))
    observed = lambda c: z3.If(z3.And(OST.is_some(cached0(c)), final(OST.val(cached0(c)))), OST.val(cached0(c)),
                               z3.If(fresh_nonfinal(c), OST.val(cached0(c)), cur(c)))
    reader = Contract(
        key=f"{DI}:DistributedInvocation.get_final_result", shape="ReaderInvocation", params={}, result=PAYLOAD,
        frame=["_cached_status", "_cached_status_time"],
        requires=[("registered", lambda c: known(T, c.f(O + REC), me(c))),
                  ("C05-invariant:SUCCESS=>result-stored,FAILED=>exception-stored", lambda c: glue.J5(T, c.f(O + REC), c.f(S_ + "res"), c.f(S_ + "exc"))),
                  ("a-cached-final-status-is-the-current-one(final statuses are absorbing: C01)", lambda c: z3.Implies(
                      z3.And(OST.is_some(c.f("_cached_status")), final(OST.val(c.f("_cached_status")))), cur(c) == OST.val(c.f("_cached_status"))))],
        cases=[
            Case("not-final", when=lambda c: z3.Not(final(observed(c))), raises="InvocationError", exact=True,
                 ensures=[("C05:a-non-final-invocation-never-yields-a-value", lambda c: z3.BoolVal(True))]),
            Case("failed", when=lambda c: observed(c) == T.S("FAILED"), raises="StoredTaskException", exact=True,
                 ensures=[("C05:raises-the-stored-exception-of-THIS-invocation", lambda c: T_(c.exc is None) if c.exc is None else
                           (c.exc.fields["of"].term == me(c) if "of" in c.exc.fields else T_(False)))]),
            Case("success", when=lambda c: observed(c) == T.S("SUCCESS"),
                 ensures=[("C05:returns-the-stored-result-of-THIS-invocation", lambda c: c.result == result_of(me(c)))]),
            Case("final-without-outcome", when=lambda c: observed(c) == T.S("CONCURRENCY_CONTROLLED_FINAL"), raises="KeyError",
                 ensures=[("outside-the-property(an invocation that was never run has no outcome)", lambda c: z3.BoolVal(True))]),
            Case("final-without-outcome(stored anyway)", when=lambda c: observed(c) == T.S("CONCURRENCY_CONTROLLED_FINAL"),
                 ensures=[("outside-the-property", lambda c: z3.BoolVal(True))]),
        ], properties=[PID],
        note="sequential reader; a concurrent worker only adds outcomes and moves statuses forward (J5 is kept at every step: set_invocation_result/exception)")
    out.append(reader)
    for c in out:
        reg.add(c)
    return out


def lemmas(T, reg, ctx):
    return []


def bounded():
    return []
