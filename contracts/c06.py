"""C06 — running concurrency control: never two RUNNING invocations with the same key (sequential kernel)."""
from __future__ import annotations

import z3

from pyvc.prop import BoundedResult, Prop, RunCtx
from pyvc.solve import Obligation

from .glueprop import GLUE_ASSUMPTIONS, GLUE_TRUSTED, setup

PID = "C06"


def check_then_act(ctx: RunCtx):
    """Ownership obligation (kind 5): the candidate check and the PENDING claim, and the authorisation check and the RUNNING
    request, are check-then-act pairs on the set of PENDING/RUNNING invocations of a key; one permission must span each pair.
    No lock or transaction is taken around either pair anywhere in base_orchestrator.py / dist_invocation.py."""
    import ast
    out = []
    src = ctx.src
    for key, check, act in (
        ("pynenc.invocation.dist_invocation:DistributedInvocation.run", "is_authorize_to_run_by_concurrency_control", "set_invocation_status"),
    ):
        fi = src.function(key)
        spanned = False
        for node in ast.walk(fi.node):
            if isinstance(node, ast.With):
                names = {n.func.attr for n in ast.walk(node) if isinstance(n, ast.Call) and isinstance(n.func, ast.Attribute)}
                if check in names and act in names:
                    spanned = True
        o = Obligation(name=f"{PID}/ownership/{key.split(':')[1]}/check-{check}-then-{act}-spanned-by-one-permission", kind="perm",
                       pc=[], goal=z3.BoolVal(spanned), function=key)
        o.status = "discharged" if spanned else "failed"
        o.backend = "ast-scan"
        o.detail = "no `with <lock/transaction>` statement encloses both the check and the act"
        out.append(o)
    return out


def build(ctx: RunCtx) -> Prop:
    T, reg, G = setup(ctx)
    from . import c06_leaf
    verify = [G["_is_authorize_by_concurrency_control"], G["get_additional_invocations_to_run"], G["_route_new_call_invocation"],
              G["route_calls"], G["set_invocation_status"], G["reroute_invocations"]]
    verify += c06_leaf.contracts(T, reg, ctx)
    return Prop(
        pid=PID, title="authorised <=> no same-key invocation in the given statuses; arguments indexed on every registering path (single and batch); "
                       "blocked invocations end CONCURRENCY_CONTROLLED(_FINAL) per option without the poll raising; key selection per mode; AND-match of key pairs",
        level="other", technique="contract-based deductive verification of the real glue and Mem index functions (AST->z3 VCs over abstract component contracts)",
        registry=reg, verify=verify, lemmas=[check_then_act] + c06_leaf.lemmas(T, reg, ctx), bounded=c06_leaf.bounded(),
        replayers={"*get_additional_invocations_to_run/raises:InvocationStatusError:undeclared-exception*": c06_leaf.replay_poll_raises,
                   "*ownership/DistributedInvocation.run/*": c06_leaf.replay_check_then_act},
        assumptions=GLUE_ASSUMPTIONS + ["all calls of one batch belong to one task (Task.parallelize)"],
        trusted_base=GLUE_TRUSTED,
        not_decided="multi-runner schedules: the check-then-act windows between runners are reported as an ownership finding, no interleaving is explored.",
        min_obligations=40,
    )
