"""C06 leaf contracts (Call key selection, Mem argument index) and the replay of the poll-raises finding."""
from __future__ import annotations


def contracts(T, reg, ctx):
    return []


def lemmas(T, reg, ctx):
    return []


def bounded():
    return []


def replay_poll_raises(ctx, ob):
    """Real code: an invocation blocked by running-concurrency control while in status X makes get_invocations_to_run raise."""
    import re
    from pynenc.conf.config_task import ConcurrencyControlType
    from pynenc.exceptions import InvocationStatusError
    from pynenc.invocation.status import InvocationStatus
    from . import verif_tasks
    from .realapp import force_status, real_app, runner_ctx
    m = re.search(r"status_at_pop=(\w+),reroute_option=(\w+)", ob["name"])
    if not m:
        return {"confirmed": False, "reason": "no split labels in the obligation name"}
    status, reroute = InvocationStatus[m.group(1)], m.group(2) == "True"
    from pynenc.arguments import Arguments
    from pynenc.call import Call
    from pynenc.invocation.dist_invocation import DistributedInvocation
    with real_app("mem") as app:
        task = app.task(running_concurrency=ConcurrencyControlType.TASK, reroute_on_concurrency_control=reroute)(verif_tasks.noop)
        a = DistributedInvocation.from_parent(Call(task, Arguments({})), None)
        b = DistributedInvocation.from_parent(Call(task, Arguments({})), None)
        app.orchestrator.register_new_invocations([a, b])
        app.broker.purge()
        force_status(app, a.invocation_id, InvocationStatus.RUNNING, "other-runner")
        force_status(app, b.invocation_id, status, None)
        app.broker.route_invocation(b.invocation_id)
        try:
            got = list(app.orchestrator.get_invocations_to_run(1, runner_ctx("poller")))
            return {"confirmed": False, "observed": f"poll returned {len(got)} invocations"}
        except InvocationStatusError as e:
            after = app.orchestrator.get_invocation_status(b.invocation_id).name
            return {"confirmed": True, "input": {"blocked_status": status.name, "reroute_on_concurrency_control": reroute},
                    "observed": f"get_invocations_to_run raised {type(e).__name__}; the popped invocation stays {after} with "
                                f"{app.broker.count_invocations()} messages queued"}


def replay_check_then_act(ctx, ob):
    """Forced schedule on the real code: two workers of two runners pass the running-concurrency authorisation check for two
    invocations with the same key before either publishes RUNNING (the check and the RUNNING request are not spanned by one
    lock / transaction)."""
    import threading
    from pynenc.arguments import Arguments
    from pynenc.call import Call
    from pynenc.conf.config_task import ConcurrencyControlType
    from pynenc.invocation.dist_invocation import DistributedInvocation
    from pynenc.invocation.status import InvocationStatus
    from . import verif_tasks
    from .realapp import force_status, real_app, runner_ctx
    with real_app("mem") as app:
        release = threading.Event()

        def body():
            release.wait(5)
        body.__name__, body.__module__, body.__qualname__ = "noop", verif_tasks.__name__, "noop"
        task = app.task(running_concurrency=ConcurrencyControlType.TASK)(verif_tasks.noop)
        a = DistributedInvocation.from_parent(Call(task, Arguments({})), None)
        b = DistributedInvocation.from_parent(Call(task, Arguments({})), None)
        app.orchestrator.register_new_invocations([a, b])
        force_status(app, a.invocation_id, InvocationStatus.PENDING, "runner-1")
        force_status(app, b.invocation_id, InvocationStatus.PENDING, "runner-2")
        barrier = threading.Barrier(2, timeout=5)
        real_set = app.orchestrator.set_invocation_status
        seen_running = []

        def gated(invocation_id, status, rctx):
            if status == InvocationStatus.RUNNING:
                barrier.wait()          # both workers have passed is_authorize_to_run_by_concurrency_control
            real_set(invocation_id, status, rctx)
            if status == InvocationStatus.RUNNING:
                seen_running.append(sorted(i for i in (a.invocation_id, b.invocation_id)
                                           if app.orchestrator.get_invocation_status(i) == InvocationStatus.RUNNING))
                barrier.wait()          # both are RUNNING now; look before either body returns
        app.orchestrator.set_invocation_status = gated
        ts = [threading.Thread(target=a.run, args=[runner_ctx("runner-1")]), threading.Thread(target=b.run, args=[runner_ctx("runner-2")])]
        for t in ts:
            t.start()
        for t in ts:
            t.join(10)
        both = max((len(s) for s in seen_running), default=0)
        return {"confirmed": both == 2, "input": "two PENDING invocations of a task with running_concurrency=TASK, owned by two runners; "
                                                  "both run() pass the authorisation check before either requests RUNNING",
                "observed": f"RUNNING invocations of the same key at one instant: {both}"}
