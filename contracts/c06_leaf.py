"""C06 leaf contracts (Call key selection, Mem argument index) and the replay of the poll-raises finding."""
from __future__ import annotations


import z3

from pyvc import ops
from pyvc.contract import Case, Contract, LoopSpec, Shape
from pyvc.types import BOOL, INT, REAL, STR, MapT, ObjT, Opt, Record, SeqT, SetT, dd_set
from pyvc.values import fresh_name

from .common import ID, TASK

MO = "pynenc.orchestrator.mem_orchestrator"
SID = SetT(ID)


def contracts(T, reg, ctx):
    """MemOrchestrator argument index: AND-match of all key pairs, index untouched by lookups, exact indexing at routing time."""
    PAIR = Record("ArgPair", [("key", STR), ("value", STR)])
    PAIR.pycls = (MO, "ArgPair")
    reg.records[f"{MO}:ArgPair"] = PAIR
    idx_t = MapT(PAIR, SID, default=dd_set(ID), default_name="set")
    KA = MapT(STR, STR)
    if "MemOrchestratorIndex" not in reg.shapes:
        reg.add_shape(Shape("MemOrchestratorIndex", fields={"args_index": idx_t, "app": ObjT("App")}, cls=(MO, "MemOrchestrator")))
    LSET = SeqT(SID)
    inter = z3.Function("inter_sets", LSET.sort(), SID.sort())     # intersection of a list of sets (fold)
    U = z3.K(ID.sort(), z3.BoolVal(True))

    def fold_axioms():
        s = z3.Const("fs", LSET.sort())
        x = z3.Const("fx", SID.sort())
        return z3.And(inter(LSET.empty()) == U,
                      z3.ForAll([s, x], inter(z3.Concat(s, z3.Unit(x))) == ops.set_inter(inter(s), x)),
                      z3.ForAll([x, s], inter(z3.Concat(z3.Unit(x), s)) == ops.set_inter(x, inter(s))),
                      z3.ForAll([x], inter(z3.Unit(x)) == x))

    def in_index(idx, k, v, i):
        cell = z3.Select(idx, PAIR.make(k, v))
        return z3.And(idx_t.opt.is_some(cell), z3.Select(idx_t.opt.val(cell), i))

    def match_all(c, keys_set):
        """{i | for every key k in keys_set: i in args_index[(k, key_arguments[k])]}"""
        i = z3.Const(fresh_name("mi"), ID.sort())
        k = z3.Const(fresh_name("mk"), STR.sort())
        ka = c.arg("key_arguments")
        return z3.Lambda([i], z3.ForAll([k], z3.Implies(z3.Select(keys_set, k), in_index(c.f("args_index"), k, KA.opt.val(z3.Select(ka, k)), i))))
    keys_of = lambda c: ops.set_keys(c.argv("key_arguments")).term
    fbk = Contract(
        key=f"{MO}:MemOrchestrator.filter_by_key_arguments", shape="MemOrchestratorIndex", params={"key_arguments": KA}, result=SID, frame=[],
        requires=[("fold-definition(inter_sets)", lambda c: fold_axioms())],
        loops={
            0: LoopSpec(modifies=[], inv=[
                ("candidate-sets-intersect-to-the-match-of-the-seen-keys", lambda c: inter(c.v("all_candidate_sets")) == match_all(c, c.x("seen"))),
                ("one-set-per-seen-key", lambda c: z3.Implies(c.x("seen") != SetT(STR).empty(), z3.Length(c.v("all_candidate_sets")) > 0)),
            ]),
            1: LoopSpec(modifies=[], inv=[
                ("result-is-the-intersection-so-far", lambda c: c.v("result") == ops.set_inter(c.v("all_candidate_sets")[0], inter(z3.SubSeq(c.x("seq"), 0, c.x("i"))))),
            ]),
        },
        cases=[Case("and-match", ensures=[
            ("C06/C07:empty-filter-matches-nothing", lambda c: z3.Implies(c.arg("key_arguments") == KA.empty(), c.result == SID.empty())),
            ("C06/C07:exactly-the-ids-indexed-under-ALL-key-pairs", lambda c: z3.Implies(c.arg("key_arguments") != KA.empty(), c.result == match_all(c, keys_of(c)))),
        ])], properties=["C06", "C07"])
    fbk.local_types = {"all_candidate_sets": LSET}
    idx_inv = Contract(
        key=f"{MO}:MemOrchestrator.index_arguments_for_concurrency_control", shape="MemOrchestratorIndex",
        params={"invocation": Record("InvocationArgsView", [("invocation_id", ID), ("call", Record("CallArgsView", [("serialized_arguments", KA)]))])},
        frame=["args_index"],
        loops={0: LoopSpec(inv=[("every-seen-pair-indexed-nothing-else-changes", lambda c: _indexed(c, idx_t, PAIR, KA, c.x("seen")))])},
        cases=[Case("indexed", ensures=[
            ("C06:every-argument-pair-of-the-invocation-is-indexed-and-nothing-else-changes",
             lambda c: _indexed(c, idx_t, PAIR, KA, ops.set_keys(_args_of(c)).term))])],
        properties=["C06"])
    proj = call_projection(T, reg, KA)
    out = [idx_inv, proj]   # filter_by_key_arguments folds a *list of sets*: outside the encoder's decidable reach -> bounded stand-in below
    for c in out:
        reg.contracts[c.key + "#leaf"] = c   # do not shadow the abstract glue contracts registered under the same method name
    return out


def call_projection(T, reg, KA):
    """Call.serialized_args_for_concurrency_control: the lookup key is a restriction of the SAME serialized mapping that gets indexed
    (Call.serialized_arguments, i.e. what the client data store produced - references for large values included)."""
    from pyvc.types import Atom
    from pyvc.values import OK, Val, mk_fresh
    CALL = "pynenc.call"
    OKA = Opt(KA)
    PYV = Atom("PyValue")
    KWARGS = MapT(STR, PYV)
    ser_args = z3.Function("client_data_store_serialize_arguments", KWARGS.sort(), KA.sort())
    raw_ser = z3.Function("serializer_serialize", PYV.sort(), STR.sort())
    if "CallTaskConf" not in reg.shapes:
        reg.add_shape(Shape("CallTaskConf", fields={"key_arguments": SeqT(STR), "disable_cache_args": SeqT(STR)}))
        reg.add_shape(Shape("CallTask", fields={"conf": ObjT("CallTaskConf"), "app": ObjT("CallApp")}))
        reg.add_shape(Shape("CallArgs", fields={"kwargs": KWARGS}))
        reg.add_shape(Shape("CallCDS", fields={}, abstract_methods={"serialize_arguments": "CallCDS.serialize_arguments"}))
        reg.add_shape(Shape("CallSerializer", fields={}, abstract_methods={"serialize": "CallSerializer.serialize"}))
        reg.add(Contract(key="CallSerializer.serialize", shape="CallSerializer", params={"obj": PYV}, result=STR, frame=[], assumed=True, check_invariants=False,
                         effect_events=False, cases=[Case("raw", ensures=[("the-raw-serialization", lambda c: c.result == raw_ser(c.arg("obj")))])],
                         note="the configured serializer applied to one value: NOT the stored form (large values are replaced by references by the client data store)"))
        reg.add_shape(Shape("CallApp", fields={"client_data_store": ObjT("CallCDS"), "serializer": ObjT("CallSerializer")}))
        reg.add(Contract(key="CallCDS.serialize_arguments", shape="CallCDS", params={"kwargs": KWARGS, "disable_cache_args": SeqT(STR)}, result=KA, frame=[],
                         assumed=True, check_invariants=False, effect_events=False,
                         cases=[Case("serialized", ensures=[("the-stored-form-of-the-arguments", lambda c: c.result == ser_args(c.arg("kwargs")))])],
                         note="client data store: argument name -> serialized value or reference key (C15)"))
        reg.add_shape(Shape("CallObj", fields={"task": ObjT("CallTask"), "_arguments": ObjT("CallArgs"), "_serialized_arguments": OKA},
                            cls=(CALL, "Call")))
        reg.shapes["CallObj"].properties = ("serialized_arguments", "arguments", "app")
    CC = lambda m: T.CCType.const(m)
    indexed = lambda c: z3.If(OKA.is_some(c.old("_serialized_arguments")), OKA.val(c.old("_serialized_arguments")), ser_args(c.f("_arguments.kwargs")))

    def restricted(c):
        k = z3.Const(fresh_name("pk"), STR.sort())
        keys = ops.seq_elems(c.f("task.conf.key_arguments"), STR.sort())
        return z3.ForAll([k], z3.Select(OKA.val(c.result), k) == z3.If(z3.Select(keys, k), z3.Select(indexed(c), k), KA.opt.none()))

    def keys_present(c):
        k = z3.Const(fresh_name("kp"), STR.sort())
        keys = ops.seq_elems(c.f("task.conf.key_arguments"), STR.sort())
        return z3.ForAll([k], z3.Implies(z3.Select(keys, k), KA.opt.is_some(z3.Select(indexed(c), k))))
    mode = lambda c: c.arg("concurrency_control")
    return Contract(
        key=f"{CALL}:Call.serialized_args_for_concurrency_control", shape="CallObj", params={"concurrency_control": T.CCType}, result=OKA,
        frame=["_serialized_arguments"],
        requires=[("the-key-arguments-are-arguments-of-the-call", keys_present),
                  ("a-cached-serialization-is-the-stored-form", lambda c: z3.Implies(OKA.is_some(c.f("_serialized_arguments")),
                                                                                  OKA.val(c.f("_serialized_arguments")) == ser_args(c.f("_arguments.kwargs"))))],
        cases=[Case("projection", ensures=[
            ("C06/C07:no-filter-for-DISABLED-and-TASK", lambda c: z3.Implies(z3.Or(mode(c) == CC("DISABLED"), mode(c) == CC("TASK")), OKA.is_none(c.result))),
            ("C06/C07:ARGUMENTS=the-whole-indexed-mapping", lambda c: z3.Implies(mode(c) == CC("ARGUMENTS"), c.result == OKA.some(indexed(c)))),
            ("C06/C07:KEYS=the-indexed-mapping-restricted-to-the-key-arguments", lambda c: z3.Implies(mode(c) == CC("KEYS"), z3.And(OKA.is_some(c.result), restricted(c)))),
            ("only-caches-the-stored-form", lambda c: z3.Or(c.f("_serialized_arguments") == c.old("_serialized_arguments"),
                                                          c.f("_serialized_arguments") == OKA.some(ser_args(c.f("_arguments.kwargs"))))),
        ])], properties=["C06", "C07"],
        note="the mapping that index_arguments_for_concurrency_control stores is invocation.call.serialized_arguments; a lookup key built any other way "
             "(e.g. serialising the raw values again) does not match references of externally stored values")


def _args_of(c):
    from pyvc.values import Val
    inv_ty = c.argv("invocation").ty
    call_ty = inv_ty.field_ty("call")
    return Val(call_ty.get(inv_ty.get(c.arg("invocation"), "call"), "serialized_arguments"), call_ty.field_ty("serialized_arguments"))


def _indexed(c, idx_t, PAIR, KA, keys):
    p = z3.Const(fresh_name("ip"), PAIR.sort())
    i = z3.Const(fresh_name("ii"), ID.sort())
    args = _args_of(c).term
    me = c.argv("invocation").ty.get(c.arg("invocation"), "invocation_id")
    old, new = c.old("args_index"), c.f("args_index")

    def member(m, pp, ii):
        cell = z3.Select(m, pp)
        return z3.And(idx_t.opt.is_some(cell), z3.Select(idx_t.opt.val(cell), ii))
    mine = z3.And(z3.Select(keys, PAIR.get(p, "key")), KA.opt.is_some(z3.Select(args, PAIR.get(p, "key"))),
                  KA.opt.val(z3.Select(args, PAIR.get(p, "key"))) == PAIR.get(p, "value"))
    return z3.ForAll([p, i], member(new, p, i) == z3.Or(member(old, p, i), z3.And(mine, i == me)))


def lemmas(T, reg, ctx):
    return []


def mem_index_small_scope(ctx):
    """Bounded stand-in for MemOrchestrator.filter_by_key_arguments / get_existing_invocations (real class, runtime contract check):
    exhaustive over all argument indexes of 3 invocations x 2 argument names x 2 values and all key filters."""
    import itertools
    from pyvc.prop import BoundedResult
    from pynenc.invocation.status import InvocationStatus as S
    from pynenc.orchestrator.mem_orchestrator import ArgPair, MemOrchestrator
    from .realapp import real_app
    res = BoundedResult("mem_index_small_scope", "all assignments of (a,b) in {x,y}^2 to 3 invocations (64 indexes) x all 9 key filters over {a,b} "
                        "x 2 consecutive lookups; oracle: AND of all pairs; the index must be unchanged by lookups", exhaustive=True)
    vals = ["x", "y"]
    n = 0
    with real_app("mem") as app:
        orch = app.orchestrator
        for assign in itertools.product(itertools.product(vals, repeat=2), repeat=3):
            orch.args_index.clear()
            args = {f"i{k}": {"a": av, "b": bv} for k, (av, bv) in enumerate(assign)}
            for iid, kv in args.items():
                for k, v in kv.items():
                    orch.args_index[ArgPair(k, v)].add(iid)
            snapshot = {str(p): set(s) for p, s in orch.args_index.items()}
            filters = [{}] + [{"a": v} for v in vals] + [{"b": v} for v in vals] + [{"a": v, "b": w} for v in vals for w in vals]
            for f1, f2 in itertools.product(filters, repeat=2):
                n += 1
                for f in (f1, f2):
                    got = orch.filter_by_key_arguments(dict(f))
                    want = {iid for iid, kv in args.items() if f and all(kv[k] == v for k, v in f.items())}
                    now = {str(p): set(s) for p, s in orch.args_index.items() if s or str(p) in snapshot}
                    if got != want or any(now.get(k, set()) != v for k, v in snapshot.items()):
                        if len(res.failures) < 5:
                            res.failures.append({"what": f"filter_by_key_arguments({f}) after {f1}: got {sorted(got)}, AND-match is {sorted(want)}; "
                                                         f"index changed: {any(now.get(k, set()) != v for k, v in snapshot.items())}",
                                                 "input": {"args": args, "filters": [f1, f2]}, "finding_key": "mem:and-match"})
                        break
    res.cases = n
    res.distinct = n
    res.samples = [{"args": {"i0": {"a": "x", "b": "y"}}, "filters": [{"a": "x"}, {"a": "x", "b": "y"}]}]
    return res


def both_backends_key_lookup(ctx):
    """Bounded stand-in for get_existing_invocations on BOTH real orchestrators through the public calls (register + index + lookup):
    all assignments of (a, b) in {x, y}^2 to 3 invocations of one task (so that key arguments with EQUAL values occur), all 9 key filters,
    with and without a status filter; oracle: same task AND every filter pair equals the invocation's serialized argument."""
    import itertools
    from pyvc.prop import BoundedResult
    from pynenc.arguments import Arguments
    from pynenc.call import Call
    from pynenc.invocation.dist_invocation import DistributedInvocation
    from pynenc.invocation.status import InvocationStatus as S
    from pynenc.workflow.workflow_identity import WorkflowIdentity
    from . import verif_tasks as vt
    from .realapp import real_app
    res = BoundedResult("both_backends_key_lookup", "64 argument assignments x 9 key filters x {no status filter, [REGISTERED], [RUNNING]} on the in-memory and the SQLite "
                        "orchestrator through register_new_invocations + index_arguments_for_concurrency_control + get_existing_invocations", exhaustive=True)
    vals = ["x", "y"]
    n = 0
    for backend in ("mem", "sqlite"):
        for assign in itertools.product(itertools.product(vals, repeat=2), repeat=3):
            with real_app(backend) as app:
                task = app.task(vt.key_task)
                invs = []
                for k, (av, bv) in enumerate(assign):
                    iid = f"i{k}"
                    inv = DistributedInvocation(Call(task, Arguments({"key": av, "other": bv})), iid, None,
                                                WorkflowIdentity.new_workflow(invocation_id=iid, task_id=task.task_id), True)
                    invs.append(inv)
                app.state_backend.upsert_invocations(invs)
                app.orchestrator.register_new_invocations(invs)
                for inv in invs:
                    app.orchestrator.index_arguments_for_concurrency_control(inv)
                ser = {inv.invocation_id: dict(inv.call.serialized_arguments) for inv in invs}
                sv = {v: app.client_data_store.serialize(v) for v in vals}
                filters = [None] + [{"key": sv[v]} for v in vals] + [{"other": sv[v]} for v in vals] + [{"key": sv[v], "other": sv[w]} for v in vals for w in vals]
                for f, sts in itertools.product(filters, (None, [S.REGISTERED], [S.RUNNING])):
                    n += 1
                    got = set(app.orchestrator.get_existing_invocations(task, f, sts))
                    want = {i for i, kv in ser.items() if (not f or all(kv.get(k) == v for k, v in f.items())) and (sts is None or S.REGISTERED in sts)}
                    if got != want and len(res.failures) < 6:
                        res.failures.append({"what": f"{backend}: get_existing_invocations(key filter {f}, statuses {[s.name for s in sts] if sts else None}) with arguments "
                                                     f"{ser} returned {sorted(got)}, expected {sorted(want)}",
                                             "input": {"assign": [list(a) for a in assign], "filter": f}, "finding_key": f"{backend}:key-lookup"})
    res.cases = n
    res.distinct = n
    res.samples = [{"assign": [["x", "x"], ["x", "y"], ["y", "y"]], "filter": {"key": "x", "other": "x"}}]
    return res


def batch_duplicates_and_submission_paths(ctx):
    """Bounded: same-key invocations must see each other whichever way they were submitted.  (a) A parallelized batch that repeats one call:
    while any one of the duplicates is RUNNING, none of the others is authorised to start.  (b) One call submitted plainly and the same call
    submitted through a batch, small and large key argument (inline / externalised), both orders."""
    from pyvc.prop import BoundedResult
    from pynenc.conf.config_task import ConcurrencyControlType as CC
    from pynenc.invocation.status import InvocationStatus as S
    from . import verif_tasks as vt
    from .realapp import force_status, real_app
    res = BoundedResult("batch_duplicates_and_submission_paths", "running_concurrency in {ARGUMENTS, KEYS} x {in-memory, SQLite}: a batch of three identical calls with each one "
                        "in turn RUNNING; a plain call and a batched call with the same key (small / >= 1 kB argument, both orders): the start-time authorisation of the others is False")
    n = 0
    for backend in ("mem", "sqlite"):
        for mode in (CC.ARGUMENTS, CC.KEYS):
            for size in ("small", "large"):
                key = "k" if size == "small" else "K" * 1500
                with real_app(backend) as app:
                    opts = dict(running_concurrency=mode)
                    if mode == CC.KEYS:
                        opts["key_arguments"] = ("key",)
                    task = app.task(**opts)(vt.key_task)
                    try:
                        batch = list(task.parallelize([(key, "o"), (key, "o"), (key, "o"), ("other", "o")]).invocations)
                        plain = task(key, "o")
                        app.state_backend.wait_for_all_async_operations()
                        # a runner works on the invocation as stored (the objects of the submitting process hold routing-only calls)
                        batch = [app.state_backend.get_invocation(i.invocation_id) for i in batch]
                        plain = app.state_backend.get_invocation(plain.invocation_id)
                        same = batch[:3] + [plain]
                        for running in range(len(same)):
                            n += 1
                            for inv in same:
                                force_status(app, inv.invocation_id, S.PENDING, "r-" + inv.invocation_id[:4])
                            force_status(app, same[running].invocation_id, S.RUNNING, "r-run")
                            allowed = [j for j, inv in enumerate(same) if j != running and app.orchestrator.is_authorize_to_run_by_concurrency_control(inv)]
                            if allowed:
                                what = ["batch#0", "batch#1", "batch#2", "plain"]
                                res.failures.append({"what": f"{backend} {mode.name} {size} key: {what[running]} is RUNNING, yet {[what[j] for j in allowed]} with the same key "
                                                             "are authorised to start", "input": {"backend": backend, "mode": mode.name, "key": size, "running": what[running]},
                                                     "finding_key": f"{backend}:same-key-not-seen"})
                        other_ok = app.orchestrator.is_authorize_to_run_by_concurrency_control(batch[3])
                        if not other_ok and mode != CC.TASK:
                            res.failures.append({"what": f"{backend} {mode.name}: an invocation with another key is refused while only key {size} is RUNNING",
                                                 "finding_key": f"{backend}:other-key-blocked"})
                    except Exception as e:      # noqa: BLE001
                        res.failures.append({"what": f"{backend} {mode.name} {size}: scenario could not run: {type(e).__name__}: {str(e)[:140]}", "finding_key": f"{backend}:scenario-error"})
    # (c) the key is per task: within ONE poll a really blocked invocation of task A must not make an invocation of task B with equal
    # arguments count as blocked
    from .realapp import runner_ctx
    for backend in ("mem", "sqlite"):
        for mode in (CC.ARGUMENTS, CC.KEYS):
            for reroute in (False, True):
                n += 1
                with real_app(backend) as app:
                    try:
                        opts = dict(running_concurrency=mode, reroute_on_concurrency_control=reroute)
                        if mode == CC.KEYS:
                            opts["key_arguments"] = ("key",)
                        ta, tb = app.task(**opts)(vt.key_task), app.task(**opts)(vt.sp_h_key)
                        a1 = ta("acc", "o")
                        R = runner_ctx("poller")
                        got = list(app.orchestrator.get_invocations_to_run(1, R))
                        app.orchestrator.set_invocation_status(a1.invocation_id, S.RUNNING, R)
                        a2, b1 = ta("acc", "o"), tb("acc", "o")
                        handed = [i.invocation_id for i in app.orchestrator.get_invocations_to_run(2, runner_ctx("poller-2"))]
                        st_b = app.orchestrator.get_invocation_status(b1.invocation_id).name
                        if b1.invocation_id not in handed or a2.invocation_id in handed:
                            res.failures.append({"what": f"{backend} {mode.name} reroute={reroute}: task A('acc') RUNNING, one poll for 2 slots finds A('acc') and B('acc') queued: handed out "
                                                         f"{['A2' if i == a2.invocation_id else 'B1' for i in handed]}, B ends {st_b} (the key of B is B's own: nothing of B is PENDING or RUNNING)",
                                                 "input": {"backend": backend, "mode": mode.name, "reroute": reroute}, "finding_key": f"{backend}:key-across-tasks"})
                    except Exception as e:      # noqa: BLE001
                        res.failures.append({"what": f"{backend} {mode.name}: cross-task scenario could not run: {type(e).__name__}: {str(e)[:140]}", "finding_key": f"{backend}:scenario-error"})
    res.failures = res.failures[:8]
    res.cases = n
    res.distinct = n
    res.samples = [{"mode": "ARGUMENTS", "running": "batch#1"}]
    return res


def bounded():
    return [batch_duplicates_and_submission_paths, mem_index_small_scope, both_backends_key_lookup]


def replay_poll_raises(ctx, ob):
    """Real code: an invocation blocked by running-concurrency control while in status X makes get_invocations_to_run raise."""
    import re
    from pynenc.conf.config_task import ConcurrencyControlType
    from pynenc.exceptions import InvocationStatusError
    from pynenc.invocation.status import InvocationStatus
    from . import verif_tasks
    from .realapp import force_status, real_app, runner_ctx
    m = re.search(r"status_at_pop=(\w+),reroute_option=(\w+)", ob["name"])
    if not m:
        return {"confirmed": False, "reason": "no split labels in the obligation name"}
    status, reroute = InvocationStatus[m.group(1)], m.group(2) == "True"
    from pynenc.arguments import Arguments
    from pynenc.call import Call
    from pynenc.invocation.dist_invocation import DistributedInvocation
    with real_app("mem") as app:
        task = app.task(running_concurrency=ConcurrencyControlType.TASK, reroute_on_concurrency_control=reroute)(verif_tasks.noop)
        a = DistributedInvocation.from_parent(Call(task, Arguments({})), None)
        b = DistributedInvocation.from_parent(Call(task, Arguments({})), None)
        app.orchestrator.register_new_invocations([a, b])
        app.broker.purge()
        force_status(app, a.invocation_id, InvocationStatus.RUNNING, "other-runner")
        force_status(app, b.invocation_id, status, None)
        app.broker.route_invocation(b.invocation_id)
        try:
            got = list(app.orchestrator.get_invocations_to_run(1, runner_ctx("poller")))
            return {"confirmed": False, "observed": f"poll returned {len(got)} invocations"}
        except InvocationStatusError as e:
            after = app.orchestrator.get_invocation_status(b.invocation_id).name
            return {"confirmed": True, "input": {"blocked_status": status.name, "reroute_on_concurrency_control": reroute},
                    "observed": f"get_invocations_to_run raised {type(e).__name__}; the popped invocation stays {after} with "
                                f"{app.broker.count_invocations()} messages queued"}


def replay_check_then_act(ctx, ob):
    """Forced schedule on the real code: two workers of two runners pass the running-concurrency authorisation check for two
    invocations with the same key before either publishes RUNNING (the check and the RUNNING request are not spanned by one
    lock / transaction)."""
    import threading
    from pynenc.arguments import Arguments
    from pynenc.call import Call
    from pynenc.conf.config_task import ConcurrencyControlType
    from pynenc.invocation.dist_invocation import DistributedInvocation
    from pynenc.invocation.status import InvocationStatus
    from . import verif_tasks
    from .realapp import force_status, real_app, runner_ctx
    with real_app("mem") as app:
        release = threading.Event()

        def body():
            release.wait(5)
        body.__name__, body.__module__, body.__qualname__ = "noop", verif_tasks.__name__, "noop"
        task = app.task(running_concurrency=ConcurrencyControlType.TASK)(verif_tasks.noop)
        a = DistributedInvocation.from_parent(Call(task, Arguments({})), None)
        b = DistributedInvocation.from_parent(Call(task, Arguments({})), None)
        app.orchestrator.register_new_invocations([a, b])
        force_status(app, a.invocation_id, InvocationStatus.PENDING, "runner-1")
        force_status(app, b.invocation_id, InvocationStatus.PENDING, "runner-2")
        barrier = threading.Barrier(2, timeout=5)
        real_set = app.orchestrator.set_invocation_status
        seen_running = []

        def gated(invocation_id, status, rctx):
            if status == InvocationStatus.RUNNING:
                barrier.wait()          # both workers have passed is_authorize_to_run_by_concurrency_control
            real_set(invocation_id, status, rctx)
            if status == InvocationStatus.RUNNING:
                seen_running.append(sorted(i for i in (a.invocation_id, b.invocation_id)
                                           if app.orchestrator.get_invocation_status(i) == InvocationStatus.RUNNING))
                barrier.wait()          # both are RUNNING now; look before either body returns
        app.orchestrator.set_invocation_status = gated
        ts = [threading.Thread(target=a.run, args=[runner_ctx("runner-1")]), threading.Thread(target=b.run, args=[runner_ctx("runner-2")])]
        for t in ts:
            t.start()
        for t in ts:
            t.join(10)
        both = max((len(s) for s in seen_running), default=0)
        return {"confirmed": both == 2, "input": "two PENDING invocations of a task with running_concurrency=TASK, owned by two runners; "
                                                  "both run() pass the authorisation check before either requests RUNNING",
                "observed": f"RUNNING invocations of the same key at one instant: {both}"}
