"""C07 — registration concurrency collapses duplicate submissions onto one invocation."""
from __future__ import annotations

import itertools

from pyvc.prop import BoundedResult, Prop, RunCtx

from .glueprop import GLUE_ASSUMPTIONS, GLUE_TRUSTED, setup

PID = "C07"


def registration_histories(ctx: RunCtx) -> BoundedResult:
    """Both real backends: all submission/claim sequences over a small alphabet, per registration mode and raise option."""
    from pynenc.conf.config_task import ConcurrencyControlType as CC
    from pynenc.exceptions import InvocationConcurrencyWithDifferentArgumentsError
    from pynenc.invocation.status import InvocationStatus
    from . import verif_tasks
    from .realapp import real_app, runner_ctx
    thorough = ctx.tier == "thorough"
    L = 5 if thorough else 4
    res = BoundedResult("registration_histories", f"all sequences up to length {L} of submit(key,other) over 2 keys x 2 other values and 'claim one', "
                        "for registration modes DISABLED/TASK/ARGUMENTS/KEYS x raise option, both backends; oracle: reuse iff a REGISTERED "
                        "invocation with the same registration key exists")
    subs = [("k1", "o1"), ("k1", "o2"), ("k2", "o1")]
    ops_ = [("sub", s) for s in subs] + [("claim", None)]
    n = 0
    for backend in ("mem", "sqlite"):
        for mode in (CC.DISABLED, CC.TASK, CC.ARGUMENTS, CC.KEYS):
            for raise_opt in ((False, True) if mode == CC.KEYS else (False,)):
                with real_app(backend) as app:
                    opts = dict(registration_concurrency=mode, on_diff_non_key_args_raise=raise_opt)
                    if mode == CC.KEYS:
                        opts["key_arguments"] = ("key",)
                    task = app.task(**opts)(verif_tasks.key_task)
                    for length in range(1, L + 1):
                        for seq in itertools.product(range(len(ops_)), repeat=length):
                            if not thorough and length == L and (sum((i + 1) * v for i, v in enumerate(seq)) % (6 if backend == "sqlite" else 2)):
                                continue
                            app.purge()
                            n += 1
                            registered = []  # (inv_id, key, other) still REGISTERED, in creation order
                            for k in seq:
                                op, arg = ops_[k]
                                if op == "claim":
                                    got = list(app.orchestrator.get_invocations_to_run(1, runner_ctx("r")))
                                    ids = {g.invocation_id for g in got}
                                    registered = [r for r in registered if r[0] not in ids]
                                    continue
                                key, other = arg
                                if mode == CC.DISABLED:
                                    match = []
                                elif mode == CC.TASK:
                                    match = registered
                                elif mode == CC.ARGUMENTS:
                                    match = [r for r in registered if (r[1], r[2]) == (key, other)]
                                else:
                                    match = [r for r in registered if r[1] == key]
                                before = app.orchestrator.count_invocations()
                                try:
                                    inv = task(key=key, other=other)
                                    outcome = inv.invocation_id
                                except InvocationConcurrencyWithDifferentArgumentsError:
                                    outcome = "rejected"
                                after = app.orchestrator.count_invocations()
                                bad = None
                                if not match:
                                    if outcome == "rejected" or after != before + 1 or outcome in [r[0] for r in registered]:
                                        bad = "expected a distinct new invocation"
                                    else:
                                        registered.append((outcome, key, other))
                                else:
                                    same_call = [r for r in match if (r[1], r[2]) == (key, other)]
                                    if raise_opt and not same_call:
                                        if outcome != "rejected" or after != before:
                                            bad = "expected rejection that changes nothing"
                                    elif outcome not in [r[0] for r in match] or after != before:
                                        # with raise option and a mix of same/different calls the implementation may pick either; only demand reuse-or-reject
                                        if not (raise_opt and outcome == "rejected" and after == before):
                                            bad = "expected an existing REGISTERED invocation back and nothing new"
                                if bad and len(res.failures) < 10:
                                    res.failures.append({"what": f"{backend} mode={mode.name} raise={raise_opt}: {bad} on {[ops_[j] for j in seq]} (outcome {outcome}, count {before}->{after})",
                                                         "input": [ops_[j] for j in seq], "finding_key": f"{backend}:{mode.name}"})
                                    break
    res.cases = n
    res.distinct = n
    res.samples = [[("sub", ("k1", "o1")), ("sub", ("k1", "o2")), ("claim", None), ("sub", ("k1", "o1"))]]
    return res


def build(ctx: RunCtx) -> Prop:
    from .c06_leaf import both_backends_key_lookup
    from .c15 import call_spellings
    from .c06_leaf import mem_index_small_scope     # the assumed contract of get_existing_invocations for Mem, as a bounded stand-in (lookups must not change the index)
    T, reg, G = setup(ctx)
    verify = [G["route_call"], G["_route_new_call_invocation"], G["register_new_invocations"]]
    return Prop(
        pid=PID, title="route_call: DISABLED or no REGISTERED match => exactly one new invocation; REGISTERED match => one of them returned and nothing "
                       "changes; KEYS + raise option + different call identity => rejected with nothing changed",
        level="proof", technique="contract-based deductive verification of the real route_call / registration glue (AST->z3 VCs over abstract component contracts) "
                                 "+ bounded submission histories on both backends",
        registry=reg, verify=verify, bounded=[registration_histories, mem_index_small_scope, both_backends_key_lookup, call_spellings],
        assumptions=GLUE_ASSUMPTIONS + ["get_existing_invocations returns exactly the same-task, REGISTERED, key-matching ids (proved for Mem in C06 leaf contracts; SQLite bounded)"],
        trusted_base=GLUE_TRUSTED,
        not_decided="two concurrent submissions of the same key (check-then-register is not atomic; the statement is about sequential submissions).",
        min_obligations=40,
        # the lookup key of a submission is a restriction of the mapping that was indexed (verified in the C06 module's registry)
        parts=[("contracts.c06", ["pynenc.call:Call.serialized_args_for_concurrency_control"])],
    )
