"""C08 — the broker delivers each routed message exactly once, first in first out."""
from __future__ import annotations

import itertools

import z3

from pyvc.contract import Case, Contract, LoopSpec, Registry, Shape
from pyvc.prop import BoundedResult, Prop, RunCtx
from pyvc.solve import Obligation
from pyvc.types import BOOL, INT, REAL, STR, ObjT, Opt, SeqT
from pyvc.values import fresh_name

from .common import ID, Types, base_registry

PID = "C08"
MB = "pynenc.broker.mem_broker"
QT = SeqT(ID)
OID = Opt(ID)


def mem_broker_contracts(reg: Registry, pid=PID):
    if "App" not in reg.shapes:
        reg.add_shape(Shape("App", fields={}))
    reg.add_shape(Shape("MemBroker", fields={"_queue": QT, "app": ObjT("App")}, cls=(MB, "MemBroker"),
                        doc="view: the deque as a sequence of invocation ids, head first"))
    q = lambda c: c.f("_queue")
    q0 = lambda c: c.old("_queue")
    route = Contract(
        key=f"{MB}:MemBroker.route_invocation", shape="MemBroker", params={"invocation_id": ID}, frame=["_queue"],
        cases=[Case("append", ensures=[("queue-is-old-plus-id-at-the-tail", lambda c: q(c) == z3.Concat(q0(c), z3.Unit(c.arg("invocation_id"))))])],
        properties=[pid])
    route_many = Contract(
        key=f"{MB}:MemBroker.route_invocations", shape="MemBroker", params={"invocation_ids": QT}, frame=["_queue"],
        loops={0: LoopSpec(inv=[("prefix-appended-in-order", lambda c: q(c) == z3.Concat(q0(c), z3.SubSeq(c.arg("invocation_ids"), 0, c.x("i"))))])},
        cases=[Case("append-all", ensures=[("queue-is-old-plus-all-ids-in-order", lambda c: q(c) == z3.Concat(q0(c), c.arg("invocation_ids")))])],
        properties=[pid])
    retrieve = Contract(
        key=f"{MB}:MemBroker.retrieve_invocation", shape="MemBroker", params={}, result=OID, frame=["_queue"],
        cases=[
            Case("empty", when=lambda c: z3.Length(q0(c)) == 0, ensures=[
                ("yields-nothing", lambda c: OID.is_none(c.result)), ("queue-unchanged", lambda c: q(c) == q0(c))]),
            Case("head", when=lambda c: z3.Length(q0(c)) > 0, ensures=[
                ("returns-the-head", lambda c: c.result == OID.some(q0(c)[0])),
                ("removes-exactly-the-head", lambda c: q(c) == z3.SubSeq(q0(c), 1, z3.Length(q0(c)) - 1))]),
        ], properties=[pid])
    count = Contract(
        key=f"{MB}:MemBroker.count_invocations", shape="MemBroker", params={}, result=INT, frame=[],
        cases=[Case("length", ensures=[("is-queue-length", lambda c: c.result == z3.Length(q0(c)))])], properties=[pid])
    purge = Contract(
        key=f"{MB}:MemBroker.purge", shape="MemBroker", params={}, frame=["_queue"],
        cases=[Case("clear", ensures=[("queue-empty", lambda c: z3.Length(q(c)) == 0)])], properties=[pid])
    out = [route, route_many, retrieve, count, purge]
    for c in out:
        reg.add(c)
    return out


def fifo_lemmas(ctx: RunCtx):
    """Induction step of 'retrieved sequence is a prefix of routed sequence' over the *contracts*:
    ghost R = everything routed so far, D = everything delivered so far, invariant R == D ++ queue."""
    R, D, Q, Q2, ids = [z3.Const(n, QT.sort()) for n in ("R", "D", "Q", "Q2", "ids")]
    x = z3.Const("x", ID.sort())
    inv = R == z3.Concat(D, Q)

    def ob(name, pc, goal):
        return Obligation(name=f"{PID}/lemma/{name}", kind="lemma", pc=pc, goal=goal, function="contracts of MemBroker")
    return [
        ob("route-preserves-R=D++Q", [inv, Q2 == z3.Concat(Q, z3.Unit(x))], z3.Concat(R, z3.Unit(x)) == z3.Concat(D, Q2)),
        ob("batch-route-preserves-R=D++Q", [inv, Q2 == z3.Concat(Q, ids)], z3.Concat(R, ids) == z3.Concat(D, Q2)),
        ob("retrieve-preserves-R=D++Q-and-delivers-next-undelivered",
           [inv, z3.Length(Q) > 0, Q2 == z3.SubSeq(Q, 1, z3.Length(Q) - 1)],
           z3.And(R == z3.Concat(z3.Concat(D, z3.Unit(Q[0])), Q2), Q[0] == R[z3.Length(D)])),
        ob("count-is-routed-minus-retrieved", [inv], z3.Length(Q) == z3.Length(R) - z3.Length(D)),
        ob("empty-queue-means-everything-delivered", [inv, z3.Length(Q) == 0], R == D),
    ]


# --------------------------------------------------------------------------- bounded: both real brokers against the sequence model
def queue_representation(ctx: RunCtx):
    """The sequence view of MemBroker._queue (append = concatenation at the tail, popleft = removal of the head) is the behaviour of an
    UNBOUNDED deque: every place that creates the attribute must create `deque()` without a length bound or initial content."""
    import ast
    out = []

    def ob(name, ok, detail=""):
        o = Obligation(name=f"{PID}/representation/{name}", kind="invariant", pc=[], goal=z3.BoolVal(bool(ok)), function="pynenc.broker.mem_broker:MemBroker")
        o.detail = detail
        out.append(o)
    cls = ctx.src.klass("pynenc.broker.mem_broker", "MemBroker")
    creations, bad = 0, []
    for node in ast.walk(cls):
        tgt = val = None
        if isinstance(node, ast.Assign) and len(node.targets) == 1:
            tgt, val = node.targets[0], node.value
        elif isinstance(node, ast.AnnAssign) and node.value is not None:
            tgt, val = node.target, node.value
        if isinstance(tgt, ast.Attribute) and tgt.attr == "_queue" and isinstance(tgt.value, ast.Name) and tgt.value.id == "self":
            creations += 1
            plain = isinstance(val, ast.Call) and ast.unparse(val.func) in ("deque", "collections.deque") and not val.args and not val.keywords
            if not plain:
                bad.append(f"line {node.lineno}: {ast.unparse(val)[:60]}")
    ob("queue-attribute-created-somewhere", creations >= 1)
    ob("the-queue-is-always-created-as-an-empty-unbounded-deque", not bad,
       detail="a bounded deque drops its oldest element on append: routed messages would vanish; found " + "; ".join(bad))
    return out


def broker_histories(ctx: RunCtx) -> BoundedResult:
    from .realapp import real_app
    thorough = ctx.tier == "thorough"
    maxlen = 6 if thorough else 5
    res = BoundedResult("broker_histories", f"all operation sequences up to length {maxlen} over route(a|b) / batch[a,a,b] / retrieve / count, "
                        "both real brokers, compared with a list model; plus 2000 same-millisecond routes (FIFO under timestamp ties)")
    ops = ["ra", "rb", "batch", "get", "count"]
    n = 0
    for backend in ("mem", "sqlite"):
        with real_app(backend) as app:
            br = app.broker
            for L in range(1, maxlen + 1):
                for seq in itertools.product(ops, repeat=L):
                    if backend == "sqlite" and L == maxlen and not thorough and hash(seq) % 4:
                        continue
                    br.purge()
                    model = []
                    n += 1
                    ok = True
                    for op in seq:
                        if op == "ra":
                            br.route_invocation("a"); model.append("a")
                        elif op == "rb":
                            br.route_invocation("b"); model.append("b")
                        elif op == "batch":
                            br.route_invocations(["a", "a", "b"]); model.extend(["a", "a", "b"])
                        elif op == "get":
                            got = br.retrieve_invocation()
                            exp = model.pop(0) if model else None
                            ok = ok and got == exp
                        else:
                            ok = ok and br.count_invocations() == len(model)
                        if not ok:
                            break
                    if not ok and len(res.failures) < 10:
                        res.failures.append({"what": f"{backend} broker diverges from the FIFO model on {seq}", "input": list(seq),
                                             "finding_key": f"{backend}:fifo"})
            # timestamp ties
            br.purge()
            ids = [f"id{i}" for i in range(2000 if backend == "sqlite" else 200)]
            br.route_invocations(ids)
            got = [br.retrieve_invocation() for _ in ids]
            n += 1
            if got != ids:
                res.failures.append({"what": f"{backend} broker is not FIFO for rapidly routed messages", "input": "2000 ids",
                                     "finding_key": f"{backend}:ties"})
            if br.retrieve_invocation() is not None:
                res.failures.append({"what": f"{backend}: empty queue yields a message", "finding_key": f"{backend}:empty"})
    res.cases = n
    res.distinct = n
    res.samples = [["ra", "batch", "get", "count", "get"]]
    return res


def large_batches(ctx: RunCtx) -> BoundedResult:
    """Bounded stand-in: batches larger than any plausible chunk / page / bound size through route_invocations on both real brokers."""
    from .realapp import real_app
    res = BoundedResult("large_batches", "route_invocations with batches of 1, 499, 500, 501, 620, 1000, 1001 and 10001 ids (and 10 001 single routings) on the in-memory "
                        "and the SQLite broker: every id is delivered exactly once, in routing order, and count_invocations agrees before the drain")
    n = 0
    for backend in ("mem", "sqlite"):
        sizes = (1, 499, 500, 501, 620, 1000, 1001) + ((10001,) if backend == "mem" or ctx.tier == "thorough" else ())
        for size in sizes:
            n += 1
            with real_app(backend) as app:
                ids = [f"b{size}-{k:05d}" for k in range(size)]
                app.broker.route_invocations(list(ids))
                cnt = app.broker.count_invocations()
                got = []
                while (i := app.broker.retrieve_invocation()) is not None:
                    got.append(i)
                if cnt != size or got != ids:
                    res.failures.append({"what": f"{backend}: batch of {size} ids: count says {cnt}, {len(got)} delivered, order kept: {got == ids[:len(got)]}, "
                                                 f"{len(set(ids) - set(got))} never delivered", "input": {"batch": size}, "finding_key": f"{backend}:batch"})
        n += 1
        with real_app(backend) as app:
            m = 10001 if backend == "mem" else 1200
            ids = [f"s-{k:05d}" for k in range(m)]
            for i in ids:
                app.broker.route_invocation(i)
            cnt = app.broker.count_invocations()
            first = app.broker.retrieve_invocation()
            if cnt != m or first != ids[0]:
                res.failures.append({"what": f"{backend}: {m} single routings: count says {cnt}, first delivered is {first} (expected {ids[0]})",
                                     "input": {"singles": m}, "finding_key": f"{backend}:many-singles"})
    res.cases = n
    res.distinct = n
    res.samples = [{"batch": 620}]
    return res


def build(ctx: RunCtx) -> Prop:
    T = Types(ctx.src)
    reg = base_registry(ctx.src, T)
    verify = mem_broker_contracts(reg)
    from . import c08_sqlite
    verify += c08_sqlite.contracts(reg, ctx)
    return Prop(
        pid=PID, title="MemBroker operations against a sequence view (append at tail, pop head, length, clear); FIFO / exactly-once as an "
                       "inductive lemma over the contracts; SQLiteBroker glue (statement order, bound parameters, BEGIN IMMEDIATE ownership)",
        level="proof", technique="contract-based deductive verification (AST->z3 sequence VCs) + lemma over contracts + bounded history enumeration for the SQL statements",
        registry=reg, verify=verify, lemmas=[fifo_lemmas, queue_representation] + c08_sqlite.lemmas(reg, ctx), bounded=[broker_histories, large_batches],
        assumptions=["collections.deque append/popleft/clear/len have list semantics", "SQL statement meaning is not proved (bounded stand-in only)",
                     "BEGIN IMMEDIATE gives a single writer until commit/rollback (SQLite)",
                     "the query planner serves ORDER BY created_at from the created_at index whose ties are in rowid order"],
        trusted_base=["pyvc VC generator", "z3 5.1 sequence theory", "cvc5 1.0.3", "sqlite3"],
        not_decided="interleavings of concurrent retrievers beyond the ownership obligation (no schedule is explored).",
        min_obligations=15,
    )
