def contracts(reg, ctx):
    return []
def lemmas(reg, ctx):
    return []
