"""C08 — SQLiteBroker glue obligations (statement order, bound parameters, ownership)."""
from __future__ import annotations

import z3

from pyvc import sqlmodel
from pyvc.contract import Case, Contract, Registry, Shape
from pyvc.sqlmodel import all_events, sql_events
from pyvc.types import BOOL, INT, REAL, STR, ObjT, Opt
from pyvc.values import OK, NoneVal, Val

from .common import ID

SB = "pynenc.broker.sqlite_broker"
OID = Opt(ID)
SCHEMA = {"id": (INT, None), "invocation_id": (ID, None), "created_at": (REAL, None)}
QUEUE = "{self.tables.QUEUE}"


def T(b):
    return z3.BoolVal(bool(b))


def identity_ctor(reg: Registry, key: str):
    reg.add(Contract(key=key, handler=lambda eng, st, recv, args, kwargs: [(OK, st, args[0])], assumed=True,
                     note="typing.NewType constructor: identity"))


def contracts(reg: Registry, ctx):
    sqlmodel.install(reg, SCHEMA)
    reg.sql_commit_faults = True    # a commit may fail ("database is locked"): exits through that fault are obligations too
    identity_ctor(reg, "pynenc.identifiers.invocation_id:InvocationId")
    reg.add_shape(Shape("Tables", fields={}))
    reg.add_shape(Shape("SQLiteBroker", fields={"sqlite_db_path": STR, "tables": ObjT("Tables"), "app": ObjT("App")},
                        cls=(SB, "SQLiteBroker")))

    def stmts(c):
        return sql_events(c.st)

    def first_is_begin_immediate(c):
        s = stmts(c)
        return T(bool(s) and s[0]["kind"] == "BEGIN IMMEDIATE")

    def reads_and_writes_owned(c):
        return T(all(e["owned"] for e in stmts(c) if e["kind"] in ("SELECT", "DELETE", "UPDATE", "INSERT")))

    def one_connection(c):
        return T(len({e["conn"] for e in stmts(c)}) == 1)

    def select_oldest(c):
        sel = [e for e in stmts(c) if e["kind"] == "SELECT"]
        ok = len(sel) == 1 and sel[0]["table"] == QUEUE and (sel[0]["info"]["order_by"] or "").upper().replace("  ", " ") in ("CREATED_AT ASC", "CREATED_AT", "CREATED_AT ASC, ID ASC", "CREATED_AT, ID", "ID ASC", "ID") \
            and sel[0]["info"]["limit"] == "1" and set(sel[0]["info"]["columns"]) >= {"id", "invocation_id"}
        return T(ok)

    def row_of(c):
        sel = [e for e in stmts(c) if e["kind"] == "SELECT"]
        return sel[0].get("row") if sel else None

    def empty_case(c):
        if row_of(c) is not None:
            return T(True)
        no_delete = not [e for e in stmts(c) if e["kind"] == "DELETE"]
        return z3.And(T(no_delete), OID.is_none(c.result))

    def row_case(c):
        row = row_of(c)
        if row is None:
            return T(True)
        dels = [e for e in stmts(c) if e["kind"] == "DELETE"]
        if len(dels) != 1 or dels[0]["table"] != QUEUE or dels[0]["info"]["where"] != ["id"] or len(dels[0]["params"]) != 1:
            return T(False)
        evs = all_events(c.st)
        idx_del = max(i for i, e in enumerate(evs) if e.get("ev") == "sql" and e["kind"] == "DELETE")
        committed = any(e.get("ev") == "commit" for e in evs[idx_del:])
        p = dels[0]["params"][0]
        return z3.And(T(committed), p.term == row["id"].term if isinstance(p, Val) and p.ty == INT else T(False),
                      c.result == OID.some(row["invocation_id"].term))

    retrieve = Contract(
        key=f"{SB}:SQLiteBroker.retrieve_invocation", shape="SQLiteBroker", params={}, result=OID, frame=[],
        cases=[Case("select-oldest-then-delete-it", ensures=[
            ("ownership:BEGIN-IMMEDIATE-is-the-first-statement", first_is_begin_immediate),
            ("ownership:select-and-delete-inside-the-transaction", reads_and_writes_owned),
            ("ownership:one-connection", one_connection),
            ("selects-the-oldest-row-limit-1", select_oldest),
            ("no-row:returns-None-and-deletes-nothing", empty_case),
            ("row:deletes-exactly-the-selected-message-id-commits-returns-its-invocation-id", row_case),
        ])],
        properties=["C08", "C02"],
        note="the meaning of the SELECT/DELETE statements is not proved (bounded stand-in broker_histories)")
    retrieve.cases.append(Case("commit-fault", raises="OperationalError", ensures=[
        ("a-failed-commit-removes-no-message", lambda c: T(not any(e.get("ev") == "commit" for e in all_events(c.st))))]))

    def send_inserts_once(c):
        ins = [e for e in stmts(c) if e["kind"] == "INSERT"]
        if len(ins) != 1 or ins[0]["table"] != QUEUE or len(ins[0]["params"]) != 1 or not isinstance(ins[0]["params"][0], Val):
            return T(False)
        committed = any(e.get("ev") == "commit" for e in all_events(c.st))
        others = [e for e in stmts(c) if e["kind"] in ("DELETE", "UPDATE")]
        return z3.And(T(committed and not others), ins[0]["params"][0].term == c.arg("invocation_id"),
                      T(ins[0]["info"]["columns"][0] == "invocation_id"))
    def nothing_committed(c):
        return T(not any(e.get("ev") == "commit" for e in all_events(c.st)))
    send = Contract(
        key=f"{SB}:SQLiteBroker.send_message", shape="SQLiteBroker", params={"invocation_id": ID}, frame=[],
        cases=[Case("insert-one", ensures=[("exactly-one-INSERT-of-the-given-id-committed", send_inserts_once)]),
               Case("commit-fault", raises="OperationalError", ensures=[("a-failed-commit-adds-no-message", nothing_committed)])],
        properties=["C08"])
    for c in (retrieve, send):
        reg.add(c)
    return [retrieve, send]


def lemmas(reg, ctx):
    return []
