"""C09 — the wait graph is tracked exactly; blocking invocations are the ready, runnable ones up to the limit;
finishing an invocation removes every record of someone waiting on it."""
from __future__ import annotations

import itertools

import z3

from pyvc import ops
from pyvc.contract import Case, Contract, LoopSpec, Registry, Shape
from pyvc.prop import BoundedResult, Prop, RunCtx
from pyvc.solve import Obligation
from pyvc.types import BOOL, INT, REAL, STR, Atom, MapT, ObjT, Opt, SeqT, SetT, dd_set
from pyvc.values import fresh_name

from . import world
from .common import ID, SPEC, Types, base_registry

PID = "C09"
MO = "pynenc.orchestrator.mem_orchestrator"
RLOCK = Atom("RLock")
SID = SetT(ID)
WF = MapT(ID, SID, default=dd_set(ID), default_name="set")
WB = MapT(ID, SID)
EMPTY = SID.empty()


def getset(m, k):
    cell = z3.Select(m, k)
    return z3.If(WB.opt.is_some(cell), WB.opt.val(cell), EMPTY)


def has(m, k):
    return WB.opt.is_some(z3.Select(m, k))


def I1(wf, wb, ready, except_w=None):
    x = z3.Const(fresh_name("x"), ID.sort())
    body = z3.Select(ready, x) == z3.And(has(wb, x), z3.Not(has(wf, x)))
    if except_w is not None:
        body = z3.Implies(x != except_w, body)
    return z3.ForAll([x], body)


def I2(wf):
    w = z3.Const(fresh_name("w"), ID.sort())
    return z3.ForAll([w], z3.Implies(has(wf, w), getset(wf, w) != EMPTY))


def I3(wf, wb):
    w, d = z3.Const(fresh_name("w"), ID.sort()), z3.Const(fresh_name("d"), ID.sort())
    return z3.ForAll([w, d], z3.Implies(z3.And(has(wf, w), z3.Select(getset(wf, w), d)),
                                        z3.And(has(wb, d), z3.Select(getset(wb, d), w))))


def blocking_contracts(T: Types, reg: Registry, pid=PID):
    world.add_world(T, reg)
    shape = Shape(
        "MemBlockingControl",
        fields={"waiting_for": WF, "waited_by": WB, "_ready": SID, "_lock": RLOCK, "app": ObjT("App")},
        cls=(MO, "MemBlockingControl"),
        invariants=[
            ("I1:ready=waited-on-and-not-waiting", lambda c: I1(c.f("waiting_for"), c.f("waited_by"), c.f("_ready"))),
            ("I2:no-empty-wait-set", lambda c: I2(c.f("waiting_for"))),
            ("I3:every-forward-edge-has-its-reverse-edge", lambda c: I3(c.f("waiting_for"), c.f("waited_by"))),
        ])
    reg.add_shape(shape)
    wf, wb, rd = (lambda c: c.f("waiting_for")), (lambda c: c.f("waited_by")), (lambda c: c.f("_ready"))
    wf0, wb0, rd0 = (lambda c: c.old("waiting_for")), (lambda c: c.old("waited_by")), (lambda c: c.old("_ready"))

    # ---------------- waiting_for_results
    def wfr_forward(c, seen):
        """pointwise form of: waiting_for' = waiting_for[w := waiting_for.get(w, {}) | seen] (unchanged when seen is empty)"""
        w = c.arg("caller_invocation_id")
        k, d, e = (z3.Const(fresh_name(n), ID.sort()) for n in "kde")
        return z3.And(
            z3.ForAll([k], z3.Implies(k != w, z3.Select(wf(c), k) == z3.Select(wf0(c), k))),
            has(wf(c), w) == z3.Or(has(wf0(c), w), z3.Exists([e], z3.Select(seen, e))),
            z3.ForAll([d], z3.Select(getset(wf(c), w), d) == z3.Or(z3.Select(getset(wf0(c), w), d), z3.Select(seen, d))))

    def wfr_reverse(c, seen):
        w = c.arg("caller_invocation_id")
        d = z3.Const(fresh_name("d"), ID.sort())
        return z3.ForAll([d], z3.Select(wb(c), d) == z3.If(z3.Select(seen, d), WB.opt.some(z3.Store(getset(wb0(c), d), w, True)),
                                                           z3.Select(wb0(c), d)))

    wfr = Contract(
        key=f"{MO}:MemBlockingControl.waiting_for_results", shape="MemBlockingControl",
        params={"caller_invocation_id": ID, "result_invocation_ids": SID},
        requires=[("waits-on-at-least-one", lambda c: c.arg("result_invocation_ids") != EMPTY)],
        frame=["waiting_for", "waited_by", "_ready"],
        loops={0: LoopSpec(inv=[
            ("forward-edges-of-seen-added", lambda c: wfr_forward(c, c.x("seen"))),
            ("reverse-edges-of-seen-added", lambda c: wfr_reverse(c, c.x("seen"))),
            ("I1-except-waiter", lambda c: I1(wf(c), wb(c), rd(c), except_w=c.arg("caller_invocation_id"))),
            ("I2", lambda c: I2(wf(c))), ("I3", lambda c: I3(wf(c), wb(c))),
        ])},
        cases=[Case("edges-added", ensures=[
            ("exactly-the-forward-edges-added", lambda c: wfr_forward(c, c.arg("result_invocation_ids"))),
            ("exactly-the-reverse-edges-added", lambda c: wfr_reverse(c, c.arg("result_invocation_ids"))),
        ])],
        properties=[pid],
        note="the list of awaited ids is iterated as a set (adding an edge is idempotent; duplicates in the list repeat an idempotent step)")

    # ---------------- release_waiters
    def rel_wf(c, seen):
        x = c.arg("waited_invocation_id")
        w = z3.Const(fresh_name("w"), ID.sort())
        rest = z3.Store(getset(wf0(c), w), x, False)
        shrunk = z3.If(z3.And(has(wf0(c), w), rest != EMPTY), WF.opt.some(rest), WF.opt.none())
        return z3.ForAll([w], z3.Select(wf(c), w) == z3.If(z3.Select(seen, w), shrunk, z3.Select(wf0(c), w)))

    def nothing_waits_on(c):
        x = c.arg("waited_invocation_id")
        w = z3.Const(fresh_name("w"), ID.sort())
        return z3.ForAll([w], z3.Not(z3.And(has(wf(c), w), z3.Select(getset(wf(c), w), x))))

    rel = Contract(
        key=f"{MO}:MemBlockingControl.release_waiters", shape="MemBlockingControl",
        params={"waited_invocation_id": ID}, frame=["waiting_for", "waited_by", "_ready"],
        loops={0: LoopSpec(inv=[
            ("waited_by-untouched", lambda c: wb(c) == wb0(c)),
            ("processed-waiters-no-longer-wait-on-it", lambda c: rel_wf(c, c.x("seen"))),
            ("I1", lambda c: I1(wf(c), wb(c), rd(c))), ("I2", lambda c: I2(wf(c))), ("I3", lambda c: I3(wf(c), wb(c))),
        ])},
        cases=[Case("released", ensures=[
            ("not-waited-on-any-more", lambda c: z3.Not(has(wb(c), c.arg("waited_invocation_id")))),
            ("not-waiting-any-more", lambda c: z3.Not(has(wf(c), c.arg("waited_invocation_id")))),
            ("nothing-recorded-as-waiting-on-it", nothing_waits_on),
            ("other-reverse-entries-unchanged", lambda c: wb(c) == z3.Store(wb0(c), c.arg("waited_invocation_id"), WB.opt.none())),
            ("other-wait-sets-only-lose-it", lambda c: wf(c) == z3.Store(
                _lam_rel(c, wf0, getset(wb0(c), c.arg("waited_invocation_id"))), c.arg("waited_invocation_id"), WF.opt.none())),
        ])],
        properties=[pid])

    # ---------------- get_blocking_invocations
    def runnable_ready(c, within=None):
        """{d in _ready (and in `within`) | status[d] available for run}"""
        d = z3.Const(fresh_name("d"), ID.sort())
        rec = c.f("app.orchestrator.rec")
        cond = z3.And(z3.Select(rd0(c), d), T.status_in(world.status_of(T, rec, d), SPEC["available"]))
        if within is not None:
            cond = z3.And(cond, z3.Select(within, d))
        return z3.Lambda([d], cond)

    n = lambda c: c.arg("max_num_invocations")
    gbi = Contract(
        key=f"{MO}:MemBlockingControl.get_blocking_invocations", shape="MemBlockingControl",
        params={"max_num_invocations": INT}, generator=ID, frame=[],
        requires=[("ready-ids-are-registered", lambda c: z3.ForAll(
            [z3.Const("rx", ID.sort())], z3.Implies(z3.Select(c.f("_ready"), z3.Const("rx", ID.sort())),
                                                    world.known(T, c.f("app.orchestrator.rec"), z3.Const("rx", ID.sort())))))],
        loops={0: LoopSpec(inv=[
            ("yielded-are-exactly-the-runnable-ready-seen", lambda c: c.out_set == runnable_ready(c, c.x("seen"))),
            ("budget-accounting", lambda c: z3.And(c.v("max_num_invocations") == c.argv("max_num_invocations").term - c.out_count,
                                                   c.v("max_num_invocations") > 0, c.out_count >= 0)),
        ])},
        cases=[Case("blocking", ensures=[
            ("only-ready-and-runnable", lambda c: ops.set_subset(c.out_set, runnable_ready(c), ID.sort())),
            ("at-most-the-limit", lambda c: c.out_count <= z3.If(n(c) > 0, n(c), 0)),
            ("all-of-them-when-below-the-limit", lambda c: z3.Implies(c.out_count < n(c), c.out_set == runnable_ready(c))),
        ])],
        properties=[pid])
    gbi.gen_distinct = True
    # concrete pre-states (vacuity guard): a waits on b and c; c waits on d
    G = {"waiting_for": {"a": ["b", "c"], "c": ["d"]}, "waited_by": {"b": ["a"], "c": ["a"], "d": ["c"]}, "_ready": ["b", "d"]}
    wfr.witnesses = [{"fields": G, "args": {"caller_invocation_id": "b", "result_invocation_ids": ["d", "e"]}}]
    rel.witnesses = [{"fields": G, "args": {"waited_invocation_id": "c"}}]
    reg_rec = {k: {"status": "REGISTERED", "runner_id": None, "timestamp": 0.0} for k in "abcd"}
    gbi.witnesses = [{"fields": dict(G, **{"app.orchestrator.rec": reg_rec}), "args": {"max_num_invocations": 1}}]
    out = [wfr, rel, gbi]
    for c in out:
        reg.add(c)
    return out


def _lam_rel(c, wf0, waiters):
    """old waiting_for with x removed from the wait set of every waiter of x (emptied sets dropped)."""
    x = c.arg("waited_invocation_id")
    w = z3.Const(fresh_name("w"), ID.sort())
    rest = z3.Store(getset(wf0(c), w), x, False)
    shrunk = z3.If(z3.And(has(wf0(c), w), rest != EMPTY), WF.opt.some(rest), WF.opt.none())
    return z3.Lambda([w], z3.If(z3.Select(waiters, w), shrunk, z3.Select(wf0(c), w)))


# --------------------------------------------------------------------------- bounded: both real blocking controls vs reference graph
def wait_graph_histories(ctx: RunCtx) -> BoundedResult:
    from pynenc.invocation.status import InvocationStatus
    from .realapp import force_status, new_invocation, real_app
    thorough = ctx.tier == "thorough"
    L = 5 if thorough else 4
    res = BoundedResult("wait_graph_histories", f"all sequences up to length {L} of wait(w,[d..]) / release(x) over 3 ids, on both real "
                        "blocking controls, compared after every step with a reference edge set; limits n in {0,1,2,5}")
    pairs = [(0, (1,)), (0, (1, 2)), (1, (2,)), (2, (0,)), (1, (0, 2))]
    ops_ = [("wait", p) for p in pairs] + [("rel", i) for i in range(3)]
    cases = 0
    for backend in ("mem", "sqlite"):
        with real_app(backend) as app:
            invs = [new_invocation(app).invocation_id for _ in range(3)]
            bc = app.orchestrator.blocking_control
            for length in range(1, L + 1):
                for seq in itertools.product(range(len(ops_)), repeat=length):
                    if backend == "sqlite" and not thorough and length == L and hash(seq) % 8:
                        continue
                    for i in invs:
                        bc.release_waiters(i)
                    # full reset (release does not remove the outgoing edges of a waiter in the SQLite twin)
                    if backend == "sqlite":
                        from pynenc.util.sqlite_utils import create_sqlite_connection as sc
                        with sc(app.orchestrator.sqlite_db_path) as conn:
                            conn.execute(f"DELETE FROM {app.orchestrator.tables.BLOCKING_EDGES}")
                            conn.commit()
                    else:
                        bc.waiting_for.clear(); bc.waited_by.clear(); bc._ready.clear()
                    edges = set()
                    finished = set()
                    for i in invs:
                        force_status(app, i, InvocationStatus.REGISTERED, None)
                    cases += 1
                    for k in seq:
                        op, arg = ops_[k]
                        if op == "wait":
                            w, ds = arg
                            bc.waiting_for_results(invs[w], [invs[d] for d in ds])
                            edges |= {(w, d) for d in ds}
                        else:
                            # an invocation is released when it reaches a final status
                            force_status(app, invs[arg], InvocationStatus.SUCCESS, None)
                            finished.add(arg)
                            bc.release_waiters(invs[arg])
                            edges = {(w, d) for (w, d) in edges if d != arg}
                        # reference: waited on by a recorded edge, not itself waiting (finished waiters no longer wait), runnable
                        waiters = {w for w, _ in edges if w not in finished}
                        expect = {invs[d] for _, d in edges if d not in waiters and d not in finished}
                        for n in (0, 1, 2, 5):
                            got = list(bc.get_blocking_invocations(n))
                            ok = set(got) <= expect and len(got) == len(set(got)) and len(got) <= max(n, 0) and \
                                (len(got) == min(n, len(expect)))
                            if not ok and len(res.failures) < 10:
                                res.failures.append({"what": f"{backend}: get_blocking_invocations({n}) = {len(got)} ids, reference ready set has "
                                                             f"{len(expect)} after {[ops_[j] for j in seq]}", "input": [ops_[j] for j in seq],
                                                     "finding_key": f"{backend}:blocking"})
    res.cases = cases
    res.distinct = cases
    res.samples = [[("wait", (0, (1, 2))), ("rel", 1)]]
    return res


def build(ctx: RunCtx) -> Prop:
    T = Types(ctx.src)
    reg = base_registry(ctx.src, T)
    from . import c01
    for c in c01.status_contracts(T, reg, ctx.repo, pid="C01"):
        reg.add(c)
    verify = blocking_contracts(T, reg)
    from . import c09_glue
    verify += c09_glue.contracts(T, reg, ctx)
    return Prop(
        pid=PID, title="MemBlockingControl: invariants I1-I3, exact edge effects of waiting_for_results / release_waiters, "
                       "get_blocking_invocations = ready & runnable up to the limit; release on every final transition; thread-runner slot lemma",
        level="proof", technique="contract-based deductive verification (AST->z3 VCs with quantified set/map invariants) + bounded wait-graph histories on both backends",
        registry=reg, verify=verify, lemmas=c09_glue.lemmas(T, reg, ctx), bounded=[wait_graph_histories, c09_glue.waits_in_every_status, c09_glue.nested_wait_trees],
        assumptions=["the list of awaited ids is iterated as a set (idempotent body)", "threading.RLock is a re-entrant mutual-exclusion lock",
                     "every id in the ready set is a registered invocation (established by BaseOrchestrator.waiting_for_results callers)",
                     "SQL statement meaning of SQLiteBlockingControl is not proved (bounded stand-in)"],
        trusted_base=["pyvc VC generator", "z3 5.1", "cvc5 1.0.3"],
        not_decided="'any finite tree of nested calls completes' is termination under fair scheduling: outside contract-based verification; "
                    "only the one-step progress lemma of the thread runner is proved.",
        min_obligations=20, parts=c09_glue.PARTS,
    )
