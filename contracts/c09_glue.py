"""C09, runner side: the documented wait strategy of the thread runner.

(a) ThreadRunner._waiting_for_results marks exactly the waiter; _reclaim_available_slots removes a mark only together with the
    waiter's own finished thread and reports capacity minus the live threads that are not waiting (both verified in the C11 module's
    registry, see `parts`);
(b) lemma: when every live task thread is marked as waiting, at least one slot is free (capacity >= 1), so the poll asks the
    orchestrator for work and the blocking invocations come first (glue contract of get_invocations_to_run);
(c) syntactic obligation on the wait loops of dist_invocation.py: every iteration of a wait loop announces the wait to the runner
    (a statement of the loop body itself, not under a once-only guard) - the mark is dropped whenever the waiter's thread ends,
    so a waiter that still waits must keep re-announcing."""
from __future__ import annotations

import ast

import z3

from pyvc.solve import Obligation

PID = "C09"
DI = "pynenc/invocation/dist_invocation.py"
PARTS = [("contracts.c09_runner", ["pynenc.runner.thread_runner:ThreadRunner._waiting_for_results",
                            "pynenc.runner.thread_runner:ThreadRunner._reclaim_available_slots",
                            "pynenc.runner.thread_runner:ThreadRunner._on_start"]),
         # the waiters of an invocation are released exactly when a FINAL status is accepted - a refused request leaves the wait graph alone
         ("contracts.c01", ["pynenc.orchestrator.base_orchestrator:BaseOrchestrator.set_invocation_status"]),
         # a declared wait reaches the wait graph for every awaited id, whatever that invocation's status is at the moment
         ("contracts.c03", ["pynenc.orchestrator.base_orchestrator:BaseOrchestrator.waiting_for_results"])]


def contracts(T, reg, ctx):
    return []


def _is_runner_announce(stmt) -> bool:
    call = stmt.value if isinstance(stmt, ast.Expr) else None
    if isinstance(call, ast.Await):
        call = call.value
    if not isinstance(call, ast.Call) or not isinstance(call.func, ast.Attribute):
        return False
    if call.func.attr not in ("waiting_for_results", "async_waiting_for_results"):
        return False
    base = call.func.value
    return isinstance(base, ast.Attribute) and base.attr == "runner"


def wait_strategy(ctx):
    out = []

    def ob(name, ok, detail="", fn=DI):
        o = Obligation(name=f"{PID}/wait-strategy/{name}", kind="lemma", pc=[], goal=z3.BoolVal(bool(ok)), function=fn)
        o.detail = detail
        out.append(o)
    # (b) one-step progress of the slot accounting
    cap, live_not_waiting, free = z3.Ints("capacity live_threads_not_waiting free_slots")
    o = Obligation(name=f"{PID}/wait-strategy/all-live-threads-waiting=>a-slot-is-free", kind="lemma",
                   pc=[cap >= 1, free == cap - live_not_waiting, live_not_waiting == 0], goal=free >= 1,
                   function="ThreadRunner._reclaim_available_slots (postcondition) + _on_start (max_threads >= 1)")
    out.append(o)
    # (c) wait loops
    import os
    tree = ast.parse(open(os.path.join(ctx.repo, DI)).read())
    found = 0
    for cls in [n for n in tree.body if isinstance(n, ast.ClassDef)]:
        for fn in [n for n in cls.body if isinstance(n, (ast.FunctionDef, ast.AsyncFunctionDef))]:
            if fn.name not in ("result", "async_result", "results", "async_results"):
                continue
            loops = [n for n in ast.walk(fn) if isinstance(n, ast.While)]
            for k, loop in enumerate(loops):
                found += 1
                direct = any(_is_runner_announce(s) for s in loop.body)
                ob(f"{cls.name}.{fn.name}:wait-loop{k}:every-iteration-announces-the-wait-to-the-runner", direct,
                   detail="the runner's waiting mark is dropped when the waiter's thread ends and is only set by this announcement; "
                          "a loop that announces once (or under a guard) can run unmarked and occupy a slot while it waits")
    ob("wait-loops-found", found >= 4, detail=f"{found} wait loops recognised in {DI} (result, async_result, results, async_results)")
    return out


def lemmas(T, reg, ctx):
    return [wait_strategy]


# --------------------------------------------------------------------------- bounded: the report through the orchestrator API, and nested wait trees on the real runner
def waits_in_every_status(ctx):
    """A parent declares (through BaseOrchestrator.waiting_for_results) that it waits on a child that is in status s; the child then becomes
    runnable again (or already is): get_blocking_invocations must report it - it is awaited, unfinished, runnable and waits on nothing."""
    from pyvc.prop import BoundedResult
    from pynenc.invocation.status import InvocationStatus as S
    from . import verif_tasks as vt
    from .realapp import new_invocation, real_app, runner_ctx
    res = BoundedResult("waits_in_every_status", "child in {REGISTERED, PENDING, RUNNING, RETRY, REROUTED} when the wait is declared x {in-memory, SQLite}: after the child is "
                        "runnable again get_blocking_invocations reports it; after it finishes it is reported no more")
    n = 0
    for backend in ("mem", "sqlite"):
        for s in ("REGISTERED", "PENDING", "RUNNING", "RETRY", "REROUTED"):
            n += 1
            with real_app(backend) as app:
                orch = app.orchestrator
                R = runner_ctx("runner-w")
                orch.register_runner_heartbeats(["runner-w"])
                parent = new_invocation(app, vt.add, x=1, y=0)
                list(orch.get_invocations_to_run(1, R))
                orch.set_invocation_status(parent.invocation_id, S.RUNNING, R)
                child = new_invocation(app, vt.add, x=2, y=0)
                cid = child.invocation_id
                try:
                    if s in ("PENDING", "RUNNING", "RETRY", "REROUTED"):
                        got = [i.invocation_id for i in orch.get_invocations_to_run(1, R)]
                        if cid not in got:
                            raise RuntimeError(f"could not claim the child (got {got})")
                    if s in ("RUNNING", "RETRY"):
                        orch.set_invocation_status(cid, S.RUNNING, R)
                    if s == "RETRY":
                        orch.set_invocation_retry(cid, vt.Retriable("again"), R)
                    if s == "REROUTED":
                        orch.reroute_invocations({cid}, R)
                    orch.waiting_for_results(parent.invocation_id, [cid])
                    if s == "PENDING":
                        orch.reroute_invocations({cid}, R)
                    if s == "RUNNING":
                        orch.set_invocation_retry(cid, vt.Retriable("again"), R)
                    reported = list(orch.get_blocking_invocations(5))
                    if cid not in reported:
                        res.failures.append({"what": f"{backend}: wait declared while the child was {s}; now the child is runnable ({orch.get_invocation_status(cid).name}), awaited and "
                                                     f"unfinished, but get_blocking_invocations reports {reported}", "input": {"backend": backend, "status_at_declaration": s},
                                             "finding_key": f"{backend}:declared-in-{s}"})
                except Exception as e:      # noqa: BLE001
                    res.failures.append({"what": f"{backend}: scenario {s} could not run: {type(e).__name__}: {str(e)[:140]}", "finding_key": f"{backend}:scenario-error"})
    res.cases = n
    res.distinct = n
    res.samples = [{"status_at_declaration": "RUNNING"}]
    return res


def nested_wait_trees(ctx):
    """Real ThreadRunner with 1 and 2 slots on the in-memory stack: chains and small group trees of nested waits complete (each within 90 s; about a second on an idle machine).
    Bounded stand-in for 'any finite tree of nested calls completes' - the one-step progress lemma is what is proved."""
    import threading
    from pyvc.prop import BoundedResult
    from . import verif_tasks as vt
    from .realapp import real_app
    thorough = ctx.tier == "thorough"
    res = BoundedResult("nested_wait_trees", "real ThreadRunner, max_threads in {1, 2}: wait chains of depth 1..3" + ("..4" if thorough else "") + " and group trees (fan-out 2, depth 2) "
                        "of tasks waiting on sub-tasks: every tree completes within 90 s (about a second each on an idle machine)")
    threading.excepthook = lambda args: None
    n = 0
    shapes = [("chain", d) for d in ((1, 2, 3, 4) if thorough else (1, 2, 3))] + [("tree", 2)]
    for slots in (1, 2):
        for kind, depth in shapes:
            n += 1
            with real_app("mem", max_threads=slots, min_threads=1) as app:
                from pynenc.runner.thread_runner import ThreadRunner
                app.runner = ThreadRunner(app)
                app.conf.runner_loop_sleep_time_sec = 0.01
                app.conf.invocation_wait_results_sleep_time_sec = 0.01
                t = app.task(vt.nest)
                vt.NEST_TASK[0] = t
                rt = threading.Thread(target=app.runner.run, daemon=True)
                rt.start()
                box = {}

                def ask():
                    try:
                        box["v"] = t(kind, depth).result
                    except Exception as e:      # noqa: BLE001
                        box["v"] = f"raised {type(e).__name__}: {e}"
                w = threading.Thread(target=ask, daemon=True)
                w.start()
                w.join(90)
                done = "v" in box
                app.runner.stop_runner_loop()
                # (a hung tree also hangs the stop of the runner: F-C11-1; the daemon threads end with the process)
                rt.join(0.5 if not done else 5)
                expect = depth if kind == "chain" else 2 ** depth
                if not done or box["v"] != expect:
                    res.failures.append({"what": f"ThreadRunner with {slots} slot(s): {kind} of depth {depth} " + ("did not complete within 90 s (waiting tasks keep their threads, "
                                                 "the awaited sub-task is never started)" if not done else f"returned {box['v']!r}, expected {expect}"),
                                         "input": {"slots": slots, "shape": kind, "depth": depth}, "finding_key": f"tree-does-not-complete:{slots}"})
    res.cases = n
    res.distinct = n
    res.samples = [{"slots": 1, "shape": "chain", "depth": 2}]
    return res
