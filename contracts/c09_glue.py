"""C09, runner side: the documented wait strategy of the thread runner.

(a) ThreadRunner._waiting_for_results marks exactly the waiter; _reclaim_available_slots removes a mark only together with the
    waiter's own finished thread and reports capacity minus the live threads that are not waiting (both verified in the C11 module's
    registry, see `parts`);
(b) lemma: when every live task thread is marked as waiting, at least one slot is free (capacity >= 1), so the poll asks the
    orchestrator for work and the blocking invocations come first (glue contract of get_invocations_to_run);
(c) syntactic obligation on the wait loops of dist_invocation.py: every iteration of a wait loop announces the wait to the runner
    (a statement of the loop body itself, not under a once-only guard) - the mark is dropped whenever the waiter's thread ends,
    so a waiter that still waits must keep re-announcing."""
from __future__ import annotations

import ast

import z3

from pyvc.solve import Obligation

PID = "C09"
DI = "pynenc/invocation/dist_invocation.py"
PARTS = [("contracts.c09_runner", ["pynenc.runner.thread_runner:ThreadRunner._waiting_for_results",
                            "pynenc.runner.thread_runner:ThreadRunner._reclaim_available_slots",
                            "pynenc.runner.thread_runner:ThreadRunner._on_start"]),
         # the waiters of an invocation are released exactly when a FINAL status is accepted - a refused request leaves the wait graph alone
         ("contracts.c01", ["pynenc.orchestrator.base_orchestrator:BaseOrchestrator.set_invocation_status"])]


def contracts(T, reg, ctx):
    return []


def _is_runner_announce(stmt) -> bool:
    call = stmt.value if isinstance(stmt, ast.Expr) else None
    if isinstance(call, ast.Await):
        call = call.value
    if not isinstance(call, ast.Call) or not isinstance(call.func, ast.Attribute):
        return False
    if call.func.attr not in ("waiting_for_results", "async_waiting_for_results"):
        return False
    base = call.func.value
    return isinstance(base, ast.Attribute) and base.attr == "runner"


def wait_strategy(ctx):
    out = []

    def ob(name, ok, detail="", fn=DI):
        o = Obligation(name=f"{PID}/wait-strategy/{name}", kind="lemma", pc=[], goal=z3.BoolVal(bool(ok)), function=fn)
        o.detail = detail
        out.append(o)
    # (b) one-step progress of the slot accounting
    cap, live_not_waiting, free = z3.Ints("capacity live_threads_not_waiting free_slots")
    o = Obligation(name=f"{PID}/wait-strategy/all-live-threads-waiting=>a-slot-is-free", kind="lemma",
                   pc=[cap >= 1, free == cap - live_not_waiting, live_not_waiting == 0], goal=free >= 1,
                   function="ThreadRunner._reclaim_available_slots (postcondition) + _on_start (max_threads >= 1)")
    out.append(o)
    # (c) wait loops
    import os
    tree = ast.parse(open(os.path.join(ctx.repo, DI)).read())
    found = 0
    for cls in [n for n in tree.body if isinstance(n, ast.ClassDef)]:
        for fn in [n for n in cls.body if isinstance(n, (ast.FunctionDef, ast.AsyncFunctionDef))]:
            if fn.name not in ("result", "async_result", "results", "async_results"):
                continue
            loops = [n for n in ast.walk(fn) if isinstance(n, ast.While)]
            for k, loop in enumerate(loops):
                found += 1
                direct = any(_is_runner_announce(s) for s in loop.body)
                ob(f"{cls.name}.{fn.name}:wait-loop{k}:every-iteration-announces-the-wait-to-the-runner", direct,
                   detail="the runner's waiting mark is dropped when the waiter's thread ends and is only set by this announcement; "
                          "a loop that announces once (or under a guard) can run unmarked and occupy a slot while it waits")
    ob("wait-loops-found", found >= 4, detail=f"{found} wait loops recognised in {DI} (result, async_result, results, async_results)")
    return out


def lemmas(T, reg, ctx):
    return [wait_strategy]
