"""The thread runner's wait strategy as C09 sees it: the C11 module's registry, with `_reclaim_available_slots` restricted to its
C09 clauses (waiting marks, slot count).  Used through `parts` of the C09 property."""
from __future__ import annotations

from pyvc.prop import Prop, RunCtx

from . import c11
from .glueprop import setup


def build(ctx: RunCtx) -> Prop:
    T, reg, G = setup(ctx)
    verify = c11.contracts(T, reg, G, variant="C09")
    return Prop(pid="C09", title="runner side of C09", level="proof", technique="see c09.py", registry=reg, verify=verify)
