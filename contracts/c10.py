"""C10 — the recorded history of an invocation is exactly its sequence of status changes (kernel)."""
from __future__ import annotations

import itertools

import z3

from pyvc import ops
from pyvc.contract import Case, Contract, LoopSpec, Registry, Shape
from pyvc.prop import BoundedResult, Prop, RunCtx
from pyvc.types import BOOL, DATETIME, INT, REAL, STR, Atom, MapT, ObjT, Opt, Record, SeqT, SetT
from pyvc.values import NONE, OK, BoundMeth, ListVal, Native, TupleVal, Val, fresh_name, mk_fresh

from .common import ID, Types
from .glueprop import GLUE_ASSUMPTIONS, GLUE_TRUSTED, setup

PID = "C10"
SB = "pynenc.state_backend.base_state_backend"
MS = "pynenc.state_backend.mem_state_backend"
THREAD = Atom("Thread")


def T_(b):
    return z3.BoolVal(bool(b))


def leaf_contracts(T: Types, reg: Registry):
    Hist = Record("InvocationHistory", [("invocation_id", ID), ("status_record", T.Record), ("runner_context_id", STR),
                                        ("registered_by_inv_id", Opt(ID)), ("_timestamp", DATETIME)])
    Hist.pycls = (SB, "InvocationHistory")
    Hist.defaults = {"registered_by_inv_id": lambda eng, st: NONE, "_timestamp": lambda eng, st: Val(eng.now(st).term, DATETIME)}
    reg.records[f"{SB}:InvocationHistory"] = Hist
    T.Hist = Hist
    InvP = Record("InvocationWithParent", [("invocation_id", ID), ("parent_invocation_id", Opt(ID))])
    threads_t = MapT(ID, SeqT(THREAD), default=lambda: SeqT(THREAD).empty(), default_name="list")
    reg.add_shape(Shape("BaseStateBackend", fields={"invocation_threads": threads_t, "app": ObjT("App")}, cls=(SB, "BaseStateBackend")))
    reg.add(Contract(key=f"{SB}:BaseStateBackend.store_runner_context", shape="BaseStateBackend", params={"runner_context": T.RunnerCtx},
                     cases=[Case("stored")], assumed=True, effect_events=False, check_invariants=False,
                     note="writes the runner-context table only (not part of the history view)"))

    # threading.Thread(target=..., args=...): a thread object; start() is recorded as a trace event with its target and arguments
    def h_thread(eng, st, recv, args, kwargs):
        t = mk_fresh(THREAD, "thread")
        st.ghost.setdefault("$threads", {})
        st.ghost["$threads"] = dict(st.ghost["$threads"])
        st.ghost["$threads"][str(t.term)] = {"target": kwargs.get("target"), "args": kwargs.get("args"), "term": t.term}
        return [(OK, st, t)]
    reg.add(Contract(key="threading:Thread", handler=h_thread, assumed=True,
                     note="Thread(target, args): start() runs target(*args) exactly once, join() waits for it"))

    def thread_start(eng, st, recv, a, kwargs):
        info = st.ghost.get("$threads", {}).get(str(recv.term))
        # attribution: a writer thread stores its entry under the listed ids - the entry must name exactly that id
        if info and isinstance(info.get("target"), BoundMeth) and info["target"].name == "_add_histories" and isinstance(info.get("args"), TupleVal) \
                and len(info["args"].items) == 2 and isinstance(info["args"].items[1], Val):
            ids_v, hv = info["args"].items
            hid = Hist.get(hv.term, "invocation_id")
            if isinstance(ids_v, ListVal):
                goal = z3.And([x.term == hid for x in ids_v.items]) if ids_v.items else z3.BoolVal(True)
            elif isinstance(ids_v, Val) and isinstance(ids_v.ty, SeqT):
                q = z3.Const(fresh_name("wid"), ID.sort())
                goal = z3.ForAll([q], z3.Implies(z3.Select(ops.seq_elems(ids_v.term, ID.sort()), q), q == hid))
            else:
                goal = z3.BoolVal(False)
            eng.oblige(st.fork(), goal, "C10:a-writer-stores-an-entry-only-under-the-invocation-id-that-the-entry-names", "ensures")
        st.events.append({"ev": "thread-start", "thread": recv.term, "info": info,
                          "registered": dict(st.heap)})
        return [(OK, st, NONE)]
    reg.value_methods = getattr(reg, "value_methods", {})
    reg.value_methods[("Thread", "start")] = thread_start

    def starts(c):
        return [e for e in c.st.events if isinstance(e, dict) and e.get("ev") == "thread-start"]

    def one_writer(c, inv_id_term, rec_term, ctx_term, reg_by=None):
        evs = starts(c)
        if len(evs) != 1 or not evs[0]["info"]:
            return T_(False)
        info = evs[0]["info"]
        tgt, args = info["target"], info["args"]
        if not (isinstance(tgt, BoundMeth) and tgt.name == "_add_histories" and getattr(tgt.recv, "oid", None) == c.self_ref.oid):
            return T_(False)
        if not (isinstance(args, TupleVal) and len(args.items) == 2 and isinstance(args.items[0], ListVal) and len(args.items[0].items) == 1):
            return T_(False)
        idv, hv = args.items[0].items[0], args.items[1]
        conj = [idv.term == inv_id_term, Hist.get(hv.term, "invocation_id") == inv_id_term, Hist.get(hv.term, "status_record") == rec_term,
                Hist.get(hv.term, "runner_context_id") == T.RunnerCtx.get(ctx_term, "runner_id")]
        if reg_by is not None:
            conj.append(Hist.get(hv.term, "registered_by_inv_id") == reg_by)
        # flushable: the thread was appended to invocation_threads[id] before it was started
        heap_at_start = evs[0]["registered"]
        cell = heap_at_start.get((c.self_ref.oid, "invocation_threads"))
        if cell is None:
            return T_(False)
        lst = threads_t.opt.val(z3.Select(cell.term, inv_id_term))
        conj.append(z3.And(threads_t.opt.is_some(z3.Select(cell.term, inv_id_term)), z3.Contains(lst, z3.Unit(info["term"]))))
        return z3.And(conj)

    add_history = Contract(
        key=f"{SB}:BaseStateBackend.add_history", shape="BaseStateBackend",
        params={"invocation_id": ID, "status_record": T.Record, "runner_context": T.RunnerCtx}, frame=["invocation_threads"],
        cases=[Case("one-writer", ensures=[
            ("exactly-one-writer-thread-for-(this-id,this-record,this-runner)-registered-for-flush-before-start",
             lambda c: one_writer(c, c.arg("invocation_id"), c.arg("status_record"), c.arg("runner_context"))),
            ("earlier-writers-stay-registered", lambda c: z3.ForAll([z3.Const("ti", ID.sort())], z3.Implies(
                z3.Const("ti", ID.sort()) != c.arg("invocation_id"),
                z3.Select(c.f("invocation_threads"), z3.Const("ti", ID.sort())) == z3.Select(c.old("invocation_threads"), z3.Const("ti", ID.sort()))))),
        ])], properties=[PID])

    # MemStateBackend storage of history entries
    hist_store_t = MapT(ID, SeqT(Hist), default=lambda: SeqT(Hist).empty(), default_name="list")
    reg.add_shape(Shape("MemStateBackend", fields={"_history": hist_store_t, "app": ObjT("App")}, cls=(MS, "MemStateBackend")))

    def hget(m, i):
        cell = z3.Select(m, i)
        return z3.If(hist_store_t.opt.is_some(cell), hist_store_t.opt.val(cell), SeqT(Hist).empty())

    def appended(c, seen):
        i = z3.Const(fresh_name("hi"), ID.sort())
        return z3.ForAll([i], hget(c.f("_history"), i) == z3.If(z3.Select(seen, i), z3.Concat(hget(c.old("_history"), i), z3.Unit(c.arg("invocation_history"))),
                                                                  hget(c.old("_history"), i)))
    mem_add = Contract(
        key=f"{MS}:MemStateBackend._add_histories", shape="MemStateBackend",
        params={"invocation_ids": SetT(ID), "invocation_history": Hist}, frame=["_history"],
        loops={0: LoopSpec(inv=[("entry-appended-once-for-each-processed-id-others-untouched", lambda c: appended(c, c.x("seen")))])},
        cases=[Case("appended", ensures=[
            ("one-entry-appended-per-listed-id-nothing-else-changes", lambda c: appended(c, c.arg("invocation_ids")))])],
        properties=[PID], note="the id list is iterated as a set (callers pass a single id)")
    INVS = SeqT(InvP)

    def registered_writers(c, elems):
        x = z3.Const(fresh_name("rw"), InvP.sort())
        cell = lambda i: z3.Select(c.f("invocation_threads"), i)
        return z3.ForAll([x], z3.Implies(z3.Select(elems, x), z3.And(threads_t.opt.is_some(cell(InvP.get(x, "invocation_id"))),
                                                                    z3.Length(threads_t.opt.val(cell(InvP.get(x, "invocation_id")))) > 0)))
    add_histories = Contract(
        key=f"{SB}:BaseStateBackend.add_histories", shape="BaseStateBackend",
        params={"invocations": INVS, "status_record": T.Record, "runner_context": T.RunnerCtx}, frame=["invocation_threads"],
        loops={0: LoopSpec(modifies=["invocation_threads"], inv=[
            ("a-writer-is-registered-for-every-invocation-handled-so-far", lambda c: registered_writers(c, c.x("seen_elems"))
             if c.has_extra("seen_elems") and c.x("seen_elems").sort() == SetT(InvP).sort() else z3.BoolVal(True))])},
        cases=[Case("one-writer-per-invocation", ensures=[
            ("a-writer-is-registered-for-every-listed-invocation", lambda c: registered_writers(c, ops.seq_elems(c.arg("invocations"), InvP.sort())))])],
        properties=[PID], note="the per-writer attribution obligation is raised at every Thread.start() (see thread_start)")
    for c in (add_history, mem_add, add_histories):
        reg.add(c)
    return [add_history, mem_add, add_histories]


def atomic_append(ctx: RunCtx):
    """Ownership obligation (kind 5): background writer threads of one invocation run concurrently, so the in-memory history list
    of an id may only be changed by one atomic `list.append` (or under a lock).  A read-modify-write of the list loses entries."""
    import ast
    from pyvc.solve import Obligation
    fi = ctx.src.function(f"{MS}:MemStateBackend._add_histories")
    with_nodes = [n for n in ast.walk(fi.node) if isinstance(n, ast.With)]
    guarded = {id(x) for w in with_nodes for x in ast.walk(w)}
    bad, n_acc = [], 0
    parents = {}
    for node in ast.walk(fi.node):
        for ch in ast.iter_child_nodes(node):
            parents[id(ch)] = node
    for node in ast.walk(fi.node):
        if isinstance(node, ast.Attribute) and node.attr == "_history" and isinstance(node.value, ast.Name) and node.value.id == "self":
            n_acc += 1
            if id(node) in guarded:
                continue
            sub = parents.get(id(node))
            att = parents.get(id(sub)) if isinstance(sub, ast.Subscript) else None
            call = parents.get(id(att)) if isinstance(att, ast.Attribute) else None
            ok = isinstance(sub, ast.Subscript) and isinstance(sub.ctx, ast.Load) and isinstance(att, ast.Attribute) and att.attr == "append" \
                and isinstance(call, ast.Call) and call.func is att
            if not ok:
                bad.append(f"line {node.lineno}: self._history used other than `self._history[id].append(entry)` outside a lock")
    ok = n_acc > 0 and not bad
    o = Obligation(name=f"{PID}/ownership/MemStateBackend._add_histories/history-list-changed-only-by-one-atomic-append-or-under-a-lock",
                   kind="perm", pc=[], goal=z3.BoolVal(ok), function=fi.key)
    o.status, o.backend, o.detail = ("discharged" if ok else "failed"), "ast-scan", " | ".join(bad)[:400]
    return [o]


# --------------------------------------------------------------------------- bounded: flushed history == sequence of successful transitions
def history_of_lifecycles(ctx: RunCtx) -> BoundedResult:
    from pynenc.exceptions import InvocationStatusError
    from pynenc.invocation.status import InvocationStatus as S
    from .c01_bounded import py_spec_step
    from .realapp import new_invocation, real_app, runner_ctx
    thorough = ctx.tier == "thorough"
    L = 5 if thorough else 4      # thorough: sampled beyond length 4 (memory) / 3 (SQLite), see the description below
    res = BoundedResult("history_of_lifecycles", f"request sequences up to length {L} (quick: all of length <= 2 and a fixed sample of the longer ones; thorough: all up to length 4 and one in five of length 5 in memory; all up to 3, one in three of length 4 and one in 41 of length 5 on SQLite) over a reduced alphabet (PENDING, RUNNING, RETRY, SUCCESS, "
                        "KILLED, REROUTED, PENDING_RECOVERY by runners A/B) on both backends; after flushing, the stored history must equal "
                        "REGISTERED followed by exactly the accepted requests, in order, each naming its requester")
    alphabet = [(S.PENDING, "A"), (S.PENDING, "B"), (S.RUNNING, "A"), (S.RETRY, "A"), (S.SUCCESS, "A"), (S.KILLED, "A"), (S.REROUTED, "A"),
                (S.PENDING_RECOVERY, "B"), (S.RUNNING, "B")]
    n = 0
    for backend in ("mem", "sqlite"):
        for length in range(1, L + 1):
            with real_app(backend) as app:      # a fresh app per length keeps the in-memory stores small
                for seq in itertools.product(range(len(alphabet)), repeat=length):
                    if (not thorough) and length >= 3 and (sum((i + 3) * v for i, v in enumerate(seq)) % (23 if backend == "sqlite" else 5)):
                        continue
                    if thorough and length >= 5 and (sum((i + 3) * v for i, v in enumerate(seq)) % (41 if backend == "sqlite" else 5)):
                        continue
                    if thorough and backend == "sqlite" and length == 4 and (sum((i + 3) * v for i, v in enumerate(seq)) % 3):
                        continue
                    inv = new_invocation(app)
                    n += 1
                    cur, owner = "REGISTERED", None
                    expect = [("REGISTERED", None)]
                    for k in seq:
                        st, rid = alphabet[k]
                        try:
                            app.orchestrator.set_invocation_status(inv.invocation_id, st, runner_ctx(rid))
                            ok = True
                        except InvocationStatusError:
                            ok = False
                        spec = py_spec_step(cur, owner, st.name, rid)
                        if ok != (spec != "error"):
                            break
                        if ok:
                            cur, owner = spec
                            expect.append((st.name, rid))
                    app.state_backend.wait_for_all_async_operations()
                    hist = app.state_backend.get_history(inv.invocation_id)
                    got = [(h.status_record.status.name, h.runner_context_id) for h in hist]
                    want = [(s, r) for s, r in expect]
                    good = [g[0] for g in got] == [w[0] for w in want] and all(g[1] == w[1] for g, w in zip(got[1:], want[1:])) \
                        and all(h.invocation_id == inv.invocation_id for h in hist) and got and got[-1][0] == cur
                    if not good and len(res.failures) < 10:
                        res.failures.append({"what": f"{backend}: history {got} != accepted transitions {want}", "input": [(alphabet[k][0].name, alphabet[k][1]) for k in seq],
                                             "finding_key": f"{backend}:history"})
    res.cases = n
    res.distinct = n
    res.samples = [[("PENDING", "A"), ("RUNNING", "A"), ("RETRY", "A"), ("PENDING", "B")]]
    return res


def build(ctx: RunCtx) -> Prop:
    T, reg, G = setup(ctx)
    verify = [G["set_invocation_status"], G["register_new_invocations"]] + leaf_contracts(T, reg)
    return Prop(
        pid=PID, title="every successful transition is followed by exactly one history request carrying the returned record and the same id, none on refusal; "
                       "registration records one entry per new invocation; add_history starts exactly one writer registered for flush; Mem append",
        level="proof", technique="contract-based deductive verification (AST->z3 VCs; thread starts as trace obligations) + bounded lifecycle histories on both backends",
        registry=reg, verify=verify, lemmas=[atomic_append], bounded=[history_of_lifecycles],
        assumptions=GLUE_ASSUMPTIONS + ["threading.Thread.start runs the target exactly once; join waits for it",
                                        "the clock is strictly increasing between two status changes of one invocation (history ordering by timestamp)"],
        trusted_base=GLUE_TRUSTED + ["sqlite3 (history table: bounded stand-in only)"],
        not_decided="lateness and interleaving of the writer threads are not explored; SQLite history storage is only enumerated.",
        min_obligations=30,
        # the record that goes into the history is the one the transition itself computed and stored (not a later re-read): leaf contracts of C01
        parts=[("contracts.c01", ["pynenc.orchestrator.sqlite_orchestrator:SQLiteOrchestrator._atomic_status_transition",
                                  "pynenc.orchestrator.mem_orchestrator:MemOrchestrator._atomic_status_transition"])],
    )
