"""C11 — stopping a runner leaves none of its invocations owned or unqueued.

Rely/guarantee over the abstract world: the loop thread of the runner is verified function by function
(real ASTs of base_runner.py / thread_runner.py) while the task threads are an *environment* that may act
between any two effectful steps of the loop thread.  The environment relation R* is written from the frozen
lifecycle spec and proved closed under the accepted status requests of a task thread (lemma `rely-closed`).
Threads themselves are abstract objects (start / is_alive / join)."""
from __future__ import annotations

import re

import z3

from pyvc import ops
from pyvc.contract import Case, Contract, LoopSpec, Registry, Shape
from pyvc.prop import BoundedResult, Prop, RunCtx
from pyvc.solve import Obligation
from pyvc.types import BOOL, INT, REAL, STR, Atom, MapT, ObjT, Opt, Record, SetT
from pyvc.values import NONE, OK, RAISE, ExcVal, Val, boolval, fresh_name, mk_fresh

from . import glue, world
from .common import ID, RUNNER, SPEC, Types, runner_id_ok, spec_new_owner, spec_step_error
from .glue import QUEUE, REC, bag_nonneg, known, owner_of, owners_ok, status_of
from .glueprop import GLUE_ASSUMPTIONS, GLUE_TRUSTED, setup

PID = "C11"
TR = "pynenc.runner.thread_runner"
BR = "pynenc.runner.base_runner"
BO = world.BO
THREAD = Atom("Thread")
thread_target = z3.Function("thread_target", THREAD.sort(), ID.sort())   # the invocation whose run() the thread executes
SID = SetT(ID)
O, B = "app.orchestrator.", "app.broker."
OREC_F, QUEUE_F = O + REC, "app.broker.queue"
TASK_TARGETS = ["RUNNING", "SUCCESS", "FAILED", "RETRY", "REROUTED"]   # the statuses DistributedInvocation.run requests for its own id


# --------------------------------------------------------------------------------------------- predicates
def me_of(T, ctx_term):
    return T.RunnerCtx.get(ctx_term, "runner_id")


def held_me(T, rec, i, me):
    return z3.And(known(T, rec, i), T.status_in(status_of(T, rec, i), ["PENDING", "RUNNING"]), owner_of(T, rec, i) == Opt(RUNNER).some(me))


def done(T, rec, q, i, me):
    """the statement of the property for one id: final, or in an available status and back in the queue
    (that such a record carries no owner is the C01 owner rule: only PENDING acquires, only RUNNING/PAUSED/RESUMED keep)"""
    s = status_of(T, rec, i)
    return z3.And(known(T, rec, i), z3.Or(T.status_in(s, SPEC["final"]), z3.And(T.status_in(s, SPEC["available"]), z3.Select(q, i) > 0)))


def tracked(T, rec, q, i, me):
    """what the runner's table may hold: an invocation it owns (claimed or running), or one already done"""
    return z3.Or(held_me(T, rec, i, me), done(T, rec, q, i, me))


def rstar_at(T, rec, q, rec2, q2, live, me, j):
    """R*: what task threads (and the children they register) may have done to id j between two observations."""
    OSTR = Opt(RUNNER)
    s2, o2 = status_of(T, rec2, j), owner_of(T, rec2, j)
    k1, k2 = known(T, rec, j), known(T, rec2, j)
    q1j, q2j = z3.Select(q, j), z3.Select(q2, j)
    same = z3.And(z3.Select(rec2, j) == z3.Select(rec, j), q2j == q1j)
    from_held = z3.And(held_me(T, rec, j, me), z3.Select(live, j), k2, z3.Or(
        z3.And(s2 == T.S("RUNNING"), o2 == OSTR.some(me), q2j == q1j),
        z3.And(T.status_in(s2, ["SUCCESS", "FAILED"]), OSTR.is_none(o2), q2j == q1j),
        z3.And(T.status_in(s2, ["RETRY", "REROUTED"]), OSTR.is_none(o2), q2j >= q1j + 1)))
    from_killed = z3.And(k1, status_of(T, rec, j) == T.S("KILLED"), OSTR.is_none(owner_of(T, rec, j)), z3.Select(live, j),
                         k2, s2 == T.S("REROUTED"), OSTR.is_none(o2), q2j >= q1j + 1)
    child = z3.And(z3.Not(k1), z3.Implies(k2, z3.And(z3.Not(held_me(T, rec2, j, me)), runner_id_ok(o2))), q2j >= q1j)
    return z3.Or(same, from_held, from_killed, child)


def rstar(T, rec, q, rec2, q2, live, me, except_id=None):
    j = z3.Const(fresh_name("ej"), ID.sort())
    body = rstar_at(T, rec, q, rec2, q2, live, me, j)
    if except_id is not None:
        body = z3.Implies(j != except_id, body)
    return z3.ForAll([j], body)


def rely_clauses(T, rec, q, rec2, q2, me, j):
    """What the loop thread's proofs use of R*: each clause is a consequence of R* at id j (lemmas `rely:*`)."""
    killed = z3.And(known(T, rec, j), status_of(T, rec, j) == T.S("KILLED"))
    return [
        ("never-puts-an-invocation-under-the-runner", z3.Implies(held_me(T, rec2, j, me), held_me(T, rec, j, me))),
        ("done-is-stable", z3.Implies(done(T, rec, q, j, me), done(T, rec2, q2, j, me))),
        ("tracked-is-stable", z3.Implies(tracked(T, rec, q, j, me), tracked(T, rec2, q2, j, me))),
        ("registered-stays-registered", z3.Implies(known(T, rec, j), known(T, rec2, j))),
        ("a-killed-invocation-stays-killed-or-is-requeued-by-its-own-thread", z3.Implies(killed, z3.Or(
            z3.And(z3.Select(rec2, j) == z3.Select(rec, j), z3.Select(q2, j) == z3.Select(q, j)),
            done(T, rec2, q2, j, me)))),
    ]


def rely(T, rec, q, rec2, q2, me, except_id=None):
    out = []
    for _n, _f in rely_clauses(T, rec, q, rec2, q2, me, z3.Const("probe", ID.sort())):
        j = z3.Const(fresh_name("ej"), ID.sort())
        body = dict(rely_clauses(T, rec, q, rec2, q2, me, j))[_n]
        if except_id is not None:
            body = z3.Implies(j != except_id, body)
        out.append(z3.ForAll([j], body))
    return z3.And(out)


def signal_handlers_outlive_the_sweep(ctx: RunCtx):
    """Structural obligation over BaseRunner: a stop can be requested by a signal at any moment, including while the stop itself sweeps the
    table; the handlers that turn SIGINT/SIGTERM into a stop request (installed by on_start) must therefore stay in place until `_on_stop()` has
    returned: in `on_stop` nothing before the `self._on_stop()` statement may (transitively) call `signal.signal`, and neither may the sweep
    functions themselves."""
    import ast
    from pyvc.solve import Obligation
    cls = ctx.src.klass(BR, "BaseRunner")
    methods = {n.name: n for n in cls.body if isinstance(n, (ast.FunctionDef, ast.AsyncFunctionDef))}

    def direct(fn):
        return any(isinstance(n, ast.Call) and isinstance(n.func, ast.Attribute) and n.func.attr == "signal" and isinstance(n.func.value, ast.Name) and n.func.value.id == "signal"
                   for n in ast.walk(fn))

    def self_calls(node):
        return {n.func.attr for n in ast.walk(node) if isinstance(n, ast.Call) and isinstance(n.func, ast.Attribute) and isinstance(n.func.value, ast.Name) and n.func.value.id == "self"}
    sets = {m for m, fn in methods.items() if direct(fn)}
    changed = True
    while changed:
        changed = False
        for m, fn in methods.items():
            if m not in sets and self_calls(fn) & sets:
                sets.add(m)
                changed = True
    bad = []
    on_stop = methods.get("on_stop")
    if on_stop is not None:        # (another shape of the stop entry point is not this obligation's business)
        seen_sweep = False
        for stt in on_stop.body:
            if "_on_stop" in self_calls(stt):
                seen_sweep = True
                continue
            if not seen_sweep and (direct(stt) or (self_calls(stt) & sets)):
                bad.append(f"on_stop line {stt.lineno}: changes the signal handlers before self._on_stop() has swept the table ({', '.join(sorted(self_calls(stt) & sets)) or 'signal.signal'})")
    for m in ("stop_runner_loop", "_kill_and_reroute"):
        if m in sets:
            bad.append(f"{m} changes the signal handlers")
    ok = not bad
    o = Obligation(name=f"{PID}/structure/BaseRunner/stop-signal-handlers-stay-installed-until-the-sweep-is-over", kind="lemma", pc=[], goal=z3.BoolVal(ok), function=f"{BR}:BaseRunner.on_stop")
    o.status, o.backend, o.detail = ("discharged" if ok else "failed"), "ast-scan", " | ".join(bad)[:500]
    o.extra = {"methods_that_change_handlers": sorted(sets)}
    return [o]


def rely_lemmas(ctx: RunCtx):
    """R* is reflexive and closed under every status request of a task thread that the state machine accepts."""
    T = Types(ctx.src)
    world.view_types(T)
    OREC, OSTR = Opt(T.Record), Opt(RUNNER)
    from pyvc.types import BagT
    rec_t, bag_t = MapT(ID, T.Record), BagT(ID)
    ra, rb, rc = (z3.Const(n, rec_t.sort()) for n in ("rec_a", "rec_b", "rec_c"))
    qa, qb, qc = (z3.Const(n, bag_t.sort()) for n in ("q_a", "q_b", "q_c"))
    live = z3.Const("live", SID.sort())
    me = z3.String("me")
    j = z3.Const("j", ID.sort())
    out = []

    def ob(name, pc, goal):
        out.append(Obligation(name=f"{PID}/lemma/{name}", kind="lemma", pc=pc, goal=goal, function="rely relation R* (contracts/c11.py) vs spec/lifecycle.json"))
    ob("rely-reflexive", [], rstar_at(T, ra, qa, ra, qa, live, me, j))
    for t in TASK_TARGETS:
        cell_b = z3.Select(rb, j)
        accepted = z3.And(OREC.is_some(cell_b), z3.Not(spec_step_error(T, cell_b, T.S(t), OSTR.some(me))))
        new_c = z3.And(known(T, rc, j), status_of(T, rc, j) == T.S(t),
                       owner_of(T, rc, j) == spec_new_owner(T, cell_b, T.S(t), OSTR.some(me)),
                       z3.Select(qc, j) == z3.Select(qb, j) + (1 if t in ("RETRY", "REROUTED") else 0))
        # the thread of j acts on j only, and j was claimed by this runner (PENDING under it) when the thread was started
        own = z3.Or(held_me(T, ra, j, me), z3.And(known(T, ra, j), status_of(T, ra, j) == T.S("KILLED")))
        ob(f"rely-closed-under-accepted-request:{t}",
           [z3.Length(me) > 0, z3.Select(live, j), own, z3.Implies(known(T, ra, j), runner_id_ok(owner_of(T, ra, j))),
            z3.Implies(status_of(T, ra, j) == T.S("KILLED"), OSTR.is_none(owner_of(T, ra, j))),
            rstar_at(T, ra, qa, rb, qb, live, me, j), accepted, new_c],
           rstar_at(T, ra, qa, rc, qc, live, me, j))
    # the clauses of the rely relation that the proofs use are consequences of R*
    for name, clause in rely_clauses(T, ra, qa, rb, qb, me, j):
        ob(f"rely:{name}", [z3.Length(me) > 0, z3.Select(qa, j) >= 0, rstar_at(T, ra, qa, rb, qb, live, me, j)], clause)
    return out


# --------------------------------------------------------------------------------------------- contracts
def contracts(T: Types, reg: Registry, G: dict, variant: str = "C11"):
    OSTR, OST = Opt(RUNNER), Opt(T.Status)
    TI = Record("ThreadInfo", [("thread", THREAD), ("invocation", T.Invocation)])
    T.ThreadInfo = TI
    reg.records[f"{TR}:ThreadInfo"] = TI
    TABLE = MapT(ID, TI)
    reg.add_shape(Shape("ThreadRunnerConf", fields={"runner_loop_sleep_time_sec": REAL, "min_parallel_slots": INT, "min_threads": INT, "max_threads": INT,
                                                    "invocation_wait_results_sleep_time_sec": REAL}))
    reg.add_shape(Shape("ThreadRunner", fields={
        "threads": TABLE, "waiting_invocation_ids": SID, "running": BOOL, "app": ObjT("App"), "_runner_context": T.RunnerCtx,
        "conf": ObjT("ThreadRunnerConf"), "max_threads": INT, "_shutdown_signum": Opt(INT), "_last_atomic_service_check_time": REAL,
    }, cls=(TR, "ThreadRunner")))
    sh = reg.shapes["ThreadRunner"]
    sh.auto_fields = True        # further bookkeeping attributes of the runner classes are "don't care" fields of their annotated type
    sh.properties = ("runner_context", "runner_id", "logger", "max_parallel_slots")
    sh.backrefs = [("app.orchestrator", "app", "app"), ("app.broker", "app", "app"), ("app.state_backend", "app", "app"), ("app.trigger", "app", "app")]
    reg.dropped_calls.append(re.compile(r"(^|\.)_run_stopped\.(set|clear)$"))
    reg.dropped_calls.append(re.compile(r"^context\.(set_|swap_|clear_)"))
    reg.dropped_calls.append(re.compile(r"^log_runner_shutdown$"))
    reg.dropped_calls.append(re.compile(r"^signal\.(signal|getsignal)$"))      # which handler is installed when: structural obligation signal_handlers_outlive_the_sweep
    for fn in ("current_thread", "main_thread"):
        reg.add(Contract(key=f"threading:{fn}", handler=(lambda eng, st, recv, a, kw, fn=fn: [(OK, st, Val(z3.Const("the_" + fn, Atom("ThreadObject").sort()), Atom("ThreadObject")))]),
                         assumed=True, note="identity of the calling / main thread (an opaque object)"))
    reg.value_methods = getattr(reg, "value_methods", {})
    reg.value_attrs = getattr(reg, "value_attrs", {})

    me = lambda c: me_of(T, c.f("_runner_context"))
    rec, q = (lambda c: c.f(OREC_F)), (lambda c: c.f(QUEUE_F))
    rec0, q0 = (lambda c: c.old(OREC_F)), (lambda c: c.old(QUEUE_F))
    table = lambda c: c.f("threads")
    live = lambda c: c.g("g:live")

    def in_table(tbl, k):
        return TABLE.opt.is_some(z3.Select(tbl, k))

    def key_is_id(tbl):
        k = z3.Const(fresh_name("kk"), ID.sort())
        e = TABLE.opt.val(z3.Select(tbl, k))
        return z3.ForAll([k], z3.Implies(in_table(tbl, k), z3.And(T.Invocation.get(TI.get(e, "invocation"), "invocation_id") == k,
                                                                  thread_target(TI.get(e, "thread")) == k)))
    sh.invariants = [("table-key-is-the-id-of-the-entry's-invocation-and-of-its-thread's-target", lambda c: key_is_id(c.f("threads")))]

    def all_tracked(c, tbl=None, r=None, qq=None):
        k = z3.Const(fresh_name("tk"), ID.sort())
        tbl = table(c) if tbl is None else tbl
        return z3.ForAll([k], z3.Implies(in_table(tbl, k), tracked(T, rec(c) if r is None else r, q(c) if qq is None else qq, k, me(c))))

    def all_done(c, S=None):
        k = z3.Const(fresh_name("dk"), ID.sort())
        member = in_table(table(c), k) if S is None else z3.Select(S, k)
        return z3.ForAll([k], z3.Implies(member, done(T, rec(c), q(c), k, me(c))))

    def inv_a(c, extra=None):
        """every invocation held by this runner is in its table (so that stopping reaches it)"""
        i = z3.Const(fresh_name("ai"), ID.sort())
        body = in_table(table(c), i)
        if extra is not None:
            body = z3.Or(body, extra(i))
        return z3.ForAll([i], z3.Implies(held_me(T, rec(c), i, me(c)), body))

    def live_in_table(c):
        i = z3.Const(fresh_name("li"), ID.sort())
        return z3.ForAll([i], z3.Implies(z3.Select(live(c), i), in_table(table(c), i)))
    wellformed = [("runner-has-an-id", lambda c: z3.Length(me(c)) > 0), ("stored-owners-ok", lambda c: owners_ok(T, rec(c))),
                  ("queue-counts-nonnegative", lambda c: bag_nonneg(q(c)))]
    wf_post = [("stored-owners-ok", lambda c: owners_ok(T, rec(c))), ("queue-counts-nonnegative", lambda c: bag_nonneg(q(c)))]
    ENV_FRAME = ["app.state_backend.stored"]
    WORLD_FRAME = ENV_FRAME + [O + REC, "app.state_backend.hist", O + "blocking_control.waited", O + "blocking_control.edges_to", O + "purge_set", QUEUE_F]

    def world_inv(r, qq, stored, waited):
        i = z3.Const(fresh_name("wi"), ID.sort())
        return z3.And(owners_ok(T, r), bag_nonneg(qq), glue.registered_are_stored(T, r, stored), glue.queued_are_registered(T, r, qq),
                      glue.Jall(T, r, qq), z3.ForAll([i], z3.Implies(z3.Select(waited, i), known(T, r, i))))
    from pyvc.types import BagT
    # the world invariants are kept opaque (one predicate symbol) and unfolded only where a callee needs their content
    wi_pred = z3.Function("world_invariants", MapT(ID, T.Record).sort(), BagT(ID).sort(), SID.sort(), SID.sort(), z3.BoolSort())
    wi_terms = lambda c: (rec(c), q(c), c.f("app.state_backend.stored"), c.f(O + "blocking_control.waited"))
    WI = lambda c: wi_pred(*wi_terms(c))

    def unfold_wi(eng, st):
        """an instance of the definition of the predicate for the current world (sound: definitional)"""
        from pyvc.engine import Ctx
        c = Ctx(eng, st, eng.self_ref, st.ghost.get("$args", {}))
        x = wi_terms(c)
        st.assume(wi_pred(*x) == world_inv(*x))

    # ---- the environment step: task threads act between two effectful steps of the loop thread
    def env_step(eng, st, label=""):
        root = eng.self_ref
        app = eng.heap_read(st, root, "app")
        orch, broker = eng.heap_read(st, app, "orchestrator"), eng.heap_read(st, app, "broker")
        r1, q1 = eng.heap_read(st, orch, "rec"), eng.heap_read(st, broker, "queue")
        r2, q2 = mk_fresh(r1.ty, "env.rec"), mk_fresh(q1.ty, "env.queue")
        m = me_of(T, eng.heap_read(st, root, "_runner_context").term)
        lv = st.ghost["g:live"].term
        st.assume(rely(T, r1.term, q1.term, r2.term, q2.term, m))
        st.assume(z3.And(owners_ok(T, r2.term), bag_nonneg(q2.term)))
        eng.heap_write(st, orch, "rec", r2)
        eng.heap_write(st, broker, "queue", q2)
        # children registered by task bodies: stored invocations and the wait graph grow; the world invariants that every glue
        # operation is proved to keep (C03 no-stranding, registered => stored, queued => registered) hold for what they leave
        sb, bc = eng.heap_read(st, app, "state_backend"), eng.heap_read(st, orch, "blocking_control")
        for ref, fld in ((sb, "stored"), (bc, "waited"), (bc, "edges_to")):
            eng.heap_write(st, ref, fld, mk_fresh(eng.heap_read(st, ref, fld).ty, "env." + fld))
        st.assume(wi_pred(r2.term, q2.term, eng.heap_read(st, sb, "stored").term, eng.heap_read(st, bc, "waited").term))
        # a stop request (signal handler, another thread) may arrive at any moment: the flag only ever goes down
        run1 = eng.heap_read(st, root, "running")
        run2 = mk_fresh(BOOL, "env.running")
        st.assume(z3.Implies(run2.term, run1.term))
        eng.heap_write(st, root, "running", run2)

    def set_live(st, i, on):
        st.ghost["g:live"] = Val(z3.Store(st.ghost["g:live"].term, i, on), SID)

    # ---- abstract threads
    def h_thread(eng, st, recv, args, kwargs):
        tgt = kwargs.get("target")
        t = mk_fresh(THREAD, "thread")
        from pyvc.values import BoundMeth
        if isinstance(tgt, BoundMeth) and isinstance(tgt.recv, Val) and tgt.name == "run" and tgt.recv.ty is T.Invocation:
            st.assume(thread_target(t.term) == T.Invocation.get(tgt.recv.term, "invocation_id"))
            st.events.append({"ev": "thread-created", "thread": t, "target": tgt.recv, "args": kwargs.get("args")})
        else:
            st.events.append({"ev": "thread-created", "thread": t, "target": None})
        return [(OK, st, t)]
    for key in ("threading:Thread", f"{TR}:threading.Thread"):
        reg.add(Contract(key=key, handler=h_thread, assumed=True, note="threading.Thread(target=invocation.run, ...): a new, not yet started thread that will run that invocation"))

    def t_start(eng, st, recv, a, kw):
        ok, fail = st.fork(), st.fork()
        set_live(ok, thread_target(recv.term), True)
        ok.events.append({"ev": "thread-started", "thread": recv})
        env_step(eng, ok)
        fail.trail.append("thread.start=RuntimeError")
        return [(OK, ok, NONE), (RAISE, fail, ExcVal("RuntimeError", exact=True))]

    def t_is_alive(eng, st, recv, a, kw):
        env_step(eng, st)
        yes, no = st.fork(), st.fork()
        yes.trail.append("is_alive=T")
        no.trail.append("is_alive=F")
        set_live(no, thread_target(recv.term), False)          # a finished thread takes no further step
        return [(OK, yes, boolval(True)), (OK, no, boolval(False))]

    def t_join(eng, st, recv, a, kw):
        i = thread_target(recv.term)
        waiting = eng.heap_read(st, eng.self_ref, "waiting_invocation_ids")
        # join() returns only when the task body returns: a body blocked on the result of a child that nobody will run never does
        eng.oblige(st.fork(), z3.Not(z3.And(z3.Select(st.ghost["g:live"].term, i), z3.Select(waiting.term, i))),
                   "termination:join:the-joined-thread-is-not-blocked-on-a-child-that-only-this-stopped-runner-could-run", "requires")
        env_step(eng, st)
        set_live(st, i, False)
        return [(OK, st, NONE)]
    reg.value_methods[("Thread", "start")] = t_start
    reg.value_methods[("Thread", "is_alive")] = t_is_alive
    reg.value_methods[("Thread", "join")] = t_join
    reg.value_attrs[("Thread", "name")] = lambda eng, st, base: mk_fresh(STR, "thread_name")

    out = []
    # ---- reroute_invocations, total for the one-id sets the runners pass (the partial contract of glue.py demands the edge)
    RR_FRAME = [REC, glue.HIST, glue.WAITED, glue.EDGES, glue.PURGE, QUEUE]
    SINGLE = z3.Function("the_single_id", SID.sort(), ID.sort())
    _ax = z3.Const("ax_i", ID.sort())
    reg.axioms = getattr(reg, "axioms", []) + [
        z3.ForAll([_ax], T.Invocation.get(T.inv_of(_ax), "invocation_id") == _ax),     # the stored invocation of an id carries that id
        z3.ForAll([_ax], SINGLE(z3.Store(SID.empty(), _ax, True)) == _ax)]   # definition of "the element of a one-id set"

    def single(c):
        S = c.arg("invocations_to_reroute")
        return S == z3.Store(SID.empty(), SINGLE(S), True)
    rid = lambda c: SINGLE(c.arg("invocations_to_reroute"))
    rcell = lambda c: z3.Select(c.old(REC), rid(c))
    rctx = lambda c: OSTR.some(me_of(T, c.arg("runner_ctx")))
    r_err = lambda c: spec_step_error(T, rcell(c), T.S("REROUTED"), rctx(c))

    def r_no_edge(c):
        from .common import spec_edge
        return z3.Not(spec_edge(T, OST.some(T.Record.get(Opt(T.Record).val(rcell(c)), "status")), T.S("REROUTED")))
    unchanged = [("nothing-changed", lambda c: z3.And(c.f(REC) == c.old(REC), c.f(QUEUE) == c.old(QUEUE)))]
    reroute = Contract(
        key=f"{BO}:BaseOrchestrator.reroute_invocations", shape="Orchestrator", params={"invocations_to_reroute": SID, "runner_ctx": T.RunnerCtx},
        requires=[("one-id", single), ("runner-context-has-an-id", lambda c: glue.ctx_ok(T, c)), ("stored-owners-ok", lambda c: owners_ok(T, c.f(REC))),
                  ("queue-counts-nonnegative", lambda c: bag_nonneg(c.f(QUEUE)))],
        frame=RR_FRAME,
        loops={0: LoopSpec(inv=[
            ("nothing-done-before-the-one-id", lambda c: z3.Implies(z3.Not(z3.Select(c.x("seen"), rid(c))), z3.And(c.f(REC) == c.old(REC), c.f(QUEUE) == c.old(QUEUE)))),
            ("the-one-id-REROUTED-unowned-queued-others-untouched", lambda c: z3.Implies(z3.Select(c.x("seen"), rid(c)), z3.And(
                rerouted_one(c), Opt(T.Record).is_some(rcell(c)), z3.Not(r_err(c))))),
            ("owners-ok", lambda c: owners_ok(T, c.f(REC))), ("bag-nonneg", lambda c: bag_nonneg(c.f(QUEUE))),
        ])},
        cases=[
            Case("unknown-id", when=lambda c: Opt(T.Record).is_none(rcell(c)), raises="KeyError", exact=True, ensures=unchanged),
            Case("refused-no-such-edge", when=lambda c: z3.And(Opt(T.Record).is_some(rcell(c)), r_err(c), r_no_edge(c)), raises="InvocationStatusTransitionError",
                 exact=True, ensures=unchanged,
                 exc_fields={"from_status": lambda c: Val(OST.some(T.Record.get(Opt(T.Record).val(rcell(c)), "status")), OST)}),
            Case("refused-not-the-owner", when=lambda c: z3.And(Opt(T.Record).is_some(rcell(c)), r_err(c), z3.Not(r_no_edge(c))),
                 raises="InvocationStatusOwnershipError", exact=True, ensures=unchanged),
            Case("rerouted", when=lambda c: z3.And(Opt(T.Record).is_some(rcell(c)), z3.Not(r_err(c))), ensures=[
                ("the-id-is-REROUTED-unowned-and-queued-once-more-others-untouched", lambda c: rerouted_one(c)),
                ("owners-ok", lambda c: owners_ok(T, c.f(REC))), ("bag-nonneg", lambda c: bag_nonneg(c.f(QUEUE)))]),
        ], properties=[PID], note="total version (refusals included) of the reroute contract for one-id sets, verified against the same body")

    def rerouted_one(c):
        i = rid(c)
        o = z3.Const(fresh_name("ro"), ID.sort())
        return z3.And(known(T, c.f(REC), i), status_of(T, c.f(REC), i) == T.S("REROUTED"), OSTR.is_none(owner_of(T, c.f(REC), i)),
                      z3.Select(c.f(QUEUE), i) == z3.Select(c.old(QUEUE), i) + 1,
                      z3.ForAll([o], z3.Implies(o != i, z3.And(z3.Select(c.f(REC), o) == z3.Select(c.old(REC), o), z3.Select(c.f(QUEUE), o) == z3.Select(c.old(QUEUE), o)))))
    reg.add(reroute)
    out.append(reroute)

    # ---- _kill_and_reroute
    kid = lambda c: c.arg("invocation_id")
    others_env = lambda c: rely(T, rec0(c), q0(c), rec(c), q(c), me(c), except_id=kid(c))
    def no_new_claims(c):
        i = z3.Const(fresh_name("nc"), ID.sort())
        return z3.ForAll([i], z3.Implies(held_me(T, rec(c), i, me(c)), held_me(T, rec0(c), i, me(c))))
    flag_only_down = ("the-running-flag-only-ever-goes-down", lambda c: z3.Implies(c.f("running"), c.old("running")))
    ORC = Opt(T.RunnerCtx)
    acting = lambda c: z3.If(ORC.is_some(c.arg("runner_ctx")), me_of(T, ORC.val(c.arg("runner_ctx"))), me(c))
    kill = Contract(
        key=f"{BR}:BaseRunner._kill_and_reroute", shape="ThreadRunner", params={"invocation_id": ID, "runner_ctx": Opt(T.RunnerCtx)},
        defaults={"runner_ctx": lambda eng, st: NONE},
        # acting for itself (thread runner) or, with an explicit context, for a worker of its own whose process is gone or is the caller
        # itself (ProcessRunner._on_stop after kill+join, the finally block of a persistent worker): the invocation is then held under that id
        requires=wellformed + [("the-acting-context-has-an-id", lambda c: z3.Length(acting(c)) > 0),
                               ("the-invocation-is-held-under-the-acting-id-or-already-done", lambda c: tracked(T, rec(c), q(c), kid(c), acting(c)))],
        frame=WORLD_FRAME + ["running"],
        cases=[Case("killed-and-rerouted-or-already-done", ensures=[
            ("C11:the-invocation-is-final-or-back-in-the-queue-available-and-unowned", lambda c: done(T, rec(c), q(c), kid(c), me(c))),
            ("every-other-invocation-changed-only-by-its-own-task-thread", others_env),
            ("table-untouched", lambda c: c.f("threads") == c.old("threads")),
            ("claims-nothing", no_new_claims), flag_only_down,
        ] + wf_post)], properties=[PID])
    kill.ghost_init = {"g:live": SID}
    # a status *read* is a scheduling point too: the task threads may act between a read and the write that relies on it (check-then-act)
    if variant == "C11":
        import copy as _copy
        rd = _copy.copy(reg.contracts["Orchestrator.get_invocation_status_record"])
        rd.event = True
        rd.effect_events = True
        reg.contracts["Orchestrator.get_invocation_status_record"] = rd
    kill.step_hooks = [env_step]
    reg.add(kill)
    out.append(kill)

    # ---- ThreadRunner._on_stop
    def seen_done(c):
        k = z3.Const(fresh_name("sk"), ID.sort())
        return z3.ForAll([k], z3.Implies(z3.Select(c.x("seen"), k), done(T, rec(c), q(c), k, me(c))))

    def unseen_tracked(c):
        k = z3.Const(fresh_name("uk"), ID.sort())
        return z3.ForAll([k], z3.Implies(z3.And(in_table(table(c), k), z3.Not(z3.Select(c.x("seen"), k))), tracked(T, rec(c), q(c), k, me(c))))
    on_stop = Contract(
        key=f"{TR}:ThreadRunner._on_stop", shape="ThreadRunner", params={},
        requires=wellformed + [("every-entry-of-the-table-is-an-invocation-this-runner-claimed", all_tracked)],
        frame=WORLD_FRAME + ["running"],
        loops={0: LoopSpec(modifies=["rec", "queue", "hist", "waited", "edges_to", "purge_set", "running", "stored"], inv=[
            ("entries-handled-so-far-are-final-or-requeued", seen_done),
            ("entries-not-yet-handled-are-still-the-runner's", unseen_tracked),
            ("claims-nothing", no_new_claims), flag_only_down,
        ] + wf_post)},
        cases=[Case("stopped", ensures=[
            ("C11:every-invocation-of-the-table-is-final-or-back-in-the-queue-available-and-unowned", all_done),
            ("table-untouched", lambda c: c.f("threads") == c.old("threads")),
            ("claims-nothing", no_new_claims), flag_only_down,
        ] + wf_post)], properties=[PID])
    on_stop.ghost_init = {"g:live": SID}
    on_stop.step_hooks = [env_step]
    reg.add(on_stop)
    out.append(on_stop)
    L_ = dict(locals())
    more_contracts(T, reg, G, out, L_)
    return out


def more_contracts(T, reg, G, out, L):
    """slot reclaiming, the loop iteration, stop request, run()"""
    TABLE, TI = MapT(ID, T.ThreadInfo), T.ThreadInfo
    me, rec, q, rec0, q0, table, live = (L[k] for k in ("me", "rec", "q", "rec0", "q0", "table", "live"))
    in_table, all_tracked, all_done, inv_a, live_in_table, WI = (L[k] for k in ("in_table", "all_tracked", "all_done", "inv_a", "live_in_table", "WI"))
    wellformed, wf_post, WORLD_FRAME, env_step, no_new_claims = (L[k] for k in ("wellformed", "wf_post", "WORLD_FRAME", "env_step", "no_new_claims"))
    unfold_wi = L["unfold_wi"]
    table0 = lambda c: c.old("threads")

    # ---- _reclaim_available_slots
    def kept_subset(c, new):
        k = z3.Const(fresh_name("rk"), ID.sort())
        return z3.ForAll([k], z3.Implies(in_table(new, k), z3.Select(new, k) == z3.Select(table0(c), k)))

    def dropped_not_held(c, new, seen=None):
        k = z3.Const(fresh_name("dh"), ID.sort())
        dropped = z3.And(in_table(table0(c), k), z3.Not(in_table(new, k)))
        if seen is not None:
            dropped = z3.And(dropped, z3.Select(seen, k))
        return z3.ForAll([k], z3.Implies(dropped, z3.Not(held_me(T, rec(c), k, me(c)))))

    def dropped_not_live(c, new, seen):
        k = z3.Const(fresh_name("dl"), ID.sort())
        return z3.ForAll([k], z3.Implies(z3.And(z3.Select(seen, k), z3.Not(in_table(new, k))), z3.Not(z3.Select(live(c), k))))

    def only_seen_kept(c, new, seen):
        k = z3.Const(fresh_name("os"), ID.sort())
        return z3.ForAll([k], z3.Implies(in_table(new, k), z3.Select(seen, k)))
    state_req = [("every-entry-of-the-table-is-an-invocation-this-runner-claimed", all_tracked),
                 ("every-invocation-held-by-the-runner-is-in-its-table", inv_a),
                 ("task-threads-that-may-still-act-are-in-the-table", live_in_table),
                 ("world-invariants(C03)", WI)]
    state_post = [("every-entry-of-the-table-is-an-invocation-this-runner-claimed", all_tracked),
                  ("C11:every-invocation-held-by-the-runner-is-in-its-table", inv_a),
                  ("task-threads-that-may-still-act-are-in-the-table", live_in_table),
                  ("world-invariants(C03)", WI)]
    def waiting_marks(c, seen=None, new=None):
        k = z3.Const(fresh_name("wm"), ID.sort())
        new = table(c) if new is None else new
        dropped = z3.And(in_table(table0(c), k), z3.Not(in_table(new, k)))
        if seen is not None:
            dropped = z3.And(dropped, z3.Select(seen, k))
        return z3.ForAll([k], z3.Select(c.f("waiting_invocation_ids"), k) == z3.And(z3.Select(c.old("waiting_invocation_ids"), k), z3.Not(dropped)))

    def live_not_waiting(c):
        k = z3.Const(fresh_name("ln"), ID.sort())
        return z3.Lambda([k], z3.And(in_table(table(c), k), z3.Not(z3.Select(c.f("waiting_invocation_ids"), k))))

    def slots(c):
        a, b, m = c.f("conf.min_parallel_slots"), c.f("conf.min_threads"), c.f("max_threads")
        mx = z3.If(a >= b, a, b)
        return z3.If(mx >= m, mx, m)
    reclaim = Contract(
        key=f"{TR}:ThreadRunner._reclaim_available_slots", shape="ThreadRunner", params={}, result=INT,
        requires=wellformed + state_req,
        frame=WORLD_FRAME + ["running", "threads", "waiting_invocation_ids"],
        loops={0: LoopSpec(modifies=["rec", "queue", "hist", "waited", "edges_to", "purge_set", "running", "stored", "waiting_invocation_ids"], inv=[
            ("kept-entries-are-entries-seen-so-far-unchanged", lambda c: z3.And(kept_subset(c, c.v("alive_threads")), only_seen_kept(c, c.v("alive_threads"), c.x("seen")))),
            ("a-dropped-entry's-thread-has-finished", lambda c: dropped_not_live(c, c.v("alive_threads"), c.x("seen"))),
            ("C11:a-dropped-entry's-invocation-is-not-left-PENDING-or-RUNNING-under-this-runner", lambda c: dropped_not_held(c, c.v("alive_threads"), c.x("seen"))),
        ] + [(n, f) for n, f in state_post if not n.startswith("C11")] + [
            ("claims-nothing", no_new_claims),
            ("C09:waiting-marks-of-entries-dropped-so-far-are-removed,the-others-kept", lambda c: waiting_marks(c, c.x("seen"), c.v("alive_threads"))),
            ("held-invocations-are-in-the-old-table", lambda c: z3.ForAll([z3.Const("ho", ID.sort())], z3.Implies(
                held_me(T, rec(c), z3.Const("ho", ID.sort()), me(c)), in_table(table(c), z3.Const("ho", ID.sort()))))),
        ])},
        cases=[Case("reclaimed", ensures=[
            ("the-table-only-loses-entries", lambda c: kept_subset(c, table(c))),
            ("C09:a-waiting-mark-is-removed-only-together-with-the-waiter's-own-finished-thread", waiting_marks),
            ("C09:free-slots=capacity-minus-the-live-threads-that-are-not-waiting", lambda c: c.result == slots(c) - ops.card(live_not_waiting(c), ID.sort())),
        ] + state_post + [("claims-nothing", no_new_claims)])], properties=[PID])
    if L.get("variant") == "C09":
        # the C09 view of this function: waiting marks and slot count only (the C11 clause about dropped entries is decided - and fails, F-C11-2 - in the C11 check)
        drop = lambda n: n.startswith("C11:")
        reclaim.loops[0].inv = [(n, f) for n, f in reclaim.loops[0].inv if not drop(n)]
        reclaim.cases[0].ensures = [(n, f) for n, f in reclaim.cases[0].ensures if not drop(n)]
    reclaim.local_types = {"alive_threads": TABLE}
    reclaim.ghost_init = {"g:live": SID}
    reclaim.step_hooks = [env_step]
    reg.add(reclaim)
    out.append(reclaim)

    wait_mark = Contract(
        key=f"{TR}:ThreadRunner._waiting_for_results", shape="ThreadRunner",
        params={"running_invocation_id": ID, "result_invocation_ids": Atom("IdList"), "runner_args": Atom("RunnerArgs")},
        defaults={"runner_args": lambda eng, st: NONE}, frame=["waiting_invocation_ids"],
        cases=[Case("marked", ensures=[("C09:the-waiter-is-marked-and-no-other-mark-changes", lambda c: c.f("waiting_invocation_ids") == z3.Store(
            c.old("waiting_invocation_ids"), c.arg("running_invocation_id"), True))])], properties=["C09"])
    reg.add(wait_mark)
    out.append(wait_mark)

    # ---- runner_loop_iteration: every claimed invocation gets a thread and a table entry, or is handed back
    inv_id = lambda v: T.Invocation.get(v, "invocation_id")

    def pending_yield(c, seen):
        return lambda i: z3.And(z3.Select(c.x("full"), T.inv_of(i)), z3.Not(z3.Select(seen, T.inv_of(i))))

    def drained(c):
        return z3.BoolVal(not c.st.ghost.get("$loop_broke") and "$loop_seen" not in c.st.ghost)
    iteration = Contract(
        key=f"{TR}:ThreadRunner.runner_loop_iteration", shape="ThreadRunner", params={},
        requires=wellformed + state_req,
        frame=WORLD_FRAME + ["running", "threads", "waiting_invocation_ids"],
        loops={0: LoopSpec(modifies=["rec", "queue", "hist", "waited", "edges_to", "purge_set", "running", "stored", "threads"], inv=[
            ("every-entry-of-the-table-is-an-invocation-this-runner-claimed", all_tracked),
            ("C11:held-invocations-are-in-the-table-or-still-to-be-handed-over-by-the-poll", lambda c: inv_a(c, pending_yield(c, c.x("seen")))),
            ("task-threads-that-may-still-act-are-in-the-table", live_in_table),
            ("world-invariants(C03)", WI),
            ("polled-invocations-are-the-stored-ones-of-their-ids", lambda c: z3.ForAll([z3.Const("pv", T.Invocation.sort())], z3.Implies(
                z3.Select(c.x("full"), z3.Const("pv", T.Invocation.sort())),
                z3.Const("pv", T.Invocation.sort()) == T.inv_of(inv_id(z3.Const("pv", T.Invocation.sort())))))),
            ("table-key-is-the-id-of-the-entry's-invocation-and-of-its-thread's-target", lambda c: L["key_is_id"](table(c))),
            ("polled-invocations-are-the-runner's(claimed-by-the-poll,then-only-their-own-thread-acts)", lambda c: z3.ForAll(
                [z3.Const("pt", T.Invocation.sort())], z3.Implies(z3.Select(c.x("full"), z3.Const("pt", T.Invocation.sort())),
                                                                 tracked(T, rec(c), q(c), inv_id(z3.Const("pt", T.Invocation.sort())), me(c))))),
            ("polled-and-not-yet-started-invocations-are-registered", lambda c: z3.ForAll([z3.Const("pk", T.Invocation.sort())], z3.Implies(
                z3.Select(c.x("full"), z3.Const("pk", T.Invocation.sort())), known(T, rec(c), inv_id(z3.Const("pk", T.Invocation.sort())))))),
        ])},
        cases=[
            Case("iteration", ensures=state_post + [("the-poll-is-drained(every-claimed-invocation-is-taken-over)", drained)]),
            # thread start failed and, meanwhile, an older thread of the same invocation moved it: the hand-back is refused
            Case("hand-back-refused", raises="InvocationStatusError", ensures=[(n, f) for n, f in state_post if not n.startswith("C11")]),
        ], properties=[PID])
    def with_unfolding(key):
        def h(eng, st, recv, args, kwargs):
            unfold_wi(eng, st)
            res = eng.apply_contract(st, reg.contracts[key], recv, args, kwargs)
            for _k, s2, _v in res:
                unfold_wi(eng, s2)
            return res
        return h
    reg.add(Contract(key="C11.poll", handler=with_unfolding(f"{BO}:BaseOrchestrator.get_invocations_to_run"), assumed=True,
                     note="get_invocations_to_run under its glue contract, with the opaque world-invariant predicate unfolded before and after"))
    reg.add(Contract(key="C11.hand-back", handler=with_unfolding(f"{BO}:BaseOrchestrator.reroute_invocations"), assumed=True))
    iteration.call_overrides = {"get_invocations_to_run": "C11.poll", "reroute_invocations": "C11.hand-back"}
    iteration.ghost_init = {"g:live": SID}
    iteration.step_hooks = [env_step]
    reg.add(iteration)
    out.append(iteration)

    # ---- BaseRunner.on_stop / stop_runner_loop / run
    key_is_id = L["key_is_id"]
    stopped = ("the-running-flag-is-down", lambda c: z3.Not(c.f("running")))
    base_on_stop = Contract(
        key=f"{BR}:BaseRunner.on_stop", shape="ThreadRunner", params={},
        requires=wellformed + [("every-entry-of-the-table-is-an-invocation-this-runner-claimed", all_tracked)],
        frame=WORLD_FRAME + ["running"],
        cases=[Case("stopped", ensures=[
            ("C11:every-invocation-of-the-table-is-final-or-back-in-the-queue-in-an-available-status", all_done), stopped,
            ("table-untouched", lambda c: c.f("threads") == c.old("threads")), ("claims-nothing", no_new_claims)] + wf_post)], properties=[PID])
    base_on_stop.ghost_init = {"g:live": SID}
    base_on_stop.step_hooks = [env_step]
    reg.add(base_on_stop)
    out.append(base_on_stop)

    reg.add(Contract(key=f"{TR}:ThreadRunner._log_shutdown", shape="ThreadRunner", params={"signum": Opt(INT)}, frame=[], assumed=True, check_invariants=False,
                     effect_events=False, cases=[Case("logged"), Case("diagnostics-failed", raises="Exception")],
                     note="diagnostics only (reads the table, writes the log); may fail"))
    reg.add(Contract(key=f"{BR}:classify_signal", params={"signum": Opt(INT)}, result=STR, assumed=True, effect_events=False, cases=[Case("name")]))
    reg.add(Contract(key="pynenc.runner.shutdown_diagnostics:classify_signal", params={"signum": Opt(INT)}, result=STR, assumed=True, effect_events=False,
                     cases=[Case("name")]))
    stop_req = Contract(
        key=f"{BR}:BaseRunner.stop_runner_loop", shape="ThreadRunner", params={"signum": Opt(INT), "frame": Opt(Atom("Frame"))},
        defaults={"signum": lambda eng, st: NONE, "frame": lambda eng, st: NONE}, frame=["running", "_shutdown_signum"],
        cases=[Case("requested", ensures=[("C11:a-stop-request-always-takes-the-running-flag-down(also-when-diagnostics-fail)", lambda c: z3.Not(c.f("running")))])],
        properties=[PID])
    reg.add(stop_req)
    out.append(stop_req)

    svc_post = [(n, f) for n, f in state_post] + [("table-untouched", lambda c: c.f("threads") == c.old("threads"))]
    reg.add(Contract(key=f"{BR}:BaseRunner._check_atomic_services", shape="ThreadRunner", params={}, frame=WORLD_FRAME + ["_last_atomic_service_check_time"],
                     assumed=True, check_invariants=False, cases=[Case("checked", ensures=svc_post), Case("unexpected-error", raises="Exception", ensures=svc_post)],
                     note="trigger processing and recovery (C04, C12, C13) do not touch invocations held by this live runner and keep the world invariants"))
    reg.add(Contract(key=f"{BR}:BaseRunner.on_start", shape="ThreadRunner", params={}, frame=["running", "threads", "waiting_invocation_ids", "max_threads"],
                     assumed=True, check_invariants=False, effect_events=False,
                     cases=[Case("started", ensures=[("running", lambda c: c.f("running")), ("empty-table", lambda c: c.f("threads") == TABLE.empty()),
                                                     ("nobody-waits", lambda c: c.f("waiting_invocation_ids") == SID.empty())])],
                     note="installs signal handlers, imports trigger modules, sets running and calls _on_start (verified separately)"))

    def nothing_held(c):
        i = z3.Const(fresh_name("nh"), ID.sort())
        return z3.ForAll([i], z3.Not(held_me(T, rec(c), i, me(c))))
    loop_inv = [(n, f) for n, f in state_post] + [("table-key-is-the-id-of-the-entry's-invocation-and-of-its-thread's-target", lambda c: key_is_id(table(c)))] + wf_post
    run = Contract(
        key=f"{BR}:BaseRunner.run", shape="ThreadRunner", params={},
        requires=wellformed + [("world-invariants(C03)", WI), ("a-runner-that-has-not-started-holds-nothing", nothing_held),
                               ("no-task-thread-yet", lambda c: live(c) == SID.empty())],
        frame=WORLD_FRAME + ["running", "threads", "waiting_invocation_ids", "max_threads", "_last_atomic_service_check_time"],
        loops={0: LoopSpec(modifies=["rec", "queue", "hist", "waited", "edges_to", "purge_set", "running", "stored", "threads", "waiting_invocation_ids",
                                     "_last_atomic_service_check_time"], inv=loop_inv)},
        cases=[
            Case("stopped", ensures=[
                ("C11:nothing-remains-PENDING-or-RUNNING-under-the-stopped-runner", nothing_held),
                ("C11:every-invocation-the-runner-still-tracked-is-final-or-back-in-the-queue-in-an-available-status", all_done), stopped]),
            Case("loop-failed", raises="Exception", ensures=[
                ("C11:every-invocation-the-runner-still-tracked-is-final-or-back-in-the-queue-in-an-available-status", all_done), stopped]),
        ], properties=[PID])
    run.ghost_init = {"g:live": SID}
    run.step_hooks = [env_step]
    reg.add(run)
    out.append(run)

    def h_cpu(eng, st, recv, args, kwargs):
        v = mk_fresh(INT, "cpu_count")
        st.assume(v.term >= 1)
        return [(OK, st, v)]
    reg.add(Contract(key="multiprocessing:cpu_count", handler=h_cpu, assumed=True, note="number of CPUs: a positive integer"))
    on_start = Contract(
        key=f"{TR}:ThreadRunner._on_start", shape="ThreadRunner", params={}, frame=["threads", "waiting_invocation_ids", "max_threads"],
        requires=[("configured-thread-limit-is-not-negative", lambda c: c.f("conf.max_threads") >= 0)],
        cases=[Case("reset", ensures=[("empty-table", lambda c: c.f("threads") == TABLE.empty()),
                                      ("nobody-waits", lambda c: c.f("waiting_invocation_ids") == SID.empty()),
                                      ("C09:capacity-at-least-one", lambda c: c.f("max_threads") >= 1)])], properties=[PID, "C09"])
    reg.add(on_start)
    out.append(on_start)


PHASES = ["queued", "running", "finished", "retried", "fault", "pause", "waiting-child", "waiting-running-child"]


def stop_scenario(backend: str, phases, reclaim: bool, timeout=12.0):
    """One run of the real ThreadRunner, driven step by step: bring one invocation per entry of `phases` into that phase, optionally let the
    loop reclaim slots once more (as its next iteration would), then stop.  Returns (hung, {name: (status, owner, queued)})."""
    import threading
    import time as _t
    from pynenc.runner.thread_runner import ThreadRunner
    from . import verif_tasks as vt
    from .realapp import real_app
    with real_app(backend) as app:
        task = app.task(max_retries=3, retry_for=(vt.Retriable,))(vt.gated)
        vt.CHILD_TASK[0] = app.task(vt.child_of)
        vt.GATED_TASK[0] = task
        runner = ThreadRunner(app)
        app.runner = runner
        app.conf.runner_loop_sleep_time_sec = 0.0
        runner.conf.runner_loop_sleep_time_sec = 0.0
        runner.conf.invocation_wait_results_sleep_time_sec = 0.01
        import warnings
        with warnings.catch_warnings():
            warnings.simplefilter("ignore")
            runner.on_start()
        names = [f"{ph}#{k}" for k, ph in enumerate(phases)]
        for n in names:
            vt.GATES[n], vt.ENTERED[n] = threading.Event(), threading.Event()
            vt.MODES[n] = {"retried": "retry", "pause": "pause", "waiting-child": "child", "waiting-running-child": "child-gated"}.get(n.split("#")[0], "ok")
        invs = {}
        started = [n for n in names if not n.startswith("queued")]
        for n in started:
            invs[n] = task(n)
        fault_ids = {invs[n].invocation_id for n in started if n.startswith("fault")}
        real_set_result = app.orchestrator.set_invocation_result

        def faulty(invocation, result, runner_ctx):
            if invocation.invocation_id in fault_ids:
                raise OSError("injected storage fault while storing the result")
            return real_set_result(invocation, result, runner_ctx)
        real_set_exc = app.orchestrator.set_invocation_exception

        def faulty_exc(invocation, exc, runner_ctx):
            if invocation.invocation_id in fault_ids:
                raise OSError("injected storage fault while storing the exception")
            return real_set_exc(invocation, exc, runner_ctx)
        app.orchestrator.set_invocation_result = faulty
        app.orchestrator.set_invocation_exception = faulty_exc
        old_hook = threading.excepthook
        threading.excepthook = lambda a: None                    # injected faults end task threads: no traceback noise
        try:
            runner.runner_loop_iteration()                      # polls and starts one thread per routed invocation
            for n in started:
                vt.ENTERED[n].wait(5)
            for n in names:
                if n.startswith("queued"):
                    invs[n] = task(n)                            # routed after the poll: never claimed
            deadline = _t.time() + 5
            for n in started:
                ph = n.split("#")[0]
                if ph in ("finished", "retried", "fault", "pause", "waiting-child", "waiting-running-child"):
                    vt.GATES[n].set()
                want = {"finished": "SUCCESS", "retried": "RETRY"}.get(ph)
                while want and _t.time() < deadline and app.orchestrator.get_invocation_status_record(invs[n].invocation_id).status.name != want:
                    _t.sleep(0.005)
                if ph in ("fault", "pause", "finished", "retried"):
                    th = runner.threads.get(invs[n].invocation_id)
                    if th is not None:
                        th.thread.join(5)
                if ph in ("waiting-child", "waiting-running-child"):
                    while _t.time() < deadline and invs[n].invocation_id not in runner.waiting_invocation_ids:
                        _t.sleep(0.005)
                if ph == "waiting-running-child":        # the loop polls again and starts the child in the same runner; the child then blocks on its own gate
                    vt.GATES[n + ".child"], vt.ENTERED[n + ".child"] = threading.Event(), threading.Event()
                    runner.runner_loop_iteration()
                    vt.ENTERED[n + ".child"].wait(5)
            if reclaim:
                runner._reclaim_available_slots()
            runner.stop_runner_loop()
            stopper = threading.Thread(target=runner.on_stop, daemon=True)
            stopper.start()
            _t.sleep(0.05)
            for n in list(vt.GATES):
                vt.GATES[n].set()                                # killed bodies return (Python threads cannot be interrupted)
            stopper.join(timeout)
            hung = stopper.is_alive()
            if hung:                                             # run the child by hand so that the blocked parent returns and the scenario ends
                from pynenc.invocation.status import InvocationStatus
                for cid in list(app.orchestrator.get_existing_invocations(vt.CHILD_TASK[0])):
                    if not app.orchestrator.get_invocation_status_record(cid).status.is_final():
                        app.orchestrator.set_invocation_status(cid, InvocationStatus.PENDING, runner.runner_context)
                        app.state_backend.get_invocation(cid).run(runner.runner_context)
                stopper.join(5)
            queued = []
            while (i := app.broker.retrieve_invocation()) is not None:
                queued.append(i)
            obs = {}
            for n in names:
                r = app.orchestrator.get_invocation_status_record(invs[n].invocation_id)
                obs[n] = (r.status.name, r.runner_id, invs[n].invocation_id in queued)
            return hung, obs, runner.runner_id
        finally:
            for n in names:
                vt.GATES[n].set()
            app.orchestrator.set_invocation_result = real_set_result
            app.orchestrator.set_invocation_exception = real_set_exc
            threading.excepthook = old_hook


def stop_in_every_phase(ctx: RunCtx) -> BoundedResult:
    """Bounded stand-in on the real ThreadRunner (in-memory and SQLite stacks)."""
    import itertools
    thorough = ctx.tier == "thorough"
    res = BoundedResult("stop_in_every_phase", "real ThreadRunner driven step by step; one invocation per phase in {queued, running, finished, retried, "
                        "dead after a storage fault, dead after WorkflowPauseError, waiting on a queued child}, all single phases and " +
                        ("all pairs" if thorough else "a fixed selection of pairs") + ", with and without one more slot reclaim before the stop; "
                        "after on_stop every invocation must be final, or available + unowned + queued")
    combos = [(p,) for p in PHASES]
    pairs = list(itertools.combinations_with_replacement([p for p in PHASES if p != "waiting-child"], 2))
    combos += pairs if thorough else [("running", "queued"), ("running", "finished"), ("retried", "running"), ("running", "running"), ("fault", "running")]
    backends = ("mem", "sqlite") if thorough else ("mem",)
    n = 0
    final = {"SUCCESS", "FAILED", "CONCURRENCY_CONTROLLED_FINAL"}
    avail = {"REGISTERED", "REROUTED", "RETRY"}
    for backend in backends:
        for phases in combos:
            for reclaim in (False, True):
                n += 1
                try:
                    hung, obs, rid = stop_scenario(backend, phases, reclaim)
                except Exception as e:      # a scenario that cannot be driven is a checker problem, not a verdict
                    res.failures.append({"what": f"{backend} {phases} reclaim={reclaim}: scenario error {type(e).__name__}: {e}", "finding_key": "scenario-error"})
                    continue
                if hung:
                    key = "hang:waiting-child" if "waiting-child" in phases else "hang:" + "+".join(phases)       # (only the queued-child case is the known finding)
                    res.failures.append({"what": f"{backend} phases={phases} reclaim={reclaim}: on_stop() did not return within 12 s (" +
                                                 ("join of a thread that waits on a child nobody runs" if "waiting-child" in phases else "a joined thread never ends") + ")",
                                         "finding_key": key, "input": {"backend": backend, "phases": list(phases), "reclaim": reclaim}})
                for name, (status, owner, queued) in obs.items():
                    ok = status in final or (status in avail and queued and (owner is None or status == "REGISTERED"))
                    if not ok:
                        ph = name.split("#")[0]
                        # the waiting-running-child phase runs one more loop iteration (to start the child), i.e. one more slot reclaim, before the stop
                        reclaimed = reclaim or "waiting-running-child" in phases
                        key = f"left-held:dead-thread-dropped-by-reclaim:{ph}" if (ph in ("fault", "pause") and reclaimed) else \
                            ("after-hang:" + ph if hung else f"left:{ph}:reclaim={reclaim}")
                        res.failures.append({"what": f"{backend} phases={phases} reclaim={reclaim}: {name} is {status} owner={'the stopped runner' if owner == rid else owner} "
                                                     f"queued={queued} after the stop", "finding_key": key,
                                             "input": {"backend": backend, "phases": list(phases), "reclaim": reclaim}})
    res.cases = n
    res.distinct = n
    res.samples = [{"phases": ["running", "queued"], "reclaim": False}]
    return res


def build(ctx: RunCtx) -> Prop:
    T, reg, G = setup(ctx)
    verify = contracts(T, reg, G)
    return Prop(
        pid=PID, title="stopping the thread runner: every invocation of its table ends final or REROUTED/available, unowned and queued, under "
                       "arbitrary interleaving with the task threads (rely/guarantee over the lifecycle spec)",
        level="other", technique="contract-based deductive verification (AST->z3 VCs) of the loop thread with the task threads as a rely relation proved closed under the lifecycle spec",
        registry=reg, verify=verify, lemmas=[rely_lemmas, signal_handlers_outlive_the_sweep], bounded=[stop_in_every_phase],
        # what the rely relation takes from the task threads' own operations (a refused retry / reroute leaves queue and counter alone, i.e. the
        # status write comes before the re-queue: a poller never finds the queue entry of an invocation that is still RUNNING)
        parts=[("contracts.c03", ["pynenc.orchestrator.base_orchestrator:BaseOrchestrator.set_invocation_retry",
                                  "pynenc.orchestrator.base_orchestrator:BaseOrchestrator.reroute_invocations"])],
        assumptions=GLUE_ASSUMPTIONS + [
            "a task thread requests status changes for its own invocation only (DistributedInvocation.run) and otherwise registers new invocations",
            "set_invocation_retry / reroute_invocations of a task thread are atomic for the loop thread (status and queue change together); their order "
            "of effects (status write first, a refused request leaves queue and counter alone) is verified here under the C03 registry",
            "threading.Thread objects are abstract: start() either raises RuntimeError or starts the thread, is_alive()/join() as documented"],
        trusted_base=GLUE_TRUSTED,
        not_decided="process-based runners are covered by C14 (pool) only; faults inside get_invocations_to_run are not modelled.",
        min_obligations=10,
    )
