"""C12 — global services are authorised for at most one runner at any instant (real arithmetic),
margin separation, non-empty window for every runner, single runner always."""
from __future__ import annotations

import itertools
import math

import z3

from pyvc.contract import Case, Contract, Registry, Shape
from pyvc.prop import BoundedResult, Prop, RunCtx
from pyvc.solve import Obligation
from pyvc.types import BOOL, DATETIME, INT, REAL, STR, Opt, Record, SeqT
from pyvc.values import fresh_name

from .common import Types, base_registry

PID = "C12"
AS = "pynenc.orchestrator.atomic_service"


def mk_types():
    RI = Record("ActiveRunnerInfo", [("runner_id", STR), ("creation_time", DATETIME), ("last_heartbeat", DATETIME),
                                     ("allow_to_run_atomic_service", BOOL), ("last_service_start", Opt(DATETIME)),
                                     ("last_service_end", Opt(DATETIME))])
    RI.pycls = (AS, "ActiveRunnerInfo")
    return RI


def distinct_ids(RI, runners):
    j, k = z3.Int(fresh_name("j")), z3.Int(fresh_name("k"))
    n = z3.Length(runners)
    return z3.ForAll([j, k], z3.Implies(z3.And(0 <= j, j < k, k < n), RI.get(runners[j], "runner_id") != RI.get(runners[k], "runner_id")))


def window_end(s, m60, start):
    """documented mechanism: margin subtracted from the slot, half-slot fallback when it does not fit"""
    return z3.If(m60 < s, start + s - m60, start + s / 2)


def contracts(reg: Registry):
    RI = mk_types()
    reg.records[f"{AS}:ActiveRunnerInfo"] = RI
    RS = SeqT(RI)
    OINT = Opt(INT)

    def rid_at(c, idx, name="active_runners"):
        return RI.get(c.arg(name)[idx], "runner_id")

    position = Contract(
        key=f"{AS}:calculate_runner_position", params={"runner_id": STR, "active_runners": RS}, result=OINT,
        cases=[Case("first-match-or-none", ensures=[
            ("none-iff-absent", lambda c: OINT.is_none(c.result) == z3.ForAll(
                [z3.Int("j")], z3.Implies(z3.And(z3.Int("j") >= 0, z3.Int("j") < z3.Length(c.arg("active_runners"))),
                                          rid_at(c, z3.Int("j")) != c.arg("runner_id")))),
            ("position-in-range-and-matches", lambda c: z3.Implies(OINT.is_some(c.result), z3.And(
                OINT.val(c.result) >= 0, OINT.val(c.result) < z3.Length(c.arg("active_runners")),
                rid_at(c, OINT.val(c.result)) == c.arg("runner_id")))),
        ])], properties=[PID])

    reg.add(Contract(key=f"{AS}:validate_execution_time",
                     params={"execution_duration": REAL, "allocated_slot_size": REAL, "runner_id": STR},
                     cases=[Case("logs-only")], assumed=True, effect_events=False,
                     note="only logs a warning; no state under contract is touched"))

    def slot(c):
        return c.arg("service_interval_minutes") * 60 / z3.ToReal(c.arg("total_runners"))

    ORS = Opt(RS)
    time_slot = Contract(
        key=f"{AS}:calculate_time_slot",
        params={"runner_position": INT, "total_runners": INT, "service_interval_minutes": REAL, "spread_margin_minutes": REAL,
                "active_runners": ORS},
        defaults={"active_runners": lambda eng, st: __import__("pyvc.values", fromlist=["NONE"]).NONE},
        result=[REAL, REAL],
        requires=[
            ("runner-count-positive", lambda c: c.arg("total_runners") >= 1),
            ("position-in-range", lambda c: z3.And(c.arg("runner_position") >= 0, c.arg("runner_position") < c.arg("total_runners"))),
            ("interval-positive-margin-nonnegative", lambda c: z3.And(c.arg("service_interval_minutes") > 0, c.arg("spread_margin_minutes") >= 0)),
            ("history-list-matches-count", lambda c: z3.Implies(ORS.is_some(c.arg("active_runners")),
                                                                z3.Length(ORS.val(c.arg("active_runners"))) == c.arg("total_runners"))),
        ],
        cases=[Case("slot", ensures=[
            ("start-is-position-times-slot", lambda c: c.result.items[0].term == z3.ToReal(c.arg("runner_position")) * slot(c)),
            ("end-is-slot-minus-margin-or-half-slot", lambda c: c.result.items[1].term ==
             window_end(slot(c), c.arg("spread_margin_minutes") * 60, z3.ToReal(c.arg("runner_position")) * slot(c))),
        ])], properties=[PID])

    in_slot = Contract(
        key=f"{AS}:is_runner_in_time_slot",
        params={"current_time": REAL, "service_interval_minutes": REAL, "start_time": REAL, "end_time": REAL}, result=BOOL,
        requires=[("interval-positive", lambda c: c.arg("service_interval_minutes") > 0)],
        cases=[Case("modulo-window", ensures=[
            ("inside-window-of-the-cycle", lambda c: _exists_cycle(c, lambda r: c.result == z3.And(c.arg("start_time") <= r, r < c.arg("end_time")))),
        ])], properties=[PID])

    def n_of(c):
        return z3.Length(c.arg("active_runners"))

    def cyc(c):
        return c.arg("service_interval_minutes") * 60

    def s_of(c):
        return cyc(c) / z3.ToReal(n_of(c))

    def e4(c):
        from pyvc import ops
        p = z3.Int(fresh_name("p"))
        r = ops.fmod(c.arg("current_time"), cyc(c))   # the instant's offset in its cycle: t = k*cycle + r, 0 <= r < cycle
        m60 = c.arg("spread_margin_minutes") * 60
        start = z3.ToReal(p) * s_of(c)
        return z3.Implies(z3.And(n_of(c) >= 2, c.result), z3.Exists([p], z3.And(
            p >= 0, p < n_of(c), rid_at(c, p) == c.arg("runner_id"), start <= r, r < window_end(s_of(c), m60, start))))

    def e5(c):
        from pyvc import ops
        p = z3.Int(fresh_name("p"))
        r = ops.fmod(c.arg("current_time"), cyc(c))
        m60 = c.arg("spread_margin_minutes") * 60
        start = z3.ToReal(p) * s_of(c)
        return z3.ForAll([p], z3.Implies(z3.And(
            n_of(c) >= 2, p >= 0, p < n_of(c), rid_at(c, p) == c.arg("runner_id"),
            start <= r, r < window_end(s_of(c), m60, start)), c.result))

    can_run = Contract(
        key=f"{AS}:can_run_atomic_service",
        params={"runner_id": STR, "active_runners": RS, "current_time": REAL, "service_interval_minutes": REAL, "spread_margin_minutes": REAL},
        result=BOOL,
        requires=[
            ("interval-positive-margin-nonnegative", lambda c: z3.And(c.arg("service_interval_minutes") > 0, c.arg("spread_margin_minutes") >= 0)),
            ("runner-ids-pairwise-distinct", lambda c: distinct_ids(RI, c.arg("active_runners"))),
        ],
        cases=[Case("authorisation", ensures=[
            ("E1:no-runners-nobody-authorised", lambda c: z3.Implies(n_of(c) == 0, z3.Not(c.result))),
            ("E2:single-runner-always", lambda c: z3.Implies(n_of(c) == 1, c.result)),
            ("E3:absent-runner-never", lambda c: z3.Implies(z3.And(n_of(c) >= 2, z3.ForAll(
                [z3.Int("j")], z3.Implies(z3.And(z3.Int("j") >= 0, z3.Int("j") < n_of(c)), rid_at(c, z3.Int("j")) != c.arg("runner_id")))),
                z3.Not(c.result))),
            ("E4:authorised-only-inside-own-window", e4),
            ("E5:authorised-throughout-own-window", e5),
        ])], properties=[PID])
    out = [position, time_slot, in_slot, can_run]
    for c in out:
        reg.add(c)
    return out, RI


def _exists_cycle(c, body):
    from pyvc import ops
    return body(ops.fmod(c.arg("current_time"), c.arg("service_interval_minutes") * 60))


def lemmas(ctx: RunCtx):
    """Property-level lemmas over the *contract* of can_run_atomic_service (E4/E5 as window membership):
    windows are pairwise disjoint, separated by the margin when it fits, non-empty and inside the cycle."""
    out = []
    n = z3.Int("n")
    p, q = z3.Ints("p q")
    t, I, m, r = z3.Reals("t I m r")
    C = I * 60
    s = C / z3.ToReal(n)
    m60 = m * 60
    base = [n >= 2, I > 0, m >= 0, p >= 0, p < n, q >= 0, q < n, r >= 0, r < C]   # r = offset of the instant in its cycle

    def win(pos):
        start = z3.ToReal(pos) * s
        return z3.And(start <= r, r < window_end(s, m60, start))

    def ob(name, pc, goal):
        return Obligation(name=f"{PID}/lemma/{name}", kind="lemma", pc=pc, goal=goal, function="contract of can_run_atomic_service")
    out.append(ob("two-distinct-positions-never-authorised-at-the-same-instant", base + [p != q, win(p)], z3.Not(win(q))))
    out.append(ob("margin-separates-consecutive-windows-when-it-fits",
                  base + [q == p + 1, m60 < s],
                  z3.ToReal(q) * s - window_end(s, m60, z3.ToReal(p) * s) >= m60))
    out.append(ob("every-window-nonempty-and-inside-its-slot", base,
                  z3.And(window_end(s, m60, z3.ToReal(p) * s) > z3.ToReal(p) * s,
                         window_end(s, m60, z3.ToReal(p) * s) <= z3.ToReal(p + 1) * s, z3.ToReal(p) * s >= 0, z3.ToReal(p + 1) * s <= C)))
    return out


# --------------------------------------------------------------------------- bounded float cross-check (real functions, IEEE doubles)
def float_grid(ctx: RunCtx) -> BoundedResult:
    from datetime import UTC, datetime
    from pynenc.orchestrator.atomic_service import ActiveRunnerInfo, can_run_atomic_service
    thorough = ctx.tier == "thorough"
    res = BoundedResult("float_grid", "runner counts 1..%d x intervals x margins (incl. 0 and >= slot) x every slot boundary with its "
                        "nextafter neighbours x cycles at epoch offsets up to 2e9 s" % (64 if thorough else 24))
    now = datetime.now(UTC)
    counts = list(range(1, 65)) if thorough else [1, 2, 3, 4, 5, 6, 7, 8, 9, 10, 11, 12, 13, 16, 17, 24]
    intervals = [0.1, 1.0, 5.0, 7.0, 30.0, 1.0 / 3.0] if thorough else [1.0, 5.0, 7.0]
    margins = [0.0, 0.001, 0.5, 1.0, 100.0] if thorough else [0.0, 0.5, 100.0]
    offsets = [0, 1, 12345, 2_000_000] if thorough else [0, 1, 2_000_000]
    cases = 0
    for n in counts:
        runners = [ActiveRunnerInfo(f"r{i}", now, now, True) for i in range(n)]
        for I in intervals:
            cyc = I * 60
            slot = cyc / n
            for m in margins:
                for off in offsets:
                    base = off * cyc
                    for i in range(n + 1):
                        b = base + i * slot
                        pts = {b, math.nextafter(b, -math.inf), math.nextafter(b, math.inf), b - m * 60, math.nextafter(b - m * 60, math.inf),
                               math.nextafter(b - m * 60, -math.inf), b + slot / 2, b + slot - m * 60}
                        for t in pts:
                            if t < 0:
                                continue
                            cases += 1
                            auth = [r.runner_id for r in runners if can_run_atomic_service(r.runner_id, runners, t, I, m)]
                            bad = None
                            if n == 1 and auth != ["r0"]:
                                bad = "single runner not authorised"
                            elif n >= 2 and len(auth) > 1:
                                bad = f"{len(auth)} runners authorised at the same instant"
                            if bad and len(res.failures) < 20:
                                res.failures.append({"what": f"{bad}: n={n} interval_min={I} margin_min={m} t={t!r} authorised={auth}",
                                                     "input": {"n": n, "interval_minutes": I, "margin_minutes": m, "t": repr(t)},
                                                     "observed": auth, "expected": "at most one", "finding_key": "overlap" if n >= 2 else "single"})
                    if n >= 2:
                        # every runner is authorised somewhere in each cycle: probe the middle of the documented window
                        for i in range(n):
                            w = slot - m * 60 if m * 60 < slot else slot / 2
                            t = base + i * slot + w / 2
                            cases += 1
                            if not can_run_atomic_service(f"r{i}", runners, t, I, m) and len(res.failures) < 20:
                                res.failures.append({"what": f"runner {i} of {n} not authorised in the middle of its window: interval={I} margin={m} t={t!r}",
                                                     "input": {"n": n, "i": i, "interval_minutes": I, "margin_minutes": m, "t": repr(t)},
                                                     "observed": False, "expected": True, "finding_key": "empty-window"})
    res.cases = cases
    res.distinct = cases
    res.samples = [{"n": 9, "interval_minutes": 7.0, "margin_minutes": 0.0, "probe": "slot boundaries and nextafter neighbours"}]
    return res


def replay_can_run(ctx, ob):
    a = ob.get("extra", {}).get("args_py")
    if not a:
        return {"confirmed": False, "reason": "no concrete arguments"}
    from datetime import UTC, datetime
    from pynenc.orchestrator.atomic_service import ActiveRunnerInfo, can_run_atomic_service
    now = datetime.now(UTC)
    try:
        runners = [ActiveRunnerInfo(r["runner_id"], now, now, True) for r in a["active_runners"]]
        ids = [r.runner_id for r in runners]
        t, I, m = float(a["current_time"]), float(a["service_interval_minutes"]), float(a["spread_margin_minutes"])
        auth = [rid for rid in dict.fromkeys(ids + [a["runner_id"]]) if can_run_atomic_service(rid, runners, t, I, m)]
        n = len(runners)
        bad = (n >= 2 and len(auth) > 1) or (n == 1 and not can_run_atomic_service(a["runner_id"], runners, t, I, m)) or (n == 0 and auth)
        return {"confirmed": bool(bad), "input": a, "observed": {"authorised": auth}}
    except Exception as e:
        return {"confirmed": False, "error": f"{type(e).__name__}: {e}"}


def membership_histories(ctx: RunCtx) -> BoundedResult:
    """Bounded stand-in at the entry point (real orchestrators, controlled clock): the set of polling runners changes while its size stays the same
    (one runner stops heartbeating, a new one joins between two polls of a survivor); at every instant of a grid at most one runner is authorised,
    and over a whole cycle every runner is authorised at some instant."""
    from .c16 import Clock, controlled_clock
    from .realapp import real_app, runner_ctx
    res = BoundedResult("membership_histories", "3 and 4 runners polling should_run_atomic_service every 20 s on both backends; after two cycles the oldest (or the second) "
                        "runner falls silent and a new one joins within one polling period; exclusion checked on a 5 s grid over three further cycles, coverage per cycle")
    n = 0
    with controlled_clock():
        for backend in ("mem", "sqlite"):
            for n_runners, leaver in ((3, 0), (3, 1), (4, 0)):
                n += 1
                Clock.t = 1_800_000_000.0
                with real_app(backend, atomic_service_interval_minutes=6.0, atomic_service_spread_margin_minutes=0.5,
                              runner_considered_dead_after_minutes=1.0) as app:
                    orch = app.orchestrator
                    names = [f"runner-{chr(65 + k)}" for k in range(n_runners)]
                    ctxs = {nm: runner_ctx(nm) for nm in names}
                    for nm in names:                      # distinct creation times, in name order
                        orch.register_runner_heartbeats([nm], can_run_atomic_service=True)
                        Clock.t += 1.0
                    alive = list(names)

                    def poll_all():
                        return [nm for nm in alive if orch.should_run_atomic_service(ctxs[nm])]
                    bad = None
                    for _ in range(2 * 18):               # two cycles of 360 s, polls every 20 s
                        poll_all()
                        Clock.t += 20.0
                    gone = alive.pop(leaver)              # falls silent
                    Clock.t += 61.0                       # ... long enough to drop off the active list; nobody polls meanwhile
                    newcomer = "runner-Z"
                    ctxs[newcomer] = runner_ctx(newcomer)
                    alive.append(newcomer)
                    orch.register_runner_heartbeats(alive, can_run_atomic_service=True)
                    seen_auth = {nm: 0 for nm in alive}
                    for _ in range(3 * 72):               # three cycles on a 5 s grid
                        auth = poll_all()
                        for nm in auth:
                            seen_auth[nm] += 1
                        if len(auth) > 1 and bad is None:
                            bad = f"{auth} authorised at the same instant (t0+{Clock.t - 1_800_000_000.0:.0f} s) after {gone} was replaced by {newcomer}"
                        Clock.t += 5.0
                    never = [nm for nm, k in seen_auth.items() if k == 0]
                    if bad or never:
                        res.failures.append({"what": f"{backend}: {n_runners} runners: " + (bad or "") + (f" never authorised in three cycles: {never}" if never else ""),
                                             "input": {"runners": n_runners, "leaver": gone}, "finding_key": f"{backend}:membership-change"})
    res.cases = n
    res.distinct = n
    res.samples = [{"runners": ["A", "B", "C"], "history": "A silent, Z joins, C polls"}]
    return res


def entry_point(reg: Registry, RI):
    """BaseOrchestrator.should_run_atomic_service: the decision of THIS poll is can_run_atomic_service applied to the runner's id, the list of
    eligible active runners read in this very call, the current time and the CONFIGURED interval and margin - nothing remembered from earlier
    polls and no adjusted parameters (a runner's position depends on who is in the list now, and the margin is what keeps windows apart)."""
    from pyvc.contract import Shape
    from pyvc.types import ObjT
    from pyvc.values import Val
    BO = "pynenc.orchestrator.base_orchestrator"
    RS = SeqT(RI)
    CTX = Record("RunnerContextId", [("runner_id", STR)])
    reg.records["pynenc.runner.runner_context:RunnerContext"] = CTX
    reg.add_shape(Shape("ASConf", fields={"atomic_service_interval_minutes": REAL, "atomic_service_spread_margin_minutes": REAL,
                                          "atomic_service_check_interval_minutes": REAL}))
    reg.add_shape(Shape("ASApp", fields={"conf": ObjT("ASConf")}))
    reg.add_shape(Shape("ASOrchestrator", fields={"app": ObjT("ASApp")}, cls=(BO, "BaseOrchestrator"),
                        abstract_methods={"register_runner_heartbeats": "ASOrchestrator.heartbeats", "get_active_runners": "ASOrchestrator.active"}))
    reg.shapes["ASOrchestrator"].auto_fields = True
    reg.add(Contract(key="ASOrchestrator.heartbeats", shape="ASOrchestrator", params={"runner_ids": SeqT(STR), "can_run_atomic_service": BOOL}, frame=[],
                     assumed=True, check_invariants=False, cases=[Case("recorded")], note="heartbeat of the polling runner (C04 contract)"))
    reg.contracts["ASOrchestrator.heartbeats"].event = True
    reg.add(Contract(key="ASOrchestrator.active", shape="ASOrchestrator", params={"can_run_atomic_service": Opt(BOOL)}, result=RS, frame=[], assumed=True,
                     check_invariants=False, cases=[Case("listed", ensures=[("distinct-ids", lambda c: distinct_ids(RI, c.result))])],
                     note="eligible active runners, oldest first (C04 / C16)"))
    reg.contracts["ASOrchestrator.active"].event = True
    reg.contracts[f"{AS}:can_run_atomic_service"].event = True

    def calls(c, suffix):
        return [e for e in c.st.events if isinstance(e, dict) and e.get("ev") == "call" and e["key"].endswith(suffix)]

    def decided_now(c):
        cr, act = calls(c, "can_run_atomic_service"), calls(c, "ASOrchestrator.active")
        if len(cr) != 1 or len(act) != 1:
            return z3.BoolVal(False)
        a = cr[0]["args"]
        listed = act[0]["result"]
        flag = act[0]["args"]["can_run_atomic_service"]
        return z3.And(a["runner_id"].term == CTX.get(c.arg("runner_ctx"), "runner_id"),
                      a["active_runners"].term == listed.term,
                      Opt(BOOL).is_some(flag.term), Opt(BOOL).val(flag.term),
                      a["service_interval_minutes"].term == c.f("app.conf.atomic_service_interval_minutes"),
                      a["spread_margin_minutes"].term == c.f("app.conf.atomic_service_spread_margin_minutes"),
                      c.result == cr[0]["result"].term)

    def heartbeat_first(c):
        hb = calls(c, "ASOrchestrator.heartbeats")
        evs = [e for e in c.st.events if isinstance(e, dict) and e.get("ev") == "call"]
        return z3.BoolVal(len(hb) == 1 and bool(evs) and evs[0] is hb[0])
    entry = Contract(
        key=f"{BO}:BaseOrchestrator.should_run_atomic_service", shape="ASOrchestrator", params={"runner_ctx": CTX}, result=BOOL, frame=[],
        requires=[("configured-interval-positive-margin-nonnegative", lambda c: z3.And(c.f("app.conf.atomic_service_interval_minutes") > 0,
                                                                                     c.f("app.conf.atomic_service_spread_margin_minutes") >= 0))],
        cases=[Case("decision", ensures=[
            ("C12:this-poll's-decision=can_run(own id, the list read in this call, now, configured interval, configured margin)", decided_now),
            ("registers-its-own-heartbeat-as-eligible-before-reading-the-list", heartbeat_first)])],
        properties=[PID])
    reg.add(entry)
    return entry


def build(ctx: RunCtx) -> Prop:
    T = Types(ctx.src)
    reg = base_registry(ctx.src, T)
    verify, RI = contracts(reg)
    verify.append(entry_point(reg, RI))
    return Prop(
        pid=PID, title="atomic-service time slots: can_run_atomic_service authorises a runner exactly inside its own window; windows of "
                       "distinct positions are disjoint, margin-separated, non-empty (real arithmetic); float grid cross-check on the real functions",
        level="proof", technique="contract-based deductive verification (AST->z3 VCs, nonlinear real arithmetic) + bounded float grid",
        registry=reg, verify=verify, lemmas=[lemmas], bounded=[float_grid, membership_histories],
        replayers={"*can_run_atomic_service*": replay_can_run},
        assumptions=["machine floats treated as mathematical reals in the proof (the bounded float grid complements it)",
                     "Python float % for a positive divisor is the mathematical remainder in [0, divisor)",
                     "runner ids in the active-runner list are pairwise distinct (primary key / dict key in both backends)",
                     "validate_execution_time only logs (assumed effect-free contract)"],
        trusted_base=["pyvc VC generator", "z3 5.1 (nlsat)", "cvc5 1.0.3"],
        not_decided="IEEE-754 rounding in general (only the stated grid is checked on doubles).",
        min_obligations=10,
    )
