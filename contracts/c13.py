"""C13 — a satisfied trigger condition launches its task exactly once (kernel)."""
from __future__ import annotations

import itertools

import z3

from pyvc import sqlmodel
from pyvc.contract import Case, Contract, Registry, Shape
from pyvc.prop import BoundedResult, Prop, RunCtx
from pyvc.solve import Obligation
from pyvc.sqlmodel import all_events, sql_events
from pyvc.types import BOOL, DATETIME, INT, REAL, STR, Atom, MapT, ObjT, Opt, Record
from pyvc.values import NONE, OK, BoundMeth, Native, Val, fresh_name, mk_fresh

from .common import Types, base_registry

PID = "C13"
MT = "pynenc.trigger.mem_trigger"
STG = "pynenc.trigger.sqlite_trigger"
BT = "pynenc.trigger.base_trigger"
CR = "pynenc.trigger.conditions.cron"
LOCK = Atom("Lock")
ODT = Opt(DATETIME)
LAST = MapT(STR, DATETIME)
CLAIMS = MapT(STR, DATETIME)
# the cron schedule of an expression as a set of instants (seconds); croniter is assumed to enumerate it
sched = z3.Function("scheduled", z3.RealSort(), z3.BoolSort())


def T_(b):
    return z3.BoolVal(bool(b))


def mem_contracts(reg: Registry):
    reg.add_shape(Shape("MemTrigger", fields={"_last_cron_executions": LAST, "_trigger_run_claims": CLAIMS, "_cron_lock": LOCK, "_trigger_run_lock": LOCK},
                        cls=(MT, "MemTrigger")))
    UNC = mk_fresh(ODT, "UNCONDITIONAL")      # the sentinel default of expected_last_execution (an opaque object, distinct from any datetime / None)
    unconditional = z3.Bool("expected_is_UNCONDITIONAL")
    reg.natives[f"{BT}:UNCONDITIONAL"] = SentinelNative(unconditional)
    reg.natives[f"{MT}:UNCONDITIONAL"] = reg.natives[f"{BT}:UNCONDITIONAL"]
    reg.natives[f"{STG}:UNCONDITIONAL"] = reg.natives[f"{BT}:UNCONDITIONAL"]
    stored = lambda c: z3.Select(c.old("_last_cron_executions"), c.arg("condition_id"))
    matches = lambda c: z3.Or(c.arg("expected_is_unconditional"), stored(c) == LAST.opt.none() if False else
                              z3.If(ODT.is_none(c.arg("expected_last_execution")), LAST.opt.is_none(stored(c)),
                                    stored(c) == LAST.opt.some(ODT.val(c.arg("expected_last_execution")))))

    def held(lock_field):
        def f(c):
            evs = [e for e in c.st.events if isinstance(e, dict) and e.get("ev") == "heap"]
            lock = c.fval(lock_field).term
            return T_(bool(evs) and all(any(p[0] == "lock" and z3.eq(p[1], lock) for p in e["perms"]) for e in evs))
        return f
    cas = Contract(
        key=f"{MT}:MemTrigger.store_last_cron_execution", shape="MemTrigger",
        params={"condition_id": STR, "execution_time": DATETIME, "expected_last_execution": ODT, "expected_is_unconditional": BOOL},
        result=BOOL, frame=["_last_cron_executions"],
        cases=[Case("compare-and-swap", ensures=[
            ("succeeds-iff-the-stored-value-is-the-expected-one(None = never executed)", lambda c: c.result == matches(c)),
            ("stores-only-on-success-and-only-this-entry", lambda c: c.f("_last_cron_executions") == z3.If(
                c.result, z3.Store(c.old("_last_cron_executions"), c.arg("condition_id"), LAST.opt.some(c.arg("execution_time"))), c.old("_last_cron_executions"))),
            ("ownership:compare-and-store-under-the-cron-lock", held("_cron_lock")),
        ])], properties=[PID])
    cas.trace_fields = ("_last_cron_executions",)
    cas.sentinel_param = ("expected_last_execution", "expected_is_unconditional")

    now = lambda c: c.g("$clock0")
    claim_cell = lambda c: z3.Select(c.old("_trigger_run_claims"), c.arg("trigger_run_id"))
    live = lambda c: z3.And(CLAIMS.opt.is_some(claim_cell(c)), CLAIMS.opt.val(claim_cell(c)) > now(c))
    claim = Contract(
        key=f"{MT}:MemTrigger.claim_trigger_run", shape="MemTrigger", params={"trigger_run_id": STR, "expiration_seconds": INT},
        defaults={"expiration_seconds": lambda eng, st: Val(z3.IntVal(60), INT)}, result=BOOL, frame=["_trigger_run_claims"],
        cases=[Case("first-claim-wins-until-expiry", ensures=[
            ("refused-iff-an-unexpired-claim-exists", lambda c: c.result == z3.Not(live(c))),
            ("a-successful-claim-is-recorded-until-now+expiration-others-untouched", lambda c: c.f("_trigger_run_claims") == z3.If(
                c.result, z3.Store(c.old("_trigger_run_claims"), c.arg("trigger_run_id"), CLAIMS.opt.some(now(c) + z3.ToReal(c.arg("expiration_seconds")))),
                c.old("_trigger_run_claims"))),
            ("ownership:check-and-claim-under-the-claims-lock", held("_trigger_run_lock")),
        ])], properties=[PID])
    claim.trace_fields = ("_trigger_run_claims",)
    for c in (cas, claim):
        reg.add(c)
    return [cas, claim]


class SentinelNative(Native):
    """the module constant UNCONDITIONAL: `x is UNCONDITIONAL` / `x is not UNCONDITIONAL` read the ghost flag of the parameter"""

    def __init__(self, flag):
        self.flag = flag


def sqlite_contracts(reg: Registry):
    sqlmodel.install(reg, {"last_cron_execution": (Opt(STR), None), "expiration": (Opt(STR), None), "condition_id": (STR, None), "trigger_run_id": (STR, None)})
    if "Tables" not in reg.shapes:
        reg.add_shape(Shape("Tables", fields={}))
    reg.add_shape(Shape("SQLiteTrigger", fields={"sqlite_db_path": STR, "tables": ObjT("Tables")}, cls=(STG, "SQLiteTrigger")))
    iso = z3.Function("isoformat", z3.RealSort(), z3.StringSort())
    reg.isoformat_fn = iso
    reg.fromisoformat_fn = z3.Function("fromisoformat", z3.StringSort(), z3.RealSort())   # parse of a stored ISO string

    def ownership(c):
        s = sql_events(c.st)
        return T_(bool(s) and s[0]["kind"] == "BEGIN IMMEDIATE" and len({e["conn"] for e in s}) == 1
                  and all(e["owned"] for e in s if e["kind"] in ("SELECT", "UPDATE", "INSERT", "DELETE")))

    def writes(c, kinds=("UPDATE", "INSERT", "DELETE")):
        return [e for e in sql_events(c.st) if e["kind"] in kinds]
    cas = Contract(
        key=f"{STG}:SQLiteTrigger.store_last_cron_execution", shape="SQLiteTrigger",
        params={"condition_id": STR, "execution_time": DATETIME, "expected_last_execution": ODT, "expected_is_unconditional": BOOL}, result=BOOL, frame=[],
        cases=[Case("compare-and-swap-glue", ensures=[
            ("ownership:BEGIN-IMMEDIATE-first-select-and-update-on-one-connection", ownership),
            ("selects-this-condition's-stored-value", lambda c: T_(any(e["kind"] == "SELECT" and e["info"]["where"] == ["condition_id"] and
                                                                       "last_cron_execution" in e["info"]["columns"] for e in sql_events(c.st)))),
            ("writes-only-when-it-reports-success", lambda c: z3.Implies(z3.Not(c.result), T_(not writes(c)))),
            ("on-success-one-UPDATE-of-this-condition-binding-the-new-time-then-commit", lambda c: z3.Implies(c.result, _one_update(c, writes(c), iso))),
        ]), Case("commit-fault", raises="OperationalError", ensures=[("ownership", ownership)])], properties=[PID])
    cas.sentinel_param = ("expected_last_execution", "expected_is_unconditional")
    claim = Contract(
        key=f"{STG}:SQLiteTrigger.claim_trigger_run", shape="SQLiteTrigger", params={"trigger_run_id": STR, "expiration_seconds": INT},
        defaults={"expiration_seconds": lambda eng, st: Val(z3.IntVal(60), INT)}, result=BOOL, frame=[],
        cases=[Case("claim-glue", ensures=[
            ("ownership:BEGIN-IMMEDIATE-first-check-and-claim-on-one-connection", ownership),
            ("checks-this-run-id's-claim", lambda c: T_(any(e["kind"] == "SELECT" and e["info"]["where"] == ["trigger_run_id"] for e in sql_events(c.st)))),
            ("writes-only-when-it-reports-success", lambda c: z3.Implies(z3.Not(c.result), T_(not writes(c)))),
            ("on-success-one-claim-row-for-this-run-id-committed", lambda c: z3.Implies(c.result, T_(
                len(writes(c)) == 1 and writes(c)[0]["kind"] == "INSERT" and any(e.get("ev") == "commit" for e in all_events(c.st))) if True else T_(False))),
            # the claim may be re-taken after it expired: the row of the run id exists then, and the new expiration has to replace the old one
            ("a-re-taken-claim-replaces-the-expired-row(INSERT OR REPLACE / ON CONFLICT DO UPDATE)", lambda c: z3.Implies(c.result, T_(
                len(writes(c)) == 1 and (" OR REPLACE " in " " + " ".join(writes(c)[0]["info"]["text"].upper().split()) + " "
                                         or "DO UPDATE" in " ".join(writes(c)[0]["info"]["text"].upper().split()))))),
        ]), Case("commit-fault", raises="OperationalError", ensures=[("ownership", ownership)])], properties=[PID])
    reg.sql_commit_faults = True
    for c in (cas, claim):
        reg.add(c)
    return [cas, claim]


def _one_update(c, ws, iso):
    if len(ws) != 1 or ws[0]["kind"] != "UPDATE" or ws[0]["info"]["where"] != ["condition_id"] or len(ws[0]["params"]) != 2:
        return T_(False)
    evs = all_events(c.st)
    committed = any(e.get("ev") == "commit" for e in evs)
    p = ws[0]["params"]
    return z3.And(T_(committed), p[0].term == iso(c.arg("execution_time")), p[1].term == c.arg("condition_id"))


def cron_contract(reg: Registry):
    """CronCondition._is_satisfied_by against the spec written from the statement, under the schedule axioms of croniter."""
    CTX = Record("CronContext", [("timestamp", DATETIME), ("last_execution", ODT)])
    reg.records[f"{CR}:CronContext"] = CTX
    reg.add_shape(Shape("CronCondition", fields={"cron_expression": STR, "check_window_seconds": INT, "min_interval_seconds": INT,
                                                 "precision_tolerance_seconds": INT, "strict_timing": BOOL}, cls=(CR, "CronCondition")))

    class CronIter(Native):
        """croniter(expr, base): get_next = least scheduled instant after base, get_prev = greatest scheduled instant before base"""

        def __init__(self, base=None):
            self.base = base

        def vc_getattr(self, eng, st, name):
            return BoundMeth(self, name)

        def vc_call(self, eng, st, name, args, kwargs):
            x = z3.Real(fresh_name("x"))
            if name == "__call__":
                return [(OK, st, CronIter(eng.need(st, args[1], DATETIME).term))]
            if name == "get_next":
                r = z3.Real(fresh_name("next"))
                st.assume(z3.And(sched(r), r > self.base, z3.ForAll([x], z3.Implies(z3.And(sched(x), x > self.base), x >= r))))
                return [(OK, st, Val(r, DATETIME))]
            if name == "get_prev":
                r = z3.Real(fresh_name("prev"))
                st.assume(z3.And(sched(r), r < self.base, z3.ForAll([x], z3.Implies(z3.And(sched(x), x < self.base), x <= r))))
                return [(OK, st, Val(r, DATETIME))]
            if name == "match":
                # assumed: croniter.match(expr, t) <=> t is a scheduled instant  (conformance-tested against the real croniter)
                return [(OK, st, Val(sched(eng.need(st, args[1], DATETIME).term), BOOL))]
            from pyvc.ops import Unsupported
            raise Unsupported(f"croniter.{name}")
    reg.natives["croniter:croniter"] = CronIter()
    t = lambda c: CTX.get(c.arg("context"), "timestamp")
    last = lambda c: CTX.get(c.arg("context"), "last_execution")
    W = lambda c: z3.ToReal(c.f("check_window_seconds"))

    def fire(c):
        m = z3.Real(fresh_name("m"))
        x = z3.Real(fresh_name("x"))
        most_recent = z3.And(sched(m), m <= t(c), z3.ForAll([x], z3.Implies(z3.And(sched(x), x <= t(c)), x <= m)))
        in_window = z3.And(t(c) - m <= W(c), z3.Implies(c.f("strict_timing"), t(c) - m <= z3.ToReal(c.f("precision_tolerance_seconds"))))
        after_last = z3.Or(ODT.is_none(last(c)), z3.And(t(c) - ODT.val(last(c)) >= z3.ToReal(c.f("min_interval_seconds")), ODT.val(last(c)) < m))
        return z3.Exists([m], z3.And(most_recent, in_window, after_last))
    sat = Contract(
        key=f"{CR}:CronCondition._is_satisfied_by", shape="CronCondition", params={"context": CTX}, result=BOOL, frame=[],
        requires=[("window-and-interval-nonnegative", lambda c: z3.And(c.f("check_window_seconds") >= 0, c.f("min_interval_seconds") >= 0,
                                                                       c.f("precision_tolerance_seconds") >= 0)),
                  ("the-schedule-has-instants-before-and-after-any-time(every cron expression recurs)", lambda c: z3.ForAll(
                      [z3.Real("b")], z3.And(z3.Exists([z3.Real("y")], z3.And(sched(z3.Real("y")), z3.Real("y") > z3.Real("b"))),
                                             z3.Exists([z3.Real("y2")], z3.And(sched(z3.Real("y2")), z3.Real("y2") < z3.Real("b"))))))],
        cases=[Case("decision", ensures=[
            ("fires-iff-the-most-recent-scheduled-instant-is-within-the-window-and-newer-than-the-last-firing-(>= min interval old)", lambda c: c.result == fire(c)),
        ])], properties=[PID])
    reg.add(sat)
    return [sat]


def cron_poll_contract(reg: Registry):
    """BaseTrigger._should_trigger_cron_condition over an abstract store of last executions: one poll yields an occurrence exactly when the
    condition is satisfied for (now, the STORED last execution) - never because a record is missing, never on the strength of a stale local
    cache - and then moves the stored value to now; otherwise the store is untouched.  The decision function is the abstract `sat`, whose one
    needed property (a later last execution never makes a poll fire that an earlier one did not) is a lemma over the cron spec below."""
    CTX = reg.records[f"{CR}:CronContext"]
    COND = Atom("CronConditionId")
    sat = z3.Function("cron_condition_satisfied", COND.sort(), z3.RealSort(), ODT.sort(), z3.BoolSort())
    STORE = MapT(COND, DATETIME)
    reg.add_shape(Shape("PollCondition", fields={"condition_id": COND}, abstract_methods={"is_satisfied_by": "PollCondition.is_satisfied_by"}))
    reg.add(Contract(key="PollCondition.is_satisfied_by", shape="PollCondition", params={"context": CTX}, result=BOOL, frame=[], assumed=True,
                     check_invariants=False, effect_events=False,
                     cases=[Case("decision", ensures=[("the-decision-function", lambda c: c.result == sat(c.f("condition_id"), CTX.get(c.arg("context"), "timestamp"),
                                                                                                     CTX.get(c.arg("context"), "last_execution")))])],
                     note="CronCondition.is_satisfied_by -> _is_satisfied_by (verified above against the cron spec)"))
    reg.add_shape(Shape("PollApp", fields={}))
    reg.add_shape(Shape("CronPoller", fields={"_last_cron_execution_cache": STORE, "stored": STORE, "app": ObjT("PollApp")},
                        cls=(BT, "BaseTrigger"), abstract_methods={"get_last_cron_execution": "CronPoller.get", "store_last_cron_execution": "CronPoller.cas"}))
    cell = lambda c, f="stored": z3.Select(c.old(f), c.arg("condition_id"))
    reg.add(Contract(key="CronPoller.get", shape="CronPoller", params={"condition_id": COND}, result=ODT, frame=[], assumed=True, check_invariants=False,
                     effect_events=False, cases=[Case("stored", ensures=[("what-the-store-holds", lambda c: c.result == z3.If(
                         STORE.opt.is_some(cell(c)), ODT.some(STORE.opt.val(cell(c))), ODT.none()))])],
                     note="get_last_cron_execution of both stores"))
    exp_matches = lambda c: z3.If(ODT.is_none(c.arg("expected_last_execution")), STORE.opt.is_none(cell(c)),
                                  cell(c) == STORE.opt.some(ODT.val(c.arg("expected_last_execution"))))
    reg.add(Contract(key="CronPoller.cas", shape="CronPoller", params={"condition_id": COND, "execution_time": DATETIME, "expected_last_execution": ODT},
                     result=BOOL, frame=["stored"], assumed=True, check_invariants=False,
                     cases=[Case("swapped", when=exp_matches, ensures=[("true", lambda c: c.result), ("stored-now", lambda c: c.f("stored") == z3.Store(
                         c.old("stored"), c.arg("condition_id"), STORE.opt.some(c.arg("execution_time"))))]),
                            Case("refused", when=lambda c: z3.Not(exp_matches(c)), ensures=[("false", lambda c: z3.Not(c.result)), ("untouched", lambda c: c.f("stored") == c.old("stored"))])],
                     note="store_last_cron_execution with an explicit expectation: the compare-and-swap proved for MemTrigger and as SQL glue for SQLiteTrigger above"))
    cid = lambda c: c.eng.heap_read(c.st, c.argv("condition"), "condition_id").term
    st0 = lambda c: z3.Select(c.old("stored"), cid(c))
    st0_opt = lambda c: z3.If(STORE.opt.is_some(st0(c)), ODT.some(STORE.opt.val(st0(c))), ODT.none())
    cache0 = lambda c: z3.Select(c.old("_last_cron_execution_cache"), cid(c))
    now = lambda c: c.arg("current_time")
    fires = lambda c: sat(cid(c), now(c), st0_opt(c))
    k, t1, l1, l2 = z3.Const("mk", COND.sort()), z3.Real("mt"), z3.Real("ml1"), z3.Real("ml2")
    reg.axioms = list(getattr(reg, "axioms", [])) + [
        # monotone in the last execution (lemma `cron-decision-is-monotone-in-the-last-execution` proves it for the cron spec)
        z3.ForAll([k, t1, l1, l2], z3.Implies(z3.And(l1 <= l2, sat(k, t1, ODT.some(l2))), sat(k, t1, ODT.some(l1)))),
    ]
    OCTX = Opt(CTX)
    cache1 = lambda c: z3.Select(c.f("_last_cron_execution_cache"), cid(c))
    cache_from_store = ("the-cache-only-ever-holds-values-read-from-or-written-to-the-store(what the precondition relies on)", lambda c: z3.Or(
        cache1(c) == cache0(c), cache1(c) == st0(c), cache1(c) == z3.Select(c.f("stored"), cid(c))))
    poll = Contract(
        key=f"{BT}:BaseTrigger._should_trigger_cron_condition", shape="CronPoller", params={"condition": ObjT("PollCondition"), "current_time": DATETIME}, result=OCTX,
        frame=["stored", "_last_cron_execution_cache"],
        requires=[("the-local-cache-holds-an-earlier-stored-value(the store only moves forward)", lambda c: z3.Implies(
            STORE.opt.is_some(cache0(c)), z3.And(STORE.opt.is_some(st0(c)), STORE.opt.val(cache0(c)) <= STORE.opt.val(st0(c)))))],
        cases=[
            Case("occurrence", when=fires, ensures=[
                ("C13:a-poll-that-satisfies-the-condition-for-the-STORED-last-execution-yields-the-occurrence", lambda c: OCTX.is_some(c.result)),
                ("the-occurrence-carries-this-poll's-time", lambda c: CTX.get(OCTX.val(c.result), "timestamp") == now(c)),
                ("C13:the-stored-last-execution-moves-to-this-poll(so that no later poll of this tick fires again)", lambda c: c.f("stored") == z3.Store(
                    c.old("stored"), cid(c), STORE.opt.some(now(c)))),
                cache_from_store]),
            Case("no-occurrence", when=lambda c: z3.Not(fires(c)), ensures=[
                ("C13:a-poll-outside-the-condition-yields-nothing(also when nothing was ever recorded)", lambda c: OCTX.is_none(c.result)),
                ("store-untouched", lambda c: c.f("stored") == c.old("stored")),
                cache_from_store]),
        ], properties=[PID],
        note="sequential contract of one poll; two pollers racing between the read and the swap are decided by the compare-and-swap contracts (one wins)")
    reg.add(poll)
    return [poll]


def cron_monotone_lemma(ctx: RunCtx):
    """the part of the cron spec that depends on the last execution, `last < m and t - last >= min_interval`, is monotone: an earlier last execution
    satisfies it whenever a later one does (justifies the axiom on the abstract decision function used by the poll contract)"""
    t, m, l1, l2, mi = z3.Reals("lt lm ll1 ll2 lmin")
    after = lambda l: z3.And(t - l >= mi, l < m)
    o = Obligation(name=f"{PID}/lemma/cron-decision-is-monotone-in-the-last-execution", kind="lemma", pc=[l1 <= l2, after(l2)], goal=after(l1),
                   function="cron spec (after_last)")
    return [o]


# --------------------------------------------------------------------------- conformance of the croniter axioms + bounded loop scenarios
def croniter_conformance(ctx: RunCtx):
    """The proof of the cron decision assumes `croniter.match(expr, t)` <=> t is a scheduled instant.  The real croniter matches with minute
    precision, so polls 11..59 s after the minute are treated as 'time difference 0': checked here on the real library and the real function."""
    from datetime import UTC, datetime, timedelta
    from pynenc.trigger.conditions.cron import CronCondition, CronContext
    out = []
    base = datetime(2026, 1, 1, 12, 5, 0, tzinfo=UTC)
    cond = CronCondition("*/5 * * * *", check_window_seconds=10)
    bad = [d for d in (11, 30, 59) if cond._is_satisfied_by(CronContext(timestamp=base + timedelta(seconds=d)))]
    ok_inside = all(cond._is_satisfied_by(CronContext(timestamp=base + timedelta(seconds=d))) for d in (0, 5, 10))
    o = Obligation(name=f"{PID}/assumed/croniter.match-is-exact=>no-occurrence-outside-the-check-window", kind="lemma", pc=[], goal=z3.BoolVal(not bad),
                   function=f"{CR}:CronCondition._is_satisfied_by")
    o.status, o.backend = ("discharged" if not bad else "failed"), "conformance-test(real croniter)"
    o.detail = f"'*/5 * * * *', window 10 s: polls {bad} s after the scheduled minute are accepted (croniter.match has minute precision)"
    o.extra = {"replay": {"confirmed": bool(bad), "input": {"expression": "*/5 * * * *", "check_window_seconds": 10, "seconds_after_minute": bad}}}
    out.append(o)
    o2 = Obligation(name=f"{PID}/assumed/polls-inside-the-window-are-accepted", kind="lemma", pc=[], goal=z3.BoolVal(ok_inside), function=o.function)
    o2.status, o2.backend = ("discharged" if ok_inside else "failed"), "conformance-test(real croniter)"
    out.append(o2)
    return out


def launch_loop_shape(ctx: RunCtx):
    """Syntactic obligation on BaseTrigger.trigger_loop_iteration: the loop over the run ids of a firing trigger attempts a claim for every
    run id - it may only stop early after a successful launch of an AND trigger (which has one run id anyway)."""
    import ast
    import os
    out = []

    def ob(name, ok, detail=""):
        o = Obligation(name=f"{PID}/launch-loop/{name}", kind="lemma", pc=[], goal=z3.BoolVal(bool(ok)), function="pynenc.trigger.base_trigger:BaseTrigger.trigger_loop_iteration")
        o.detail = detail
        out.append(o)
    tree = ast.parse(open(os.path.join(ctx.repo, "pynenc/trigger/base_trigger.py")).read())
    fn = next((n for n in ast.walk(tree) if isinstance(n, ast.FunctionDef) and n.name == "trigger_loop_iteration"), None)
    loops = [n for n in ast.walk(fn) if isinstance(n, ast.For) and isinstance(n.target, ast.Name) and n.target.id == "run_id"] if fn else []
    ob("found", len(loops) == 1, f"{len(loops)} loops over run_id")
    if len(loops) == 1:
        loop = loops[0]
        parents = {}
        for node in ast.walk(loop):
            for ch in ast.iter_child_nodes(node):
                parents[ch] = node

        def guarded_by_and_after_claim(node):
            and_guard = claim_ok = False
            cur = node
            while cur in parents and cur is not loop:
                par = parents[cur]
                if isinstance(par, ast.If) and cur in par.body:
                    src = ast.unparse(par.test)
                    if "CompositeLogic.AND" in src and "==" in src:
                        and_guard = True
                    if "claim_trigger_run(run_id)" in src and not src.strip().startswith("not "):
                        claim_ok = True
                cur = par
            return and_guard and claim_ok
        exits = [n for n in ast.walk(loop) if isinstance(n, (ast.Break, ast.Return, ast.Continue)) and n is not loop]
        bad = [e for e in exits if not (isinstance(e, ast.Break) and guarded_by_and_after_claim(e))]
        ob("every-run-id-gets-a-claim-attempt(early-exit-only-after-a-successful-AND-launch)", not bad,
           detail=f"{len(bad)} early exit(s) of the run-id loop outside `if claim: ... if logic == AND: break` (lines {[e.lineno for e in bad]})")
        claims = [n for n in ast.walk(loop) if isinstance(n, ast.Call) and isinstance(n.func, ast.Attribute) and n.func.attr == "claim_trigger_run"]
        ob("the-claim-is-requested-for-the-loop's-run-id", len(claims) == 1 and ast.unparse(claims[0].args[0]) == "run_id" if claims else False)
    return out


def loop_scenarios(ctx: RunCtx) -> BoundedResult:
    """Bounded stand-in on the real trigger loop, both stores: k pending occurrences of an event condition -> k launches, each with
    the arguments of its own occurrence; a second loop iteration launches nothing more; cron CAS with expected 'never'."""
    from datetime import UTC, datetime
    from . import verif_tasks
    from .realapp import real_app
    res = BoundedResult("loop_scenarios", "k in 1..3 pending event occurrences x {single-condition trigger}, two loop iterations, both trigger stores; "
                        "CAS(expected=None) twice on one cron condition")
    n = 0
    for backend in ("mem", "sqlite"):
        for k, logic in itertools.product((1, 2, 3), ("default", "or")):
            n += 1
            with real_app(backend) as app:
                try:
                    from pynenc.trigger.trigger_builder import TriggerBuilder
                    target = app.task(verif_tasks.add)
                    builder = TriggerBuilder().on_event("verif_evt").with_args_from_event(verif_tasks.event_args)
                    if logic == "or":
                        builder = builder.with_logic("or")
                    app.trigger.register_task_triggers(target, builder)
                    for i in range(k):
                        app.trigger.emit_event("verif_evt", {"x": i})
                    app.trigger.trigger_loop_iteration()
                    app.trigger.trigger_loop_iteration()
                    ids = list(app.orchestrator.get_task_invocation_ids(target.task_id))
                    xs = sorted(app.state_backend.get_invocation(i).arguments.kwargs.get("x") for i in ids)
                    if len(ids) != k:
                        res.failures.append({"what": f"{backend}: single-condition trigger ({logic} logic), {k} pending occurrences launched the task {len(ids)} times",
                                             "input": {"occurrences": k, "logic": logic}, "finding_key": f"occurrences-collapsed:{logic}"})
                    elif xs != list(range(k)):
                        res.failures.append({"what": f"{backend}: single-condition trigger ({logic} logic), {k} pending occurrences launched with arguments {xs}, "
                                                     f"expected one launch per occurrence {list(range(k))}",
                                             "input": {"occurrences": k, "logic": logic}, "finding_key": f"per-occurrence-arguments:{logic}"})
                except Exception as e:
                    res.failures.append({"what": f"{backend}: scenario could not run: {type(e).__name__}: {str(e)[:150]}", "finding_key": f"{backend}:scenario-error"})
        # one status change of a source task = one occurrence: the source invocation really runs (status report, then result report), OR trigger on SUCCESS
        for kind in ("status", "result"):
            n += 1
            with real_app(backend) as app:
                try:
                    from pynenc.invocation.status import InvocationStatus as S
                    from pynenc.trigger.trigger_builder import TriggerBuilder
                    from .realapp import runner_ctx
                    source, target = app.task(verif_tasks.noop), app.task(verif_tasks.add)
                    b = TriggerBuilder().on_status(source, S.SUCCESS) if kind == "status" else TriggerBuilder().on_any_result(source)
                    app.trigger.register_task_triggers(target, b.with_logic("or").with_args_static({"x": 1}))
                    src_inv = source()
                    ctx_r = runner_ctx("trigger-scenario-runner")
                    got = list(app.orchestrator.get_invocations_to_run(1, ctx_r))
                    for inv in got:
                        inv.run(ctx_r)
                    pending = len(app.trigger.get_valid_conditions())
                    app.trigger.trigger_loop_iteration()
                    app.trigger.trigger_loop_iteration()
                    launches = len(list(app.orchestrator.get_task_invocation_ids(target.task_id)))
                    if launches != 1 or pending != 1:
                        res.failures.append({"what": f"{backend}: one {kind} change of the source task (run to SUCCESS) recorded {pending} pending occurrence(s) and "
                                                     f"launched the triggered task {launches} time(s)", "input": {"condition": kind}, "finding_key": f"{backend}:status-occurrence:{kind}"})
                except Exception as e:
                    res.failures.append({"what": f"{backend}: scenario could not run: {type(e).__name__}: {str(e)[:150]}", "finding_key": f"{backend}:scenario-error"})
        # a run id whose claim is held by another runner must not stop the others: refuse the j-th claim attempt of one iteration
        for k, j in ((2, 0), (3, 0), (3, 1)):
            n += 1
            with real_app(backend) as app:
                try:
                    from pynenc.trigger.trigger_builder import TriggerBuilder
                    target = app.task(verif_tasks.add)
                    app.trigger.register_task_triggers(target, TriggerBuilder().on_event("verif_evt").with_args_from_event(verif_tasks.event_args).with_logic("or"))
                    for i in range(k):
                        app.trigger.emit_event("verif_evt", {"x": i})
                    real_claim, attempts = app.trigger.claim_trigger_run, [0]

                    def claim(run_id, *a, _real=real_claim, _att=attempts, _j=j, **kw):
                        _att[0] += 1
                        if _att[0] - 1 == _j:
                            _real(run_id, *a, **kw)      # "another runner" takes this claim first
                            return _real(run_id, *a, **kw)
                        return _real(run_id, *a, **kw)
                    app.trigger.claim_trigger_run = claim
                    app.trigger.trigger_loop_iteration()
                    app.trigger.claim_trigger_run = real_claim
                    ids = list(app.orchestrator.get_task_invocation_ids(target.task_id))
                    if len(ids) != k - 1:
                        res.failures.append({"what": f"{backend}: OR trigger, {k} pending occurrences, the claim of run id #{j} is held by another runner: this runner launched "
                                                     f"{len(ids)} of the other {k - 1} occurrences (their valid conditions are cleared all the same)",
                                             "input": {"occurrences": k, "claim_held": j}, "finding_key": f"claim-held-by-another-runner:{k}:{j}"})
                except Exception as e:
                    res.failures.append({"what": f"{backend}: scenario could not run: {type(e).__name__}: {str(e)[:150]}", "finding_key": f"{backend}:scenario-error"})
        n += 1
        with real_app(backend) as app:
            from pynenc.trigger.conditions.cron import CronCondition
            cond = CronCondition("* * * * *")
            app.trigger.register_condition(cond)
            t1, t2 = datetime(2026, 1, 1, 12, 0, 1, tzinfo=UTC), datetime(2026, 1, 1, 12, 0, 2, tzinfo=UTC)
            a = app.trigger.store_last_cron_execution(cond.condition_id, t1, expected_last_execution=None)
            b = app.trigger.store_last_cron_execution(cond.condition_id, t2, expected_last_execution=None)
            if not (a and not b):
                res.failures.append({"what": f"{backend}: two compare-and-swaps that both expect 'never executed' returned {a}, {b}", "finding_key": f"{backend}:cas-never"})
        # two tasks depend on the same condition; one of them registers its triggers again (a second runner start in the process): the other
        # task's trigger must still be reachable from the shared condition
        n += 1
        with real_app(backend) as app:
            try:
                from pynenc.trigger.trigger_builder import TriggerBuilder
                t_a, t_b = app.task(verif_tasks.add), app.task(verif_tasks.key_task)
                mk = lambda: TriggerBuilder().on_event("shared_evt").with_logic("or")
                app.trigger.register_task_triggers(t_a, mk().with_args_static({"x": 1}))
                app.trigger.register_task_triggers(t_b, mk().with_args_static({"key": "k"}))
                app.trigger.register_task_triggers(t_a, mk().with_args_static({"x": 1}))        # registered again
                app.trigger.emit_event("shared_evt", {})
                app.trigger.trigger_loop_iteration()
                la, lb = (len(list(app.orchestrator.get_task_invocation_ids(t.task_id))) for t in (t_a, t_b))
                if (la, lb) != (1, 1):
                    res.failures.append({"what": f"{backend}: two tasks on one event condition, the first registered again, one occurrence: launches (re-registered task, other task) = "
                                                 f"({la}, {lb}), expected (1, 1)", "input": {"scenario": "shared condition, re-registration"}, "finding_key": f"{backend}:shared-condition"})
            except Exception as e:
                res.failures.append({"what": f"{backend}: scenario could not run: {type(e).__name__}: {str(e)[:150]}", "finding_key": f"{backend}:scenario-error"})
        # polls outside any window yield nothing - also the very first poll of a condition; two pollers with separate caches on one store
        # alternate minute by minute: every scheduled minute yields exactly one occurrence
        n += 1
        with real_app(backend) as app:
            try:
                from pynenc.trigger.conditions.cron import CronCondition
                far = CronCondition("0 0 1 1 *")
                first = app.trigger._should_trigger_cron_condition(far, datetime(2026, 6, 15, 12, 30, 20, tzinfo=UTC))
                if first is not None:
                    res.failures.append({"what": f"{backend}: the first poll ever of cron '0 0 1 1 *' at 2026-06-15 12:30:20 (no scheduled minute within months) yields an occurrence",
                                         "input": {"cron": "0 0 1 1 *", "poll": "2026-06-15T12:30:20Z"}, "finding_key": f"{backend}:first-poll-outside-any-window"})
                every = CronCondition("* * * * *")
                import copy
                other = copy.copy(app.trigger)                       # a second trigger component on the same store with a cache of its own
                other._last_cron_execution_cache = {}
                pollers, fired = [app.trigger, other], []
                for minute in range(6):
                    p = pollers[minute % 2]
                    r = p._should_trigger_cron_condition(every, datetime(2026, 1, 1, 12, minute, 5, tzinfo=UTC))
                    r2 = p._should_trigger_cron_condition(every, datetime(2026, 1, 1, 12, minute, 20, tzinfo=UTC))
                    fired.append((r is not None) + (r2 is not None))
                if fired != [1] * 6:
                    res.failures.append({"what": f"{backend}: two pollers with separate caches alternating on one store, cron '* * * * *', two polls in each of 6 minutes: occurrences per "
                                                 f"minute {fired}, expected one each", "input": {"scenario": "alternating pollers"}, "finding_key": f"{backend}:alternating-pollers"})
            except Exception as e:
                res.failures.append({"what": f"{backend}: scenario could not run: {type(e).__name__}: {str(e)[:150]}", "finding_key": f"{backend}:scenario-error"})
    res.failures = res.failures[:10]
    res.cases = n
    res.distinct = n
    res.samples = [{"occurrences": 2, "expect": "2 launches with x=0 and x=1"}]
    return res


def cron_against_brute_force(ctx: RunCtx) -> BoundedResult:
    """CronCondition._is_satisfied_by against an independent evaluation of the schedule (minute and hour fields with *, */n, lists), for polls and last
    executions minutes, hours and whole days apart.  Windows of at least a minute only (F-C13-4 is the known finding below that)."""
    from datetime import UTC, datetime, timedelta
    from pynenc.trigger.conditions.cron import CronCondition, CronContext
    res = BoundedResult("cron_against_brute_force", "expressions {* * * * *, */5 * * * *, 0 * * * *, 30 2 * * *, 15,45 */6 * * *} x min_interval {50 s, 1 h} x polls at "
                        "second offsets {0, 20, 59} of 12 minutes around scheduled instants x last execution in {never, 1 min, 61 min, 1 day + 10 s, 2 days - 5 s, 3 days + 40 s} earlier: "
                        "decision compared with a brute-force search for the most recent scheduled minute")

    def field(spec, lo, hi):
        out = set()
        for part in spec.split(","):
            if part == "*":
                out |= set(range(lo, hi + 1))
            elif part.startswith("*/"):
                out |= set(range(lo, hi + 1, int(part[2:])))
            else:
                out.add(int(part))
        return out
    n = 0
    base = datetime(2026, 3, 10, 2, 25, 0, tzinfo=UTC)
    for expr in ("* * * * *", "*/5 * * * *", "0 * * * *", "30 2 * * *", "15,45 */6 * * *"):
        mins, hours = field(expr.split()[0], 0, 59), field(expr.split()[1], 0, 23)
        for min_interval in (50, 3600):
            cond = CronCondition(expr, min_interval_seconds=min_interval) if "min_interval_seconds" in CronCondition.__init__.__code__.co_varnames else CronCondition(expr)
            if getattr(cond, "min_interval_seconds", None) != min_interval:
                try:
                    cond.min_interval_seconds = min_interval
                except Exception:      # noqa: BLE001
                    pass
            window = getattr(cond, "check_window_seconds", 60)
            mi = getattr(cond, "min_interval_seconds", min_interval)
            if window < 60:
                continue
            for minute in range(12):
                for sec in (0, 20, 59):
                    t = base + timedelta(minutes=minute, seconds=sec)
                    m = t.replace(second=0, microsecond=0)
                    while not (m.minute in mins and m.hour in hours):
                        m -= timedelta(minutes=1)
                    for back in (None, 60, 3660, 86410, 2 * 86400 - 5, 3 * 86400 + 40):
                        n += 1
                        last = None if back is None else t - timedelta(seconds=back)
                        want = (t - m).total_seconds() <= window and (last is None or ((t - last).total_seconds() >= mi and last < m))
                        if getattr(cond, "strict_timing", False):
                            want = want and (t - m).total_seconds() <= getattr(cond, "precision_tolerance_seconds", 0)
                        got = bool(cond._is_satisfied_by(CronContext(timestamp=t, last_execution=last)))
                        if got != want and len(res.failures) < 8:
                            res.failures.append({"what": f"cron '{expr}' min_interval={mi}s window={window}s: poll {t.isoformat()} with last execution " +
                                                         ("never" if last is None else f"{back} s earlier") + f": _is_satisfied_by = {got}, the schedule says {want} (most recent scheduled minute {m.isoformat()})",
                                                 "input": {"cron": expr, "poll": t.isoformat(), "last_execution_seconds_earlier": back, "min_interval": mi}, "finding_key": "cron:decision"})
    res.cases = n
    res.distinct = n
    res.samples = [{"cron": "30 2 * * *", "poll": "2026-03-10T02:30:20+00:00", "last_execution_seconds_earlier": 86410}]
    return res


def build(ctx: RunCtx) -> Prop:
    T = Types(ctx.src)
    reg = base_registry(ctx.src, T)
    verify = mem_contracts(reg) + sqlite_contracts(reg) + cron_contract(reg) + cron_poll_contract(reg)
    return Prop(
        pid=PID, title="cron decision = spec under the croniter schedule axioms; compare-and-swap on the last cron execution and trigger-run claims "
                       "(Mem proved incl. lock ownership, SQLite glue incl. BEGIN IMMEDIATE); loop scenarios bounded",
        level="other", technique="contract-based deductive verification (AST->z3 VCs, assumed croniter schedule contract with conformance test, lock/transaction ownership) + bounded loop scenarios",
        registry=reg, verify=verify, lemmas=[launch_loop_shape, croniter_conformance, cron_monotone_lemma], bounded=[loop_scenarios, cron_against_brute_force],
        replayers={"*croniter.match-is-exact*": lambda ctx, ob: ob.get("extra", {}).get("replay", {"confirmed": False})},
        assumptions=["croniter(expr, base).get_next/get_prev return the least / greatest scheduled instant after / before base; the schedule recurs for ever",
                     "croniter.match(expr, t) <=> t is a scheduled instant (ASSUMED by the proof; the conformance test shows the real library has minute precision: finding F-C13-4)",
                     "threading.Lock is mutual exclusion; BEGIN IMMEDIATE gives a single writer until commit",
                     "datetimes are real numbers of seconds; isoformat is an injective function"],
        trusted_base=["pyvc VC generator", "z3 5.1", "croniter (assumed contract)"],
        not_decided="two concurrent trigger-loop iterations beyond the ownership obligations; all of cron syntax (the expression is abstract); "
                    "trigger_loop_iteration itself (per-occurrence launch and arguments) is only in the bounded scenarios.",
        min_obligations=15,
    )
