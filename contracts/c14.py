"""C14 — process-based runners keep their worker pool at capacity when workers die; heartbeats only for live workers."""
from __future__ import annotations

import z3

from pyvc import ops
from pyvc.contract import Case, Contract, LoopSpec, Registry, Shape
from pyvc.prop import BoundedResult, Prop, RunCtx
from pyvc.types import BOOL, INT, REAL, STR, Atom, MapT, ObjT, Opt, SeqT, SetT
from pyvc.values import NONE, OK, Val, boolval, fresh_name, mk_fresh

from .common import Types, base_registry

PID = "C14"
PPR = "pynenc.runner.persistent_process_runner"
MTR = "pynenc.runner.multi_thread_runner"
BR = "pynenc.runner.base_runner"
PROC = Atom("Proc")
WORKERS = MapT(STR, PROC)
alive = z3.Function("alive_at_scan", PROC.sort(), z3.BoolSort())   # OS-level liveness of a process at the time of the scan
SSTR = SetT(STR)


def os_model(reg: Registry):
    """multiprocessing.Process / uuid4 as assumed dependencies."""
    def h_process(eng, st, recv, args, kwargs):
        return [(OK, st, mk_fresh(PROC, "proc"))]
    for key in (f"{PPR}:Process", f"{MTR}:Process", "multiprocessing:Process", "multiprocessing.context:Process", "multiprocessing.process:Process"):
        reg.add(Contract(key=key, handler=h_process, assumed=True, note="Process(...): a new, not yet started process object"))
    reg.value_methods = getattr(reg, "value_methods", {})
    reg.value_attrs = getattr(reg, "value_attrs", {})

    def start(eng, st, recv, a, kw):
        st.assume(alive(recv.term))
        st.ghost["g:started"] = Val(z3.Store(st.ghost["g:started"].term, recv.term, True), SetT(PROC)) if "g:started" in st.ghost else Val(
            z3.Store(SetT(PROC).empty(), recv.term, True), SetT(PROC))
        return [(OK, st, NONE)]
    reg.value_methods[("Proc", "start")] = start
    reg.value_methods[("Proc", "is_alive")] = lambda eng, st, recv, a, kw: [(OK, st, Val(alive(recv.term), BOOL))]
    reg.value_methods[("Proc", "join")] = lambda eng, st, recv, a, kw: [(OK, st, NONE)]
    reg.value_attrs[("Proc", "pid")] = lambda eng, st, base: Val(Opt(INT).some(z3.Int(fresh_name("pid"))), Opt(INT))

    class UuidNative:
        pass
    from pyvc.values import BoundMeth, Native

    class Uuid(Native):
        def vc_getattr(self, eng, st, name):
            return BoundMeth(self, name)

        def vc_call(self, eng, st, name, args, kwargs):
            v = mk_fresh(STR, "uuid")
            st.assume(z3.Length(v.term) > 0)
            # uuid4: different from every key already used in a str-keyed table of the object under verification
            for (oid, fld), cur in list(st.heap.items()):
                if isinstance(cur, Val) and isinstance(cur.ty, MapT) and cur.ty.key == STR:
                    st.assume(cur.ty.opt.is_none(z3.Select(cur.term, v.term)))
            v.template = None
            return [(OK, st, v)]
    reg.natives["uuid:"] = Uuid()


def keys(m):
    k = z3.Const(fresh_name("wk"), STR.sort())
    return z3.Lambda([k], WORKERS.opt.is_some(z3.Select(m, k)))


def card_keys(m):
    return ops.card(keys(m), STR.sort())


def all_alive(m):
    k = z3.Const(fresh_name("ak"), STR.sort())
    return z3.ForAll([k], z3.Implies(WORKERS.opt.is_some(z3.Select(m, k)), alive(WORKERS.opt.val(z3.Select(m, k)))))


def contracts(T: Types, reg: Registry):
    os_model(reg)
    reg.add_shape(Shape("RunnerConf", fields={"runner_loop_sleep_time_sec": REAL, "enforce_max_processes": BOOL, "min_processes": INT}))
    reg.add_shape(Shape("BrokerCount", fields={}, abstract_methods={"count_invocations": "BrokerCount.count_invocations"}))
    reg.add(Contract(key="BrokerCount.count_invocations", shape="BrokerCount", params={}, result=INT, frame=[], assumed=True, check_invariants=False,
                     effect_events=False, cases=[Case("count", ensures=[("nonneg", lambda c: c.result >= 0)])]))
    reg.add_shape(Shape("RunnerApp", fields={"broker": ObjT("BrokerCount"), "orchestrator": ObjT("HeartbeatSink")}))
    reg.add_shape(Shape("HeartbeatSink", fields={"reported": SSTR, "calls": INT}, abstract_methods={"register_runner_heartbeats": "HeartbeatSink.register"}))
    reg.add(Contract(key="HeartbeatSink.register", shape="HeartbeatSink", params={"runner_ids": SSTR, "can_run_atomic_service": BOOL},
                     defaults={"can_run_atomic_service": lambda eng, st: boolval(False)}, frame=["reported", "calls"], assumed=True, check_invariants=False,
                     cases=[Case("recorded", ensures=[("adds-exactly-these", lambda c: c.f("reported") == ops.set_union(c.old("reported"), c.arg("runner_ids"))),
                                                      ("one-call", lambda c: c.f("calls") == c.old("calls") + 1)])]))
    import re as _re
    reg.dropped_calls.append(_re.compile(r"runner_context\.to_json$"))   # serialises the parent context for the child's argv: no effect
    fields = {"child_runner_ids": WORKERS, "num_processes": INT, "max_processes": INT, "running": BOOL, "conf": ObjT("RunnerConf"),
              "app": ObjT("RunnerApp"), "shared_status": MapT(STR, Atom("ProcStatus")), "runner_cache": Atom("Cache"), "stop_event": Atom("Event")}
    reg.add_shape(Shape("PersistentProcessRunner", fields=dict(fields), cls=(PPR, "PersistentProcessRunner")))
    reg.add_shape(Shape("MultiThreadRunner", fields=dict(fields), cls=(MTR, "MultiThreadRunner")))
    for shp in ("PersistentProcessRunner", "MultiThreadRunner"):
        reg.shapes[shp].auto_fields = True      # further bookkeeping attributes of the class are "don't care" fields of their annotated type
    W, W0 = (lambda c: c.f("child_runner_ids")), (lambda c: c.old("child_runner_ids"))
    out = []

    def alive_ids(c):
        k = z3.Const(fresh_name("lk"), STR.sort())
        cell = z3.Select(W0(c), k)
        return z3.Lambda([k], z3.And(WORKERS.opt.is_some(cell), alive(WORKERS.opt.val(cell))))
    for mod, cls in ((PPR, "PersistentProcessRunner"), (MTR, "MultiThreadRunner")):
        out.append(Contract(
            key=f"{mod}:{cls}.get_active_child_runner_ids", shape=cls, params={}, result=SSTR, frame=[],
            cases=[Case("alive-only", ensures=[("exactly-the-tracked-ids-whose-process-is-alive", lambda c: c.result == alive_ids(c))])],
            properties=[PID, "C04"]))

    # ---------------- PersistentProcessRunner
    def spawned(c):
        r = c.result
        k = Opt(STR).val(r)
        return z3.And(Opt(STR).is_some(r), z3.Not(WORKERS.opt.is_some(z3.Select(W0(c), k))), WORKERS.opt.is_some(z3.Select(W(c), k)),
                      alive(WORKERS.opt.val(z3.Select(W(c), k))), W(c) == z3.Store(W0(c), k, z3.Select(W(c), k)),
                      card_keys(W(c)) == card_keys(W0(c)) + 1)
    spawn = Contract(
        key=f"{PPR}:PersistentProcessRunner._spawn_persistent_process", shape="PersistentProcessRunner", params={}, result=Opt(STR),
        frame=["child_runner_ids"],
        cases=[Case("not-running", when=lambda c: z3.Not(c.old("running")), raises="RuntimeError", ensures=[("nothing-tracked", lambda c: W(c) == W0(c))]),
               Case("spawned", when=lambda c: c.old("running"), ensures=[
                   ("one-new-alive-worker-under-a-fresh-id-others-untouched", spawned)])],
        properties=[PID], note="assumes Process.start() yields an alive process with a pid, uuid4 ids are fresh")
    out.append(spawn)

    def pruned(c, seen):
        k = z3.Const(fresh_name("pk"), STR.sort())
        return z3.ForAll([k], z3.Select(W(c), k) == z3.If(z3.Select(seen, k), WORKERS.opt.none(), z3.Select(W0(c), k)))

    def dead_ids(c):
        k = z3.Const(fresh_name("dk"), STR.sort())
        cell = z3.Select(W0(c), k)
        return z3.Lambda([k], z3.And(WORKERS.opt.is_some(cell), z3.Not(alive(WORKERS.opt.val(cell)))))
    ppr_loop = Contract(
        key=f"{PPR}:PersistentProcessRunner.runner_loop_iteration", shape="PersistentProcessRunner", params={}, frame=["child_runner_ids"],
        requires=[("runner-is-running", lambda c: c.f("running")), ("pool-not-over-capacity", lambda c: card_keys(c.f("child_runner_ids")) >= 0)],
        loops={
            0: LoopSpec(modifies=["child_runner_ids"], inv=[
                ("dead-workers-seen-so-far-are-forgotten-others-untouched", lambda c: pruned(c, c.x("seen"))),
                ("the-scan-found-exactly-the-dead-ones", lambda c: c.x("full") == dead_ids(c)),
            ]),
            1: LoopSpec(modifies=["child_runner_ids"], inv=[
                ("pool-grows-by-one-per-spawn", lambda c: card_keys(W(c)) == c.v("current_count") + c.x("i")),
                ("every-tracked-worker-is-alive", lambda c: all_alive(W(c))),
                ("still-running", lambda c: c.f("running")),
                ("live-workers-are-kept", lambda c: z3.ForAll([z3.Const("lw", STR.sort())], z3.Implies(
                    z3.Select(alive_ids(c), z3.Const("lw", STR.sort())), z3.Select(W(c), z3.Const("lw", STR.sort())) == z3.Select(W0(c), z3.Const("lw", STR.sort()))))),
            ]),
        },
        cases=[Case("maintained", ensures=[
            ("no-dead-worker-stays-tracked", lambda c: all_alive(W(c))),
            ("pool-refilled-to-the-configured-size", lambda c: z3.Implies(card_keys(W0(c)) <= c.f("num_processes"), card_keys(W(c)) >= c.f("num_processes"))),
            ("live-workers-are-kept", lambda c: z3.ForAll([z3.Const("lw", STR.sort())], z3.Implies(
                z3.Select(alive_ids(c), z3.Const("lw", STR.sort())), z3.Select(W(c), z3.Const("lw", STR.sort())) == z3.Select(W0(c), z3.Const("lw", STR.sort()))))),
        ])], properties=[PID])
    out.append(ppr_loop)

    # ---------------- MultiThreadRunner
    reg.add(Contract(key=f"{MTR}:MultiThreadRunner._safe_remove_shared_state", shape="MultiThreadRunner", params={"key": STR}, frame=["shared_status"],
                     cases=[Case("removed")], assumed=True, check_invariants=False, effect_events=False,
                     note="drops the worker's entry of the Manager dict (not part of the pool view)"))
    cleanup = Contract(
        key=f"{MTR}:MultiThreadRunner._cleanup_dead_processes", shape="MultiThreadRunner", params={}, frame=["child_runner_ids", "shared_status"],
        loops={0: LoopSpec(modifies=["child_runner_ids", "shared_status"], inv=[
            ("dead-workers-seen-so-far-are-forgotten-others-untouched", lambda c: pruned(c, c.x("seen"))),
            ("the-scan-found-exactly-the-dead-ones", lambda c: c.x("full") == dead_ids(c)),
        ])},
        cases=[Case("pruned", ensures=[
            ("exactly-the-dead-workers-are-forgotten", lambda c: pruned(c, dead_ids(c))),
            ("no-dead-worker-stays-tracked", lambda c: all_alive(W(c))),
        ])], properties=[PID])
    out.append(cleanup)

    def spawned_mtr(c):
        k = z3.Const(fresh_name("nk"), STR.sort())
        return z3.Exists([k], z3.And(z3.Not(WORKERS.opt.is_some(z3.Select(W0(c), k))), WORKERS.opt.is_some(z3.Select(W(c), k)),
                                     alive(WORKERS.opt.val(z3.Select(W(c), k))), W(c) == z3.Store(W0(c), k, z3.Select(W(c), k)),
                                     card_keys(W(c)) == card_keys(W0(c)) + 1))
    reg.add(Contract(key=f"{MTR}:MultiThreadRunner._spawn_thread_runner_process", shape="MultiThreadRunner", params={}, frame=["child_runner_ids", "shared_status"],
                     cases=[Case("spawned", ensures=[("one-new-alive-worker-under-a-fresh-id", spawned_mtr)])], assumed=True, check_invariants=False,
                     note="spawns one ThreadRunner worker process under a fresh uuid4 id (Process.start assumed to succeed)"))
    scale = Contract(
        key=f"{MTR}:MultiThreadRunner._scale_up_processes", shape="MultiThreadRunner", params={}, frame=["child_runner_ids", "shared_status"],
        requires=[("enforce-max-processes", lambda c: c.f("conf.enforce_max_processes")), ("tracked-workers-alive", lambda c: all_alive(c.f("child_runner_ids")))],
        loops={0: LoopSpec(modifies=["child_runner_ids", "shared_status"], inv=[
            ("count-matches-the-pool", lambda c: c.v("current_processes") == card_keys(W(c))),
            ("every-tracked-worker-is-alive", lambda c: all_alive(W(c))),
            ("only-grows", lambda c: card_keys(W(c)) >= card_keys(W0(c))),
        ])},
        cases=[Case("scaled", ensures=[
            ("pool-at-least-max_processes", lambda c: card_keys(W(c)) >= c.f("max_processes")),
            ("every-tracked-worker-is-alive", lambda c: all_alive(W(c))),
        ])], properties=[PID])
    out.append(scale)
    mtr_loop = Contract(
        key=f"{MTR}:MultiThreadRunner.runner_loop_iteration", shape="MultiThreadRunner", params={}, frame=["child_runner_ids", "shared_status"],
        requires=[("enforce-max-processes", lambda c: c.f("conf.enforce_max_processes"))],
        cases=[Case("maintained", ensures=[
            ("no-dead-worker-stays-tracked", lambda c: all_alive(W(c))),
            ("pool-at-least-max_processes", lambda c: card_keys(W(c)) >= c.f("max_processes")),
        ])], properties=[PID])
    out.append(mtr_loop)
    for c in out:
        reg.add(c)
    return out


def pool_after_deaths(ctx: RunCtx) -> BoundedResult:
    """Bounded stand-in on the real loop code with controllable stand-ins for the OS process objects."""
    import itertools
    from unittest.mock import MagicMock, patch
    res = BoundedResult("pool_after_deaths", "PersistentProcessRunner / MultiThreadRunner real loop iteration with stand-in Process objects: pool sizes 1..4, "
                        "every subset of workers killed, two further iterations; reported heartbeats must name only live workers")
    n = 0

    class FakeProc:
        _pid = itertools.count(1000)

        def __init__(self, *a, **k):
            self._alive = False
            self.pid = None

        def start(self):
            self._alive, self.pid = True, next(FakeProc._pid)

        def is_alive(self):
            return self._alive

        def join(self, timeout=None):
            pass

        def terminate(self):
            self._alive = False

        def kill(self):
            self._alive = False
    from pynenc.runner import multi_thread_runner as mtr, persistent_process_runner as ppr
    from .realapp import real_app
    for size in (1, 2, 3, 4):
        for dead in itertools.chain.from_iterable(itertools.combinations(range(size), k) for k in range(size + 1)):
            for which in ("ppr", "mtr"):
                n += 1
                with real_app("sqlite") as app:
                    if which == "ppr":
                        with patch.object(ppr, "Process", FakeProc), patch.object(ppr.time, "sleep", lambda s: None):
                            r = ppr.PersistentProcessRunner(app)
                            r.running, r.num_processes, r.stop_event, r.runner_cache = True, size, MagicMock(), {}
                            r.child_runner_ids = {}
                            for _ in range(size):
                                r._spawn_persistent_process()
                            procs = list(r.child_runner_ids.values())
                            for d in dead:
                                procs[d]._alive = False
                            reported = set(r.get_active_child_runner_ids())
                            live_ids = {k for k, p in r.child_runner_ids.items() if p._alive}
                            r.runner_loop_iteration()
                            ok = reported == live_ids and len(r.child_runner_ids) == size and all(p._alive for p in r.child_runner_ids.values())
                    else:
                        with patch.object(mtr, "Process", FakeProc):
                            r = mtr.MultiThreadRunner(app)
                            r.running, r.max_processes, r.shared_status, r.runner_cache = True, size, {}, {}
                            r.child_runner_ids = {}
                            r.conf.enforce_max_processes = True
                            for _ in range(size):
                                r._spawn_thread_runner_process()
                            procs = list(r.child_runner_ids.values())
                            for d in dead:
                                procs[d]._alive = False
                            reported = set(r.get_active_child_runner_ids())
                            live_ids = {k for k, p in r.child_runner_ids.items() if p._alive}
                            r.runner_loop_iteration()
                            ok = reported == live_ids and len(r.child_runner_ids) == size and all(p._alive for p in r.child_runner_ids.values())
                    if not ok and len(res.failures) < 10:
                        res.failures.append({"what": f"{which}: pool of {size}, workers {list(dead)} killed: after one loop iteration tracked={len(r.child_runner_ids)}, "
                                                     f"all alive={all(p._alive for p in r.child_runner_ids.values())}, heartbeats for live only={reported == live_ids}",
                                             "input": {"runner": which, "size": size, "killed": list(dead)}, "finding_key": f"{which}:pool"})
    res.cases = n
    res.distinct = n
    res.samples = [{"runner": "mtr", "size": 3, "killed": [0, 2]}]
    return res


def build(ctx: RunCtx) -> Prop:
    T = Types(ctx.src)
    reg = base_registry(ctx.src, T)
    verify = contracts(T, reg)
    return Prop(
        pid=PID, title="loop iteration of PersistentProcessRunner / MultiThreadRunner: dead workers forgotten, pool refilled, live workers kept; "
                       "get_active_child_runner_ids = exactly the tracked ids whose process is alive",
        level="proof", technique="contract-based deductive verification (AST->z3 VCs; OS processes as abstract objects with an uninterpreted liveness predicate) + bounded stand-in processes on the real loop code",
        registry=reg, verify=verify, bounded=[pool_after_deaths],
        assumptions=["Process.start() yields an alive process with a pid; is_alive() is the OS truth at the time of the scan (deaths between two statements of one iteration are picked up by the next iteration)",
                     "uuid4 worker ids are fresh", "len(dict) = number of keys (finite-set cardinality facts are emitted only at insertions/removals)",
                     "MultiThreadRunner is verified for enforce_max_processes=True (the default)"],
        trusted_base=["pyvc VC generator", "z3 5.1"],
        not_decided="OS process behaviour; ProcessRunner._reclaim_available_slots is covered by the bounded stand-in only.",
        min_obligations=30,
    )
