"""C15 — arguments and results round-trip unchanged; call identity is canonical; external values are content-addressed."""
from __future__ import annotations

import itertools
import re

import z3

from pyvc.contract import Case, Contract, LoopSpec, Registry, Shape
from pyvc.ops import Unsupported
from pyvc.prop import BoundedResult, Prop, RunCtx
from pyvc.solve import Obligation
from pyvc.types import BOOL, INT, REAL, STR, Atom, MapT, ObjT, Opt, Record, SeqT, SetT
from pyvc.values import NONE, OK, RAISE, BoundMeth, ExcVal, Native, TupleVal, Val, fresh_name, mk_fresh

from .common import Types, base_registry, enum_from_ast

PID = "C15"
CALL = "pynenc.call"
CDS = "pynenc.client_data_store.base_client_data_store"
ARGS = MapT(STR, STR)
SEQS = SeqT(STR)
Q = z3.Function("json_dumps", z3.StringSort(), z3.StringSort())                 # json.dumps(s, ensure_ascii=False) on strings
sha_hex = z3.Function("sha256_hexdigest", z3.StringSort(), z3.StringSort())
canon = z3.Function("sorted_keys", z3.ArraySort(z3.StringSort(), z3.BoolSort()), SEQS.sort())   # sorted(set): a function of the SET
E = z3.Function("pairs_encoding", SEQS.sort(), ARGS.sort(), z3.StringSort())    # fold: encoding of the pairs of the listed keys, in order
HEX64 = z3.Loop(z3.Union(z3.Range("0", "9"), z3.Range("a", "f")), 64, 64)


def enc_step(prefix_seq, k, m):
    """definition of the fold E by recursion on the key sequence (one instance)"""
    v = ARGS.opt.val(z3.Select(m, k))
    return E(z3.Concat(prefix_seq, z3.Unit(k)), m) == z3.Concat(E(prefix_seq, m), Q(k), z3.StringVal("="), Q(v), z3.StringVal(";"))


def natives(reg: Registry):
    class Json(Native):
        def vc_getattr(self, eng, st, name):
            return BoundMeth(self, name)

        def vc_call(self, eng, st, name, args, kwargs):
            if name == "dumps" and isinstance(args[0], Val) and args[0].ty == STR:
                return [(OK, st, Val(Q(args[0].term), STR))]
            raise Unsupported(f"json.{name}")
    reg.natives["json:"] = Json()

    class HashObj(Native):
        """hashlib.sha256(): the bytes fed so far live in the path state (ghost), so loops can havoc / constrain them"""

        def __init__(self, gname):
            self.gname = gname

        def vc_getattr(self, eng, st, name):
            return BoundMeth(self, name)

        def vc_call(self, eng, st, name, args, kwargs):
            cur = st.ghost[self.gname]
            if name == "update":
                st.ghost[self.gname] = Val(z3.Concat(cur.term, args[0].term), STR)
                return [(OK, st, NONE)]
            if name == "hexdigest":
                h = sha_hex(cur.term)
                st.assume(z3.And(z3.Length(h) == 64, z3.InRe(h, HEX64)))
                return [(OK, st, Val(h, STR))]
            raise Unsupported(f"hash.{name}")

    class Hashlib(Native):
        def vc_getattr(self, eng, st, name):
            return BoundMeth(self, name)

        def vc_call(self, eng, st, name, args, kwargs):
            if name == "sha256":
                g = "g:hash" + fresh_name("")
                st.ghost[g] = Val(args[0].term if args else z3.StringVal(""), STR)
                st.ghost["$hasher"] = g
                return [(OK, st, HashObj(g))]
            raise Unsupported(f"hashlib.{name}")
    reg.natives["hashlib:"] = Hashlib()

    def sorted_model(eng, st, v, kwargs):
        if kwargs:
            raise Unsupported("sorted with key=/reverse=")
        s = v.term if isinstance(v.ty, SetT) else None
        if s is None or v.ty.elem != STR:
            raise Unsupported("sorted of a non-set / non-str collection")
        r = canon(s)
        from pyvc import ops
        # sorted(set): a duplicate-free sequence holding exactly the elements of the set
        st.assume(ops.seq_elems(r, z3.StringSort()) == s)
        return [(OK, st, Val(r, SEQS))]
    reg.sorted_model = sorted_model


def contracts(T: Types, reg: Registry, ctx):
    natives(reg)
    RK = enum_from_ast(ctx.src, "pynenc.serializer.constants", "ReservedKeys")
    reg.enums["pynenc.serializer.constants:ReservedKeys"] = RK
    PREFIX = z3.StringVal(str(RK.values["CLIENT_DATA"]))
    out = []
    # ------------------------------------------------------------------ compute_args_id
    m = lambda c: c.arg("serialized_args")
    keyset = lambda c: z3.Lambda([z3.Const("ck", z3.StringSort())], ARGS.opt.is_some(z3.Select(m(c), z3.Const("ck", z3.StringSort()))))
    data = lambda c: c.st.ghost[c.st.ghost["$hasher"]].term
    args_id = Contract(
        key=f"{CALL}:compute_args_id", params={"serialized_args": ARGS}, result=STR,
        loops={0: LoopSpec(inv=[
            ("hashed-bytes=encoding-of-the-sorted-prefix", lambda c: data(c) == E(z3.SubSeq(c.x("seq"), 0, c.x("i")), m(c))),
            ("iterates-the-sorted-key-sequence", lambda c: z3.And(c.x("seq") == canon(keyset(c)),
                                                                  z3.ForAll([z3.Const("sk", z3.StringSort())], z3.Implies(
                                                                      z3.Select(c.x("seen_elems"), z3.Const("sk", z3.StringSort())),
                                                                      ARGS.opt.is_some(z3.Select(m(c), z3.Const("sk", z3.StringSort()))))))),
        ], note="fold definition instances are supplied as hints")},
        cases=[Case("identity", ensures=[
            ("empty-arguments=>'no_args'", lambda c: z3.Implies(m(c) == ARGS.empty(), c.result == z3.StringVal("no_args"))),
            ("otherwise-sha256-of-the-encoding-of-ALL-pairs-in-sorted-key-order(a function of the mapping, not of its insertion order)",
             lambda c: z3.Implies(m(c) != ARGS.empty(), c.result == sha_hex(E(canon(keyset(c)), m(c))))),
        ])], properties=[PID])
    args_id.loop_hints = {0: lambda c: [
        E(z3.SubSeq(c.x("seq"), 0, 0), m(c)) == z3.StringVal(""),                                     # E([]) = ""
        enc_step(z3.SubSeq(c.x("seq"), 0, c.x("i")), c.x("seq")[c.x("i")], m(c)),                      # E(s ++ [k]) = E(s) ++ Q(k)=Q(m[k]);
        z3.SubSeq(c.x("seq"), 0, z3.Length(c.x("seq"))) == c.x("seq"),
    ]}
    out.append(args_id)

    # ------------------------------------------------------------------ client data store
    PYOBJ = Record("PyObj", [("is_str", BOOL), ("text", STR), ("other", Atom("Opaque"))])
    S = z3.Function("serializer_serialize", PYOBJ.sort(), z3.StringSort())
    D = z3.Function("serializer_deserialize", z3.StringSort(), PYOBJ.sort())
    reg.add_shape(Shape("Serializer", fields={}, abstract_methods={"serialize": "Serializer.serialize", "deserialize": "Serializer.deserialize"}))
    reg.add(Contract(key="Serializer.serialize", shape="Serializer", params={"obj": PYOBJ}, result=STR, frame=[], assumed=True, check_invariants=False,
                     effect_events=False, cases=[Case("s", ensures=[("S", lambda c: z3.And(c.result == S(c.arg("obj")), D(c.result) == c.arg("obj"),
                                                                                           z3.Not(z3.PrefixOf(PREFIX, c.result))))])],
                     note="configured serializer: deserialize(serialize(x)) == x on its domain (bounded stand-in serializer_round_trips)"))
    reg.add(Contract(key="Serializer.deserialize", shape="Serializer", params={"data": STR}, result=PYOBJ, frame=[], assumed=True, check_invariants=False,
                     effect_events=False, cases=[Case("d", ensures=[("D", lambda c: c.result == D(c.arg("data")))])]))
    reg.add_shape(Shape("CdsConf", fields={"min_size_to_cache": INT, "max_size_to_cache": INT, "warn_threshold": INT, "disable_client_data_store": BOOL,
                                           "local_cache_size": INT}))
    reg.add_shape(Shape("CdsApp", fields={"serializer": ObjT("Serializer")}))
    _auto = True
    STORE = MapT(STR, STR)
    CACHE = MapT(STR, PYOBJ)
    reg.add_shape(Shape("ClientDataStore", fields={"storage": STORE, "_deserialized_cache": CACHE, "conf": ObjT("CdsConf"), "app": ObjT("CdsApp")},
                        cls=(CDS, "BaseClientDataStore"), abstract_methods={"_store": "Cds._store", "_retrieve": "Cds._retrieve",
                                                                            "_cache_deserialized": "Cds._cache_deserialized", "_log_size_warning": "Cds._log"},
                        invariants=[("CA:every-stored-value-sits-under-its-own-content-key(sha256 collision-free: assumed)", lambda c: z3.And(
                            z3.ForAll([z3.Const("sk", z3.StringSort())], z3.Implies(STORE.opt.is_some(z3.Select(c.f("storage"), z3.Const("sk", z3.StringSort()))),
                                                                                  z3.Const("sk", z3.StringSort()) == z3.Concat(PREFIX, z3.StringVal(":"), sha_hex(
                                                                                      STORE.opt.val(z3.Select(c.f("storage"), z3.Const("sk", z3.StringSort()))))))),
                            z3.ForAll([z3.Const("ha", z3.StringSort()), z3.Const("hb", z3.StringSort())], z3.Implies(
                                sha_hex(z3.Const("ha", z3.StringSort())) == sha_hex(z3.Const("hb", z3.StringSort())), z3.Const("ha", z3.StringSort()) == z3.Const("hb", z3.StringSort()))))),
                                    ("LRU:a-cached-object-is-what-the-store-would-give", lambda c: z3.ForAll(
                            [z3.Const("ck", z3.StringSort())], z3.Implies(CACHE.opt.is_some(z3.Select(c.f("_deserialized_cache"), z3.Const("ck", z3.StringSort()))), z3.And(
                                STORE.opt.is_some(z3.Select(c.f("storage"), z3.Const("ck", z3.StringSort()))),
                                CACHE.opt.val(z3.Select(c.f("_deserialized_cache"), z3.Const("ck", z3.StringSort()))) ==
                                D(STORE.opt.val(z3.Select(c.f("storage"), z3.Const("ck", z3.StringSort()))))))))]))
    reg.shapes["ClientDataStore"].auto_fields = True     # further bookkeeping attributes are "don't care" fields
    A = dict(assumed=True, check_invariants=False)
    reg.add(Contract(key="Cds._log", shape="ClientDataStore", params={"size": INT, "reason": STR}, frame=[], effect_events=False, cases=[Case("logged")], **A))
    reg.add(Contract(key="Cds._store", shape="ClientDataStore", params={"key": STR, "value": STR}, frame=["storage"],
                     cases=[Case("upsert", ensures=[("stored-under-the-key", lambda c: c.f("storage") == z3.Store(c.old("storage"), c.arg("key"), STORE.opt.some(c.arg("value"))))])],
                     note="backend upsert (MemClientDataStore._store proved below; SQLite bounded)", **A))
    reg.add(Contract(key="Cds._retrieve", shape="ClientDataStore", params={"key": STR}, result=STR, frame=[], effect_events=False, cases=[
        Case("missing", when=lambda c: STORE.opt.is_none(z3.Select(c.old("storage"), c.arg("key"))), raises="KeyError", exact=True),
        Case("found", when=lambda c: STORE.opt.is_some(z3.Select(c.old("storage"), c.arg("key"))),
             ensures=[("stored-value", lambda c: c.result == STORE.opt.val(z3.Select(c.old("storage"), c.arg("key"))))])], **A))
    def cache_post(c):
        ek = z3.Const("ek", z3.StringSort())
        new, old = c.f("_deserialized_cache"), c.old("_deserialized_cache")
        return z3.ForAll([ek], z3.Implies(CACHE.opt.is_some(z3.Select(new, ek)), z3.Or(
            z3.And(ek == c.arg("key"), CACHE.opt.val(z3.Select(new, ek)) == c.arg("obj")),
            z3.Select(new, ek) == z3.Select(old, ek))))
    reg.add(Contract(key="Cds._cache_deserialized", shape="ClientDataStore", params={"key": STR, "obj": PYOBJ}, frame=["_deserialized_cache"],
                     cases=[Case("cached", ensures=[("only-adds-this-entry-or-evicts", cache_post)])],
                     note="LRU insert with eviction (OrderedDict.popitem is outside the encoder): assumed, exercised by the bounded stand-in", **A))

    def is_ref(s):
        return z3.PrefixOf(PREFIX, s)
    gen_key = Contract(
        key=f"{CDS}:_generate_key", params={"value": STR}, result=STR,
        cases=[Case("content-address", ensures=[
            ("reserved-prefix+':'+sha256-of-the-WHOLE-content", lambda c: c.result == z3.Concat(PREFIX, z3.StringVal(":"), sha_hex(c.arg("value")))),
            ("is-a-reference", lambda c: is_ref(c.result)),
        ])], properties=[PID, "C05"])
    out.append(gen_key)
    reg.add(gen_key)
    size = lambda c: z3.Length(c.arg("serialized"))
    inline = lambda c: z3.Or(size(c) < c.f("conf.min_size_to_cache"), z3.And(c.f("conf.max_size_to_cache") > 0, size(c) > c.f("conf.max_size_to_cache")))
    maybe = Contract(
        key=f"{CDS}:BaseClientDataStore._maybe_store", shape="ClientDataStore", params={"serialized": STR}, result=STR, frame=["storage"],
        cases=[
            Case("inline", when=inline, ensures=[("returned-as-is-nothing-stored", lambda c: z3.And(c.result == c.arg("serialized"), c.f("storage") == c.old("storage")))]),
            Case("external", when=lambda c: z3.Not(inline(c)), ensures=[
                ("reference-is-the-content-key", lambda c: c.result == z3.Concat(PREFIX, z3.StringVal(":"), sha_hex(c.arg("serialized")))),
                ("content-stored-under-its-key-nothing-else-changes", lambda c: c.f("storage") == z3.Store(c.old("storage"), c.result, STORE.opt.some(c.arg("serialized")))),
            ])], properties=[PID])
    out.append(maybe)
    reg.add(maybe)

    def resolve_spec(c, r, storage):
        return z3.If(is_ref(r), D(STORE.opt.val(z3.Select(storage, r))), D(r))
    resolve = Contract(
        key=f"{CDS}:BaseClientDataStore.resolve", shape="ClientDataStore", params={"data": STR}, result=PYOBJ, frame=["_deserialized_cache"],
        cases=[
            Case("dangling-reference", when=lambda c: z3.And(is_ref(c.arg("data")), STORE.opt.is_none(z3.Select(c.old("storage"), c.arg("data")))), raises="KeyError", exact=True),
            Case("value", when=lambda c: z3.Not(z3.And(is_ref(c.arg("data")), STORE.opt.is_none(z3.Select(c.old("storage"), c.arg("data"))))), ensures=[
                ("a-reference-resolves-to-the-content-it-was-created-from-an-inline-value-to-itself", lambda c: c.result == resolve_spec(c, c.arg("data"), c.old("storage")))])],
        properties=[PID])
    out.append(resolve)
    reg.add(resolve)
    reg.isinstance_hooks = getattr(reg, "isinstance_hooks", {})
    reg.isinstance_hooks["PyObj"] = lambda v, names: PYOBJ.get(v.term, "is_str") if "str" in names else None
    reg.str_of = getattr(reg, "str_of", {})
    reg.str_of["PyObj"] = lambda v: PYOBJ.get(v.term, "text")
    obj_is_ref_str = lambda c: z3.And(PYOBJ.get(c.arg("obj"), "is_str"), is_ref(PYOBJ.get(c.arg("obj"), "text")))
    serialize = Contract(
        key=f"{CDS}:BaseClientDataStore.serialize", shape="ClientDataStore", params={"obj": PYOBJ, "disable_cache": BOOL},
        defaults={"disable_cache": lambda eng, st: __import__("pyvc.values", fromlist=["boolval"]).boolval(False)}, result=STR,
        frame=["storage", "_deserialized_cache"],
        requires=[("a-str-object-is-its-text", lambda c: z3.Implies(PYOBJ.get(c.arg("obj"), "is_str"), z3.BoolVal(True)))],
        cases=[
            Case("value-that-looks-like-a-reference", when=lambda c: z3.And(z3.Not(z3.Or(c.old("conf.disable_client_data_store"), c.arg("disable_cache"))), obj_is_ref_str(c)),
                 ensures=[("C15:round-trip", lambda c: resolve_spec(c, c.result, c.f("storage")) == c.arg("obj"))]),
            Case("any-other-value", when=lambda c: z3.Not(z3.And(z3.Not(z3.Or(c.old("conf.disable_client_data_store"), c.arg("disable_cache"))), obj_is_ref_str(c))),
                 ensures=[
                     ("C15:round-trip:resolving-the-returned-string-gives-the-object-back", lambda c: z3.Implies(
                         z3.Not(z3.And(z3.Or(c.old("conf.disable_client_data_store"), c.arg("disable_cache")), is_ref(S(c.arg("obj"))))),
                         resolve_spec(c, c.result, c.f("storage")) == c.arg("obj"))),
                     ("earlier-references-still-resolve-to-their-content", lambda c: z3.ForAll([z3.Const("rk", z3.StringSort())], z3.Implies(
                         z3.And(STORE.opt.is_some(z3.Select(c.old("storage"), z3.Const("rk", z3.StringSort()))), z3.Const("rk", z3.StringSort()) != c.result),
                         z3.Select(c.f("storage"), z3.Const("rk", z3.StringSort())) == z3.Select(c.old("storage"), z3.Const("rk", z3.StringSort()))))),
                 ]),
        ], properties=[PID])
    out.append(serialize)
    reg.add(serialize)
    return out


def injectivity_lemmas(ctx: RunCtx):
    """Injectivity of the pre-hash encoding as an induction step, from the assumed contract of json.dumps on strings
    (injective, and no quoted string is a proper prefix of another quoted string followed by anything)."""
    k1, k2, v1, v2, r1, r2 = z3.Strings("k1 k2 v1 v2 r1 r2")
    eq, sc = z3.StringVal("="), z3.StringVal(";")

    def prefix_free(a, x, b, y):     # instance of: Q(a) ++ x == Q(b) ++ y  =>  a == b and x == y
        return z3.Implies(z3.Concat(Q(a), x) == z3.Concat(Q(b), y), z3.And(a == b, x == y))
    x1, x2 = z3.Concat(eq, Q(v1), sc, r1), z3.Concat(eq, Q(v2), sc, r2)
    y1, y2 = z3.Concat(sc, r1), z3.Concat(sc, r2)
    pc = [prefix_free(k1, x1, k2, x2), prefix_free(v1, y1, v2, y2), z3.Concat(Q(k1), eq, Q(v1), sc, r1) == z3.Concat(Q(k2), eq, Q(v2), sc, r2)]
    out = [Obligation(name=f"{PID}/lemma/encoding-step-injective:equal-encodings=>equal-key-equal-value-equal-rest", kind="lemma", pc=pc,
                      goal=z3.And(k1 == k2, v1 == v2, r1 == r2), function="pre-hash encoding of compute_args_id")]
    h = z3.String("h")
    out.append(Obligation(name=f"{PID}/lemma/'no_args'-is-not-a-digest", kind="lemma", pc=[z3.InRe(h, HEX64)], goal=h != z3.StringVal("no_args"),
                          function="compute_args_id"))
    return out


# --------------------------------------------------------------------------- bounded stand-ins on the real functions
def identity_and_round_trips(ctx: RunCtx) -> BoundedResult:
    import random
    from pynenc.call import compute_args_id
    from .realapp import real_app
    rnd = random.Random(ctx.seed or 1)
    thorough = ctx.tier == "thorough"
    res = BoundedResult("identity_and_round_trips", "compute_args_id: permuted / one-pair-different / adversarial-separator dictionaries; CallId/TaskId key round trips; "
                        "client data store: values of sizes straddling min_size_to_cache on both stores x 3 serializers, incl. strings starting with the reserved prefix")
    n = 0
    alphabet = ['a', 'b', '=', ';', '"', '\\', 'é', ' ', '', 'a=b', '";"', 'x;y="z"']
    for _ in range(600 if thorough else 150):
        d = {rnd.choice(alphabet) + str(i): rnd.choice(alphabet) for i in range(rnd.randint(0, 4))}
        items = list(d.items())
        rnd.shuffle(items)
        n += 1
        if compute_args_id(dict(items)) != compute_args_id(d):
            res.failures.append({"what": f"compute_args_id depends on insertion order: {d}", "input": d, "finding_key": "order"})
        if items:
            k, v = items[0]
            for other in ({**d, k: v + "x"}, {kk: vv for kk, vv in d.items() if kk != k}, {**{kk: vv for kk, vv in d.items() if kk != k}, k + "=" + v: ""}):
                n += 1
                if other != d and compute_args_id(other) == compute_args_id(d):
                    res.failures.append({"what": f"different argument dictionaries share an identity: {d} vs {other}", "input": [d, other], "finding_key": "collision"})
    from pynenc.identifiers.call_id import CallId
    from pynenc.identifiers.task_id import TaskId
    for mod, fn, aid in itertools.product(["m", "pkg.mod", "a.b.c"], ["f", "task_1"], ["no_args", "ab12" * 16]):
        n += 1
        c = CallId(TaskId(mod, fn), aid)
        if CallId.from_key(c.key) != c:
            res.failures.append({"what": f"CallId key round trip fails for {c}", "finding_key": "callid"})
    import pynenc.serializer as ser_pkg
    values = ["", "x", "é" * 10, "a" * 1023, "a" * 1024, "a" * 1025, "b" * 5000, {"k": [1, 2.5, None, True, "s"]}, list(range(300)), 0, -1.5, None, [[], {}]]
    for backend in ("mem", "sqlite"):
        for ser in ("json", "pickle", "jsonpickle"):
            with real_app(backend, serializer=ser) as app:
                cds = app.client_data_store
                for v in values:
                    n += 1
                    try:
                        r1, r2 = cds.serialize(v), cds.serialize(v)
                        back = cds.resolve(r1)
                        cds._deserialized_cache.clear()
                        back2 = cds.resolve(r1)
                    except Exception as e:
                        res.failures.append({"what": f"{backend}/{ser}: {type(e).__name__} on value of type {type(v).__name__}", "finding_key": f"{backend}:{ser}:exception"})
                        continue
                    if back != v or back2 != v or r1 != r2:
                        res.failures.append({"what": f"{backend}/{ser}: value {str(v)[:40]!r} does not round-trip (or equal content gives different references)",
                                             "finding_key": f"{backend}:{ser}:roundtrip"})
                # exceptions go through the state backend's own encoding around the same store: small and large enough to be externalised
                from . import verif_tasks as vt
                for exc in (vt.Other("boom", 1), vt.Other("m" * 3000, 2), ValueError("v" * 2000), KeyError("k")):
                    n += 1
                    try:
                        sb = app.state_backend
                        back = sb.deserialize_exception(sb.serialize_exception(exc))
                    except Exception as e:      # noqa: BLE001
                        res.failures.append({"what": f"{backend}/{ser}: {type(e).__name__} while reading back {type(exc).__name__} with arguments of {len(str(exc.args))} characters: {str(e)[:80]}",
                                             "input": {"exception": type(exc).__name__, "size": len(str(exc.args))}, "finding_key": f"{ser}:exception-roundtrip"})
                        continue
                    if type(back) is not type(exc) or back.args != exc.args:
                        res.failures.append({"what": f"{backend}/{ser}: {type(exc).__name__} with arguments of {len(str(exc.args))} characters comes back as {type(back).__name__}: {str(back)[:60]!r}",
                                             "input": {"exception": type(exc).__name__, "size": len(str(exc.args))}, "finding_key": f"{ser}:exception-roundtrip"})
                # values whose TYPE matters: enum members alone and inside containers must come back as the same members (not as bare ints / strings)

                def deep_typed(x):
                    if isinstance(x, (list, tuple)):
                        return [deep_typed(y) for y in x]       # list/tuple distinction is not part of this check (JSON has no tuples)
                    if isinstance(x, dict):
                        return {str(k): deep_typed(v) for k, v in x.items()}
                    return (type(x).__name__, repr(x))
                typed_values = [vt.Priority.HIGH, vt.Level.ERROR, vt.Color.RED, [vt.Priority.HIGH], [vt.Priority.LOW, 10, "x"], [vt.Level.ERROR, "error"],
                                [vt.Color.BLUE, 1], {"p": vt.Priority.HIGH, "l": [vt.Level.INFO]}, [[vt.Priority.HIGH]], [1, True, 1.0, None]]
                for v in typed_values:
                    n += 1
                    try:
                        back = cds.resolve(cds.serialize(v))
                    except Exception as e:
                        res.failures.append({"what": f"{backend}/{ser}: {type(e).__name__} on {v!r}", "finding_key": f"{backend}:{ser}:exception"})
                        continue
                    if deep_typed(back) != deep_typed(v):
                        res.failures.append({"what": f"{backend}/{ser}: {v!r} comes back as {back!r} (type of a member lost)", "input": repr(v),
                                             "finding_key": f"{ser}:typed-roundtrip"})
                # whole argument mappings: every argument is serialised on its own - values that merely compare equal (1 == True == 1.0,
                # 0 == False, 0.0 == -0.0) must not be conflated; the identity of the call must tell them apart as well
                def typed(x):
                    return (type(x).__name__, repr(x))
                mappings = [{"a": 1, "b": True}, {"a": True, "b": 1}, {"a": 0, "b": False}, {"a": 1, "b": 1.0}, {"a": 0.0, "b": -0.0},
                            {"a": "1", "b": 1}, {"a": (1,), "b": [1]} if ser == "pickle" else {"a": [1], "b": [True]}, {"a": None, "b": 0}]
                for kw in mappings:
                    n += 1
                    try:
                        back = cds.deserialize_arguments(cds.serialize_arguments(dict(kw), ()))
                    except Exception as e:
                        res.failures.append({"what": f"{backend}/{ser}: {type(e).__name__} on arguments {kw}", "finding_key": f"{backend}:{ser}:exception"})
                        continue
                    if {k: typed(v) for k, v in back.items()} != {k: typed(v) for k, v in kw.items()}:
                        res.failures.append({"what": f"{backend}/{ser}: arguments {kw} come back as {back} (arguments that compare equal were conflated)",
                                             "input": {k: typed(v) for k, v in kw.items()}, "finding_key": f"{ser}:arguments-conflated"})
                n += 1
                a1, a2 = cds.serialize_arguments({"a": 1, "b": True}, ()), cds.serialize_arguments({"a": 1, "b": 1}, ())
                if ser != "json" and compute_args_id(a1) == compute_args_id(a2):       # json has no bool/int distinction problem: "true" vs "1"
                    res.failures.append({"what": f"{backend}/{ser}: f(1, True) and f(1, 1) share one call identity", "finding_key": f"{ser}:identity-conflated"})
                elif ser == "json" and compute_args_id(a1) == compute_args_id(a2):
                    res.failures.append({"what": f"{backend}/{ser}: f(1, True) and f(1, 1) share one call identity", "finding_key": f"{ser}:identity-conflated"})
                # a reference handed out after a purge must have content behind it (also for a reader without this process's local cache)
                n += 1
                big = "p" * 3000
                try:
                    cds.serialize(big)
                    cds.purge()
                    ref = cds.serialize(big)
                    cds._deserialized_cache.clear()
                    ok = cds.resolve(ref) == big
                except Exception:
                    ok = False
                if not ok:
                    res.failures.append({"what": f"{backend}/{ser}: serialize(x); purge(); serialize(x) returns a reference with no content behind it",
                                         "finding_key": "dangling-after-purge"})
                from pynenc.serializer.constants import ReservedKeys
                v = ReservedKeys.CLIENT_DATA.value + ":not-a-stored-key"
                n += 1
                try:
                    ok = cds.resolve(cds.serialize(v)) == v
                except Exception:
                    ok = False
                if not ok:
                    res.failures.append({"what": f"{backend}/{ser}: a str value that starts with the reserved client-data prefix does not round-trip",
                                         "input": v, "finding_key": "reserved-prefix-string"})
    res.failures = res.failures[:12]
    res.cases = n
    res.distinct = n
    res.samples = [{"dict": {"a=b0": ";", "é1": ""}, "check": "permutation-invariant, changes with one pair"}]
    return res


def replay_reserved_prefix(ctx, ob):
    from pynenc.serializer.constants import ReservedKeys
    from .realapp import real_app
    with real_app("mem") as app:
        v = ReservedKeys.CLIENT_DATA.value + ":looks-like-a-key"
        try:
            back = app.client_data_store.resolve(app.client_data_store.serialize(v))
            return {"confirmed": back != v, "input": v, "observed": repr(back)[:100]}
        except Exception as e:
            return {"confirmed": True, "input": v, "observed": f"{type(e).__name__}: {e}"[:200]}


def call_spellings(ctx: RunCtx) -> BoundedResult:
    """Bounded stand-in: every way of writing one logical call (positional / keyword / defaults omitted or given, any keyword order) gives the same
    arguments, the same call identity, and - under registration concurrency control - the same invocation."""
    from pynenc.arguments import Arguments
    from pynenc.call import Call
    from . import verif_tasks as vt
    from .realapp import real_app
    res = BoundedResult("call_spellings", "3 task signatures (defaults, keyword-only, strings) x all spellings of 2 logical calls each: Arguments.from_call, call_id, and "
                        "submission under registration_concurrency=ARGUMENTS on both backends")
    spellings = {
        vt.sp_f: [[((1,), {}), ((), {"a": 1}), ((1, 0), {}), ((1,), {"b": 0}), ((), {"a": 1, "b": 0}), ((), {"b": 0, "a": 1})],
                  [((2, 5), {}), ((2,), {"b": 5}), ((), {"b": 5, "a": 2})]],
        vt.sp_g: [[((1,), {}), ((), {"a": 1}), ((1, 0), {"c": 1}), ((), {"c": 1, "a": 1}), ((1,), {"b": 0, "c": 1})],
                  [((1, 2), {"c": 3}), ((), {"a": 1, "b": 2, "c": 3}), ((1,), {"c": 3, "b": 2})]],
        vt.sp_h: [[(("p",), {}), ((), {"x": "p"}), (("p", "d"), {}), ((), {"y": "d", "x": "p"})],
                  [(("p", "q"), {}), ((), {"x": "p", "y": "q"})]],
    }
    n = 0
    for func, groups in spellings.items():
        for group in groups:
            n += 1
            kws = [Arguments.from_call(func, *a, **k).kwargs for a, k in group]
            if any(kw != kws[0] for kw in kws):
                res.failures.append({"what": f"Arguments.from_call({func.__name__}): spellings {group} of one call give different arguments {kws}",
                                     "input": {"function": func.__name__, "spellings": [[list(a), k] for a, k in group]}, "finding_key": "from_call:spelling"})
    # explicit falsy values are argument values, not "left out": binding must agree with Python's own (inspect.signature(..).bind + apply_defaults),
    # and two calls that bind differently have different identities
    import inspect
    falsy = [None, 0, False, "", []]
    with real_app("mem") as app0:
        for func in (vt.sp_f, vt.sp_g, vt.sp_h):
            params = list(inspect.signature(func).parameters.values())
            first = "p" if func is vt.sp_h else 1
            task0 = app0.task(func)
            seen_ids = {}
            for p in params[1:]:
                for v in falsy:
                    for how in ("keyword", "positional"):
                        if how == "positional" and (p.kind is p.KEYWORD_ONLY or params.index(p) != 1):
                            continue
                        a, k = ((first, v), {}) if how == "positional" else ((first,), {p.name: v})
                        n += 1
                        ref = inspect.signature(func).bind(*a, **k)
                        ref.apply_defaults()
                        got = Arguments.from_call(func, *a, **k).kwargs
                        if got != dict(ref.arguments):
                            res.failures.append({"what": f"Arguments.from_call({func.__name__}, {a}, {k}) binds {got}, Python binds {dict(ref.arguments)} (an explicit {v!r} is a value, "
                                                         "not a missing argument)", "input": {"function": func.__name__, "args": repr(a), "kwargs": repr(k)}, "finding_key": "from_call:explicit-falsy"})
                        key = repr(sorted(dict(ref.arguments).items(), key=lambda kv: kv[0]))
                        cid = Call(task0, Arguments.from_call(func, *a, **k)).call_id
                        if key in seen_ids and seen_ids[key] != cid or any(kk != key and vv == cid for kk, vv in seen_ids.items()):
                            res.failures.append({"what": f"{func.__name__}{a}{k}: call identity does not follow the bound arguments (same identity for different arguments, or two "
                                                         "for the same)", "input": {"function": func.__name__, "args": repr(a), "kwargs": repr(k)}, "finding_key": "call-id:explicit-falsy"})
                        seen_ids.setdefault(key, cid)
    res.failures = res.failures[:8]
    for backend in ("mem", "sqlite"):
        with real_app(backend) as app:
            from pynenc.conf.config_task import ConcurrencyControlType
            for func, groups in spellings.items():
                task = app.task(registration_concurrency=ConcurrencyControlType.ARGUMENTS)(func)
                for group in groups:
                    n += 1
                    invs = [task(*a, **k) for a, k in group]
                    call_ids = {inv.call.call_id for inv in invs}
                    inv_ids = {inv.invocation_id for inv in invs}
                    if len(call_ids) != 1 or len(inv_ids) != 1:
                        res.failures.append({"what": f"{backend}: {func.__name__}: {len(group)} spellings of one call give {len(call_ids)} call identities and "
                                                     f"{len(inv_ids)} REGISTERED invocations (registration_concurrency=ARGUMENTS)",
                                             "input": {"function": func.__name__}, "finding_key": f"{backend}:spelling-identity"})
    res.cases = n
    res.distinct = n
    res.samples = [{"function": "sp_f", "spellings": ["f(1)", "f(a=1)", "f(1, 0)", "f(1, b=0)"]}]
    return res


def leaf_store_contracts(reg: Registry):
    """The two real stores against the `_store` statement assumed by the base-class proofs: EVERY call writes (key, value) - there is no
    "already written" shortcut (another process may have purged the table in between)."""
    from pyvc import sqlmodel
    from pyvc.sqlmodel import ConnNative, all_events, sql_events
    MCS, SCS = "pynenc.client_data_store.mem_client_data_store", "pynenc.client_data_store.sqlite_client_data_store"
    TAB = MapT(STR, STR)
    reg.add_shape(Shape("MemClientDataStore", fields={"_storage": TAB}, cls=(MCS, "MemClientDataStore")))
    reg.shapes["MemClientDataStore"].auto_fields = True
    mem_store = Contract(key=f"{MCS}:MemClientDataStore._store", shape="MemClientDataStore", params={"key": STR, "value": STR}, frame=["_storage"],
                         cases=[Case("upsert", ensures=[("stored-under-the-key-on-every-call", lambda c: c.f("_storage") == z3.Store(
                             c.old("_storage"), c.arg("key"), TAB.opt.some(c.arg("value"))))])], properties=[PID, "C05"])
    sqlmodel.install(reg, {"data_key": (STR, None), "data_value": (STR, None)})
    schema = reg.sql_schema
    reg.add(Contract(key="sqlite3:connect", handler=lambda eng, st, recv, a, kw: [(OK, st, ConnNative(schema))], assumed=True,
                     note="sqlite3.connect(path) used as a context manager: execute/commit recorded as trace events"))
    if "Tables" not in reg.shapes:
        reg.add_shape(Shape("Tables", fields={}))
    reg.add_shape(Shape("SQLiteClientDataStore", fields={"sqlite_db_path": STR, "tables": ObjT("Tables")}, cls=(SCS, "SQLiteClientDataStore")))
    reg.shapes["SQLiteClientDataStore"].auto_fields = True

    def one_upsert(c):
        ws = [e for e in sql_events(c.st) if e["kind"] in ("INSERT", "UPDATE", "DELETE")]
        if len(ws) != 1 or ws[0]["kind"] != "INSERT" or len(ws[0]["params"]) != 2:
            return z3.BoolVal(False)
        text = " ".join(ws[0]["info"]["text"].upper().split())
        evs = all_events(c.st)
        iw = max(i for i, e in enumerate(evs) if e.get("ev") == "sql" and e["kind"] == "INSERT")
        ok = (" OR REPLACE " in " " + text + " " or "DO UPDATE" in text) and any(e.get("ev") == "commit" for e in evs[iw:]) \
            and ws[0]["info"]["columns"][:2] == ["data_key", "data_value"]
        return z3.And(z3.BoolVal(ok), ws[0]["params"][0].term == c.arg("key"))
    sql_store = Contract(key=f"{SCS}:SQLiteClientDataStore._store", shape="SQLiteClientDataStore", params={"key": STR, "value": STR}, frame=[],
                         cases=[Case("upsert", ensures=[("one-upsert-of-the-key-committed-on-every-call", one_upsert)]),
                                Case("commit-fault", raises="OperationalError")], properties=[PID, "C05"])
    reg.sql_commit_faults = True
    for c in (mem_store, sql_store):
        reg.add(c)
    return [mem_store, sql_store]


def build(ctx: RunCtx) -> Prop:
    T = Types(ctx.src)
    reg = base_registry(ctx.src, T)
    verify = contracts(T, reg, ctx)
    verify += leaf_store_contracts(reg)
    return Prop(
        pid=PID, title="compute_args_id = sha256 of the encoding of ALL pairs in sorted-key order ('no_args' when empty); encoding step injective; "
                       "_generate_key content-addressed over the whole value; size routing; resolve(serialize(x)) = x over the abstract store with an LRU invariant",
        level="other", technique="contract-based deductive verification over SMT strings/sequences (AST->z3/cvc5) + bounded stand-ins for third-party serializers and call spellings",
        registry=reg, verify=verify, lemmas=[injectivity_lemmas], bounded=[identity_and_round_trips, call_spellings],
        replayers={"*value-that-looks-like-a-reference*": replay_reserved_prefix},
        assumptions=["json.dumps(s, ensure_ascii=False) on strings: injective, and no quoted string is a proper prefix of another quoted string (assumed contract)",
                     "sha256 is a function of its input; equal digests are reported as 'equal inputs modulo a collision'",
                     "sorted(keys) is a function of the key set; str.encode is injective",
                     "the configured serializer satisfies deserialize(serialize(x)) == x on its domain (bounded stand-in)",
                     "OrderedDict LRU operations (_cache_deserialized) are assumed, exercised by the bounded stand-in"],
        trusted_base=["pyvc VC generator", "z3 5.1 sequence theory", "cvc5 1.0.3", "json / pickle / jsonpickle / inspect (bounded only)"],
        not_decided="third-party serializer internals; Arguments.from_call spellings via inspect are bounded only.",
        min_obligations=15,
    )
