"""C16 — the in-memory and the SQLite backends are observationally equivalent.

What contract-based verification contributes here is the *shared* contract: both families are checked against the same
abstract statements (world.py / the leaf contracts): the in-memory implementations are proved against them (C01, C08, C09, C13,
C15), the SQLite ones are proved at glue level only (which statement runs, in which transaction, bound to which values) because
the meaning of SQL text is outside the reach of the VC generator.  A representative pair per component is re-verified here
(`parts`).  The statement "cannot be told apart" itself is decided only by a bounded stand-in: a differential run of the two real
backends over operation sequences of the public alphabet with a controlled clock, comparing every return value / error and a full
read-out after every operation.  Bounded, never counted as proved."""
from __future__ import annotations

import contextlib
import itertools
import random

import z3

from pyvc.prop import BoundedResult, Prop, RunCtx
from pyvc.solve import Obligation

from .common import Types, base_registry

PID = "C16"
PAIRS = [
    ("contracts.c01", ["pynenc.orchestrator.mem_orchestrator:MemOrchestrator._atomic_status_transition",
                       "pynenc.orchestrator.sqlite_orchestrator:SQLiteOrchestrator._atomic_status_transition",
                       "pynenc.orchestrator.mem_orchestrator:MemOrchestrator._register_new_invocations"]),
    ("contracts.c08", ["pynenc.broker.mem_broker:MemBroker.route_invocation", "pynenc.broker.mem_broker:MemBroker.retrieve_invocation",
                       "pynenc.broker.sqlite_broker:SQLiteBroker.send_message", "pynenc.broker.sqlite_broker:SQLiteBroker.retrieve_invocation"]),
    ("contracts.c13", ["pynenc.trigger.mem_trigger:MemTrigger.store_last_cron_execution", "pynenc.trigger.sqlite_trigger:SQLiteTrigger.store_last_cron_execution",
                       "pynenc.trigger.mem_trigger:MemTrigger.claim_trigger_run", "pynenc.trigger.sqlite_trigger:SQLiteTrigger.claim_trigger_run"]),
]
BASES = {
    "pynenc.orchestrator.base_orchestrator:BaseOrchestrator": ("pynenc.orchestrator.mem_orchestrator:MemOrchestrator", "pynenc.orchestrator.sqlite_orchestrator:SQLiteOrchestrator"),
    "pynenc.orchestrator.base_orchestrator:BaseBlockingControl": ("pynenc.orchestrator.mem_orchestrator:MemBlockingControl", "pynenc.orchestrator.sqlite_orchestrator:SQLiteBlockingControl"),
    "pynenc.broker.base_broker:BaseBroker": ("pynenc.broker.mem_broker:MemBroker", "pynenc.broker.sqlite_broker:SQLiteBroker"),
    "pynenc.state_backend.base_state_backend:BaseStateBackend": ("pynenc.state_backend.mem_state_backend:MemStateBackend", "pynenc.state_backend.sqlite_state_backend:SQLiteStateBackend"),
    "pynenc.trigger.base_trigger:BaseTrigger": ("pynenc.trigger.mem_trigger:MemTrigger", "pynenc.trigger.sqlite_trigger:SQLiteTrigger"),
    "pynenc.client_data_store.base_client_data_store:BaseClientDataStore": ("pynenc.client_data_store.mem_client_data_store:MemClientDataStore",
                                                                             "pynenc.client_data_store.sqlite_client_data_store:SQLiteClientDataStore"),
}


def interface_lemmas(ctx: RunCtx):
    """Syntactic obligations: both families implement every abstract operation of the shared base class with the same parameter list."""
    import ast
    out = []

    def ob(name, ok, detail=""):
        o = Obligation(name=f"{PID}/interface/{name}", kind="lemma", pc=[], goal=z3.BoolVal(bool(ok)), function="base classes")
        o.detail = detail
        out.append(o)
    src = ctx.src
    n_ops = 0
    for base, impls in BASES.items():
        bmod, bcls = base.split(":")
        try:
            bnode = src.klass(bmod, bcls)
        except Exception:
            ob(f"{bcls}:found", False, "base class not found")
            continue
        abstract = {}
        for f in [n for n in bnode.body if isinstance(n, (ast.FunctionDef, ast.AsyncFunctionDef))]:
            if any(isinstance(d, ast.Name) and d.id == "abstractmethod" for d in f.decorator_list):
                abstract[f.name] = [a.arg for a in f.args.args] + [a.arg for a in f.args.kwonlyargs]
        for impl in impls:
            imod, icls = impl.split(":")
            for meth, params in abstract.items():
                fi = src.find_method(imod, icls, meth)
                own = fi is not None and not fi.key.startswith(f"{bmod}:{bcls}.")
                got = ([a.arg for a in fi.node.args.args] + [a.arg for a in fi.node.args.kwonlyargs]) if fi is not None else None
                n_ops += 1
                ob(f"{icls}.{meth}:implements-the-abstract-operation-with-the-same-parameters", own and got == params,
                   detail=f"base {params} vs implementation {got}")
    ob("abstract-operations-found", n_ops >= 100, f"{n_ops} (operation, implementation) pairs")
    return out


# ------------------------------------------------------------------------------------------------ differential bounded stand-in
class Clock:
    t = 1_700_000_000.0


@contextlib.contextmanager
def controlled_clock():
    """One clock for both backends: time() of the orchestrator modules and datetime.now() of status records / trigger stores."""
    import datetime as _dt
    import pynenc.invocation.status as st_mod
    import pynenc.orchestrator.base_orchestrator as bo
    import pynenc.orchestrator.mem_orchestrator as mo
    import pynenc.orchestrator.sqlite_orchestrator as so
    import pynenc.trigger.mem_trigger as mt
    import pynenc.trigger.sqlite_trigger as stg
    import pynenc.trigger.base_trigger as btg

    class FakeDT(_dt.datetime):
        @classmethod
        def now(cls, tz=None):
            return _dt.datetime.fromtimestamp(Clock.t, tz)
    saved = []
    for mod in (bo, mo, so):
        if hasattr(mod, "time"):
            saved.append((mod, "time", mod.time))
            mod.time = lambda: Clock.t
    for mod in (st_mod, mt, stg, btg):
        if hasattr(mod, "datetime"):
            saved.append((mod, "datetime", mod.datetime))
            mod.datetime = FakeDT
    try:
        yield
    finally:
        for mod, name, val in saved:
            setattr(mod, name, val)


STATUSES = ["REGISTERED", "PENDING", "RUNNING", "SUCCESS", "FAILED", "RETRY", "REROUTED", "KILLED", "CONCURRENCY_CONTROLLED", "PENDING_RECOVERY",
            "RUNNING_RECOVERY", "PAUSED", "RESUMED", "CONCURRENCY_CONTROLLED_FINAL"]
RUNNERS = ["r1", "r2"]
N_INV = 4


class World:
    """One real application of one backend, with the labelled universe of invocations / runners / keys."""

    def __init__(self, app, backend):
        from pynenc.arguments import Arguments
        from pynenc.call import Call
        from pynenc.invocation.dist_invocation import DistributedInvocation
        from pynenc.workflow.workflow_identity import WorkflowIdentity
        from . import verif_tasks as vt
        from .realapp import runner_ctx
        self.app, self.backend = app, backend
        self.tasks = [app.task(vt.key_task), app.task(vt.add)]
        self.invs = []
        for k in range(N_INV):
            task = self.tasks[k % 2]
            args = {"key": "k" + str(k // 2), "other": "o"} if k % 2 == 0 else {"x": k // 2, "y": 1}
            iid = f"inv-{k}"
            wf = WorkflowIdentity(workflow_id=iid, workflow_type=task.task_id, parent_workflow_id=None) if _wf_fields(WorkflowIdentity) else \
                WorkflowIdentity.new_workflow(invocation_id=iid, task_id=task.task_id)
            self.invs.append(DistributedInvocation(Call(task, Arguments(args)), iid, None if k < 2 else "inv-0", wf, True))
        self.ctx = {r: runner_ctx(r) for r in RUNNERS}
        from pynenc.trigger.conditions.cron import CronCondition
        self.conds = {}
        for name, expr in (("c1", "*/5 * * * *"), ("c2", "0 * * * *")):
            cond = CronCondition(expr)
            app.trigger.register_condition(cond)
            self.conds[name] = cond.condition_id
        self.conds["c3"] = "never-registered-condition"
        from pynenc.trigger.trigger_builder import TriggerBuilder
        self.triggered = app.task(vt.noop)
        self.builders = {0: (self.triggered, lambda: TriggerBuilder().on_event("evt").with_logic("or")),
                         1: (self.tasks[1], lambda: TriggerBuilder().on_event("evt").with_args_static({"x": 1, "y": 2}))}    # two tasks on ONE condition
        for t, mk in self.builders.values():
            app.trigger.register_task_triggers(t, mk())
        self.event_cond = next((c.condition_id for c in app.trigger._get_all_conditions() if type(c).__name__ == "EventCondition"), "no-event-condition")
        self.registered = set()       # labels of invocations registered so far (the same on both sides)
        self.tainted = ""             # out-of-protocol step taken earlier in this sequence (marks later divergences)


def _wf_fields(cls):
    import dataclasses
    try:
        return {f.name for f in dataclasses.fields(cls)} >= {"workflow_id", "workflow_type", "parent_workflow_id"}
    except TypeError:
        return False


import re as _re
_UUID = _re.compile(r"[0-9a-f]{8}-[0-9a-f]{4}-[0-9a-f]{4}-[0-9a-f]{4}-[0-9a-f]{12}")


def norm(v):
    """normalise a return value for comparison (ids are equal on both sides by construction)"""
    import datetime as _dt
    from enum import Enum
    if isinstance(v, str) and _UUID.fullmatch(v):
        return "<generated-id>"       # ids generated by the backends' own launches (trigger loop) differ by construction
    if v is None or isinstance(v, (bool, int, str)):
        return v
    if isinstance(v, float):
        return round(v, 6)
    if isinstance(v, Enum):
        return v.name
    if isinstance(v, _dt.datetime):
        return round(v.timestamp(), 6)
    if isinstance(v, (list, tuple)):
        return [norm(x) for x in v]
    if isinstance(v, (set, frozenset)):
        return sorted(repr(norm(x)) for x in v)
    if isinstance(v, dict):
        return {str(k): norm(x) for k, x in sorted(v.items(), key=lambda kv: str(kv[0]))}
    if hasattr(v, "invocation_id"):
        return ("inv", v.invocation_id)
    if hasattr(v, "status") and hasattr(v, "runner_id"):
        return (v.status.name, v.runner_id, norm(getattr(v, "timestamp", None)))
    if hasattr(v, "runner_id") and hasattr(v, "creation_time"):
        return (v.runner_id, norm(v.creation_time), norm(v.last_heartbeat), v.allow_to_run_atomic_service)
    return type(v).__name__


def call(fn):
    try:
        r = fn()
        if hasattr(r, "__next__") or type(r).__name__ == "generator":
            r = list(r)
        return ("ok", norm(r))
    except Exception as e:      # noqa: BLE001 - the error class is part of the observation
        return ("raises", type(e).__name__)


def as_set(res):
    return (res[0], sorted(map(repr, res[1])) if res[0] == "ok" and isinstance(res[1], list) else res[1])


def operations():
    """(name, argument generator(rng) -> args, apply(world, args) -> observation, order-insensitive?)"""
    from pynenc.invocation.status import InvocationStatus as S
    ops_ = []

    def op(name, gen, fn, unordered=False):
        ops_.append((name, gen, fn, unordered))
    inv = lambda r: r.randrange(N_INV)
    invs = lambda r: sorted(r.sample(range(N_INV), r.randrange(0, N_INV + 1)))
    sts = lambda r: sorted(r.sample(STATUSES, r.choice([0, 1, 1, 2, 3])))
    op("register", lambda r: (invs(r), r.choice(RUNNERS)),
       lambda w, a: call(lambda: w.app.orchestrator.register_new_invocations([w.invs[i] for i in a[0]], w.ctx[a[1]]) if _takes_ctx(w.app.orchestrator.register_new_invocations)
                         else w.app.orchestrator.register_new_invocations([w.invs[i] for i in a[0]])))
    op("set_status", lambda r: (inv(r), r.choice(STATUSES), r.choice(RUNNERS)),
       lambda w, a: call(lambda: w.app.orchestrator.set_invocation_status(w.invs[a[0]].invocation_id, S[a[1]], w.ctx[a[2]])))
    op("get_record", lambda r: (inv(r),), lambda w, a: call(lambda: w.app.orchestrator.get_invocation_status_record(w.invs[a[0]].invocation_id)))
    op("existing", lambda r: (r.randrange(2), r.choice([None, {"key": "\"k0\""}, {"key": "\"k1\""}, {"x": "0"}]), r.choice([None] + [sts(r)])),
       lambda w, a: call(lambda: w.app.orchestrator.get_existing_invocations(w.tasks[a[0]], a[1], [S[s] for s in a[2]] if a[2] is not None else None)), True)
    op("task_ids", lambda r: (r.randrange(2),), lambda w, a: call(lambda: w.app.orchestrator.get_task_invocation_ids(w.tasks[a[0]].task_id)), True)
    op("count", lambda r: (r.choice([None, 0, 1]), r.choice([None] + [sts(r)])),
       lambda w, a: call(lambda: w.app.orchestrator.count_invocations(w.tasks[a[0]].task_id if a[0] is not None else None,
                                                                      [S[s] for s in a[1]] if a[1] is not None else None)))
    op("pages", lambda r: (r.choice([None, 0, 1]), r.choice([None] + [sts(r)]), r.choice([1, 2, 3])),
       lambda w, a: _pages(w, a, S))
    op("call_ids", lambda r: (inv(r),), lambda w, a: call(lambda: w.app.orchestrator.get_call_invocation_ids(w.invs[a[0]].call.call_id)), True)
    op("filter_by_status", lambda r: (invs(r), sts(r)),
       lambda w, a: call(lambda: w.app.orchestrator.filter_by_status([w.invs[i].invocation_id for i in a[0]], frozenset(S[s] for s in a[1]))), True)
    op("filter_final", lambda r: (invs(r),), lambda w, a: call(lambda: w.app.orchestrator.filter_final([w.invs[i].invocation_id for i in a[0]])), True)
    op("incr_retries", lambda r: (inv(r),), lambda w, a: call(lambda: w.app.orchestrator.increment_invocation_retries(w.invs[a[0]].invocation_id)))
    op("index_args", lambda r: (inv(r),), lambda w, a: call(lambda: w.app.orchestrator.index_arguments_for_concurrency_control(w.invs[a[0]])))
    op("heartbeat", lambda r: (sorted(r.sample(RUNNERS + ["r3"], r.randrange(1, 3))), r.random() < 0.5),
       lambda w, a: call(lambda: w.app.orchestrator.register_runner_heartbeats(a[0], a[1])))
    op("active_runners", lambda r: (r.choice([None, True, False]),), lambda w, a: call(lambda: w.app.orchestrator.get_active_runners(a[0])))
    op("pending_recovery", lambda r: (), lambda w, a: call(lambda: w.app.orchestrator.get_pending_invocations_for_recovery()), True)
    op("running_recovery", lambda r: (), lambda w, a: call(lambda: w.app.orchestrator.get_running_invocations_for_recovery()), True)
    op("setup_purge", lambda r: (inv(r),), lambda w, a: call(lambda: w.app.orchestrator.set_up_invocation_auto_purge(w.invs[a[0]].invocation_id)))
    op("auto_purge", lambda r: (), lambda w, a: call(lambda: w.app.orchestrator.auto_purge()))
    op("wait", lambda r: (inv(r), invs(r)),
       lambda w, a: call(lambda: w.app.orchestrator.waiting_for_results(w.invs[a[0]].invocation_id, [w.invs[i].invocation_id for i in a[1]])))
    op("blocking", lambda r: (r.choice([0, 1, 2, 10]),), lambda w, a: _blocking(w, a))
    op("release", lambda r: (inv(r),), lambda w, a: call(lambda: w.app.orchestrator.release_waiters(w.invs[a[0]].invocation_id)))
    op("route", lambda r: (inv(r),), lambda w, a: call(lambda: w.app.broker.route_invocation(w.invs[a[0]].invocation_id)))
    op("route_many", lambda r: (invs(r),), lambda w, a: call(lambda: w.app.broker.route_invocations([w.invs[i].invocation_id for i in a[0]])))
    op("retrieve", lambda r: (), lambda w, a: call(lambda: w.app.broker.retrieve_invocation()))
    op("queue_count", lambda r: (), lambda w, a: call(lambda: w.app.broker.count_invocations()))
    op("upsert", lambda r: (invs(r),), lambda w, a: call(lambda: w.app.state_backend.upsert_invocations([w.invs[i] for i in a[0]])))
    op("get_invocation", lambda r: (inv(r),), lambda w, a: call(lambda: w.app.state_backend.get_invocation(w.invs[a[0]].invocation_id)))
    op("history", lambda r: (inv(r),), lambda w, a: call(lambda: [(h.status_record.status.name, h.status_record.runner_id) if hasattr(h, "status_record") else norm(h)
                                                                  for h in w.app.state_backend.get_history(w.invs[a[0]].invocation_id)]))
    op("set_result", lambda r: (inv(r), r.choice([0, "v", [1, 2]])), lambda w, a: call(lambda: w.app.state_backend.set_result(w.invs[a[0]].invocation_id, a[1])))
    op("get_result", lambda r: (inv(r),), lambda w, a: call(lambda: w.app.state_backend.get_result(w.invs[a[0]].invocation_id)))
    op("set_exception", lambda r: (inv(r),), lambda w, a: call(lambda: w.app.state_backend.set_exception(w.invs[a[0]].invocation_id, ValueError("boom"))))
    op("get_exception", lambda r: (inv(r),), lambda w, a: call(lambda: type(w.app.state_backend.get_exception(w.invs[a[0]].invocation_id)).__name__))
    op("children", lambda r: (inv(r),), lambda w, a: call(lambda: w.app.state_backend.get_child_invocations(w.invs[a[0]].invocation_id)), True)
    op("wf_set", lambda r: (inv(r), r.choice(["a", "b"]), r.choice([1, "x", None])),
       lambda w, a: call(lambda: w.app.state_backend.set_workflow_data(w.invs[a[0]].workflow, a[1], a[2])))
    op("wf_get", lambda r: (inv(r), r.choice(["a", "b"])), lambda w, a: call(lambda: w.app.state_backend.get_workflow_data(w.invs[a[0]].workflow, a[1], "dflt")))
    op("claim", lambda r: (r.choice(["run-a", "run-b"]), r.choice([1, 30])), lambda w, a: call(lambda: w.app.trigger.claim_trigger_run(a[0], a[1])))
    op("cron_cas", lambda r: (r.choice(["c1", "c1", "c2", "c3"]), r.choice([0, 60]), r.choice(["none", "stored", "other", "uncond"])), lambda w, a: _cron_cas(w, a))
    op("cron_get", lambda r: (r.choice(["c1", "c2", "c3"]),), lambda w, a: call(lambda: w.app.trigger.get_last_cron_execution(w.conds[a[0]])))
    op("cds_store", lambda r: (r.choice(["k1", "k2"]), r.choice(["v1", "v2" * 700])), lambda w, a: call(lambda: w.app.client_data_store._store(a[0], a[1])))
    op("cds_get", lambda r: (r.choice(["k1", "k2", "k3"]),), lambda w, a: call(lambda: w.app.client_data_store._retrieve(a[0])))
    op("emit", lambda r: (r.choice([0, 1]),), lambda w, a: call(lambda: w.app.trigger.emit_event("evt", {"x": a[0]}) and None))
    op("valid_conditions", lambda r: (), lambda w, a: call(lambda: len(w.app.trigger.get_valid_conditions())))
    op("trigger_iteration", lambda r: (), lambda w, a: call(lambda: (w.app.trigger.trigger_loop_iteration(),
                                                                     w.app.orchestrator.count_invocations(w.triggered.task_id), len(w.app.trigger.get_valid_conditions()))[1:]))
    op("clean_trigger_defs", lambda r: (r.choice([0, 1]),), lambda w, a: call(lambda: w.app.trigger.clean_task_trigger_definitions(w.builders[a[0]][0].task_id)))
    op("reregister_triggers", lambda r: (r.choice([0, 1]),), lambda w, a: call(lambda: w.app.trigger.register_task_triggers(w.builders[a[0]][0], w.builders[a[0]][1]())))
    op("triggers_for_condition", lambda r: (), lambda w, a: call(lambda: sorted(str(getattr(t, "task_id", None) or getattr(t, "task_id_key", t))
                                                                                 for t in w.app.trigger.get_triggers_for_condition(w.event_cond))))
    op("tick", lambda r: (r.choice([0.5, 10.0, 70.0]),), lambda w, a: ("ok", None))
    return ops_


def _takes_ctx(fn):
    import inspect
    return len(inspect.signature(fn).parameters) >= 2


def _pages(w, a, S):
    """pagination: pages of the given size until an empty page; compared as (page sizes, union as a set)"""
    tid = w.tasks[a[0]].task_id if a[0] is not None else None
    sts = [S[s] for s in a[1]] if a[1] is not None else None
    sizes, seen = [], []
    try:
        off = 0
        while off < 20:
            page = list(w.app.orchestrator.get_invocation_ids_paginated(tid, sts, a[2], off))
            if not page:
                break
            sizes.append(len(page))
            seen += page
            off += a[2]
        return ("ok", [sizes, sorted(norm(x) for x in seen), len(seen) == len(set(seen))])
    except Exception as e:      # noqa: BLE001
        return ("raises", type(e).__name__)


def _blocking(w, a):
    """get_blocking_invocations(n): the choice among ready ids is unspecified: compared as (size, subset of the full ready set)"""
    try:
        full = set(w.app.orchestrator.get_blocking_invocations(1000))
        got = list(w.app.orchestrator.get_blocking_invocations(a[0]))
        return ("ok", [len(got), sorted(full), set(got) <= full, len(set(got)) == len(got)])
    except Exception as e:      # noqa: BLE001
        return ("raises", type(e).__name__)


def _cron_cas(w, a):
    import datetime as _dt
    from pynenc.trigger.base_trigger import UNCONDITIONAL
    cid = w.conds[a[0]]
    cur = w.app.trigger.get_last_cron_execution(cid)
    new = _dt.datetime.fromtimestamp(Clock.t + a[1], _dt.UTC)
    exp = {"none": None, "stored": cur, "other": _dt.datetime.fromtimestamp(1.0, _dt.UTC), "uncond": UNCONDITIONAL}[a[2]]
    return call(lambda: w.app.trigger.store_last_cron_execution(cid, new, exp))


def read_out(w):
    """everything observable, after every operation"""
    o = w.app.orchestrator
    out = {}
    with contextlib.suppress(Exception):
        w.app.state_backend.wait_for_all_async_operations()
    for k, inv in enumerate(w.invs):
        i = inv.invocation_id
        out[f"rec{k}"] = call(lambda: o.get_invocation_status_record(i))
        out[f"retries{k}"] = call(lambda: o.get_invocation_retries(i))
        out[f"stored{k}"] = call(lambda: w.app.state_backend.get_invocation(i))[0]
        out[f"hist{k}"] = call(lambda: [(h.status_record.status.name, h.status_record.runner_id) if hasattr(h, "status_record") else norm(h)
                                        for h in w.app.state_backend.get_history(i)])
    out["queue"] = call(lambda: w.app.broker.count_invocations())
    out["active"] = call(lambda: [r.runner_id for r in o.get_active_runners()])
    out["ready"] = as_set(call(lambda: o.get_blocking_invocations(1000)))
    out["count_all"] = call(lambda: o.count_invocations())
    return out


def unknown_marker(worlds, name, args) -> str:
    """':unregistered-id' when the operation names an invocation that was never registered (or a never-registered condition)"""
    reg = worlds[0].registered
    labels = []
    for a in args:
        if isinstance(a, int) and not isinstance(a, bool) and name not in ("blocking", "pages", "count", "existing", "task_ids", "claim", "tick", "cron_cas"):
            labels.append(a)
        elif isinstance(a, (list, tuple)) and all(isinstance(x, int) for x in a) and name not in ("heartbeat",):
            labels += list(a)
    if name in ("cron_cas", "cron_get") and args[0] == "c3":
        return ":unregistered-id"
    if worlds[0].tainted:
        return worlds[0].tainted
    if name in ("register", "upsert", "get_invocation", "wf_set", "wf_get", "set_result", "get_result", "set_exception", "get_exception", "children", "route",
                "route_many", "cds_store", "cds_get", "index_args"):
        return ""
    return ":unregistered-id" if any(x not in reg for x in labels) else ""


def bulk_comparison(ctx: RunCtx) -> BoundedResult:
    """Bounded stand-in: the same 330 invocations (110 per status class: more than any plausible page or batch size) on both backends; every bulk read must agree,
    also while the result set is being consumed and changed (recovery scans)."""
    from pynenc.arguments import Arguments
    from pynenc.call import Call
    from pynenc.invocation.dist_invocation import DistributedInvocation
    from pynenc.invocation.status import InvocationStatus as S
    from pynenc.workflow.workflow_identity import WorkflowIdentity
    from . import verif_tasks as vt
    from .realapp import real_app, runner_ctx
    res = BoundedResult("bulk_comparison", "330 invocations of two tasks with a fixed status pattern on both backends: counts, id listings, pagination with page sizes 7/50/100, "
                        "filter_by_status, queue drain order, both recovery scans consumed lazily while each id is moved on")
    N = 330
    n = 0
    obs = {}
    with controlled_clock():
        for backend in ("mem", "sqlite"):
            Clock.t = 1_700_000_000.0
            with real_app(backend, app_id="bulk", max_pending_seconds=5.0, runner_considered_dead_after_minutes=1.0) as app:
                tasks = [app.task(vt.key_task), app.task(vt.add)]
                invs = []
                for k in range(N):
                    task = tasks[k % 2]
                    args = {"key": f"v{k % 5}", "other": f"v{(k // 2) % 3}"} if k % 2 == 0 else {"x": k % 4, "y": 1}
                    iid = f"bulk-{k:03d}"
                    invs.append(DistributedInvocation(Call(task, Arguments(args)), iid, None, WorkflowIdentity.new_workflow(invocation_id=iid, task_id=task.task_id), True))
                app.state_backend.upsert_invocations(invs)
                app.orchestrator.register_new_invocations(invs)
                for inv in invs:
                    app.orchestrator.index_arguments_for_concurrency_control(inv)
                o, ctxs = app.orchestrator, {r: runner_ctx(r) for r in ("r1", "r2")}
                o.register_runner_heartbeats(["r1"])
                for k, inv in enumerate(invs):
                    Clock.t += 0.01
                    if k % 3 != 0:
                        o.set_invocation_status(inv.invocation_id, S.PENDING, ctxs["r1" if k % 2 else "r2"])
                    if k % 3 == 2:
                        o.set_invocation_status(inv.invocation_id, S.RUNNING, ctxs["r1" if k % 2 else "r2"])
                    app.broker.route_invocation(inv.invocation_id)
                ids = [i.invocation_id for i in invs]
                out = {}
                out["count_all"] = o.count_invocations()
                for t_i, t in enumerate(tasks):
                    out[f"count_task{t_i}"] = o.count_invocations(t.task_id)
                    out[f"ids_task{t_i}"] = sorted(o.get_task_invocation_ids(t.task_id))
                    for st in (S.REGISTERED, S.PENDING, S.RUNNING):
                        out[f"count_task{t_i}_{st.name}"] = o.count_invocations(t.task_id, [st])
                        out[f"existing_task{t_i}_{st.name}"] = sorted(o.get_existing_invocations(t, None, [st]))
                for size in (7, 50, 100):
                    pages, off = [], 0
                    while off < 400:
                        page = list(o.get_invocation_ids_paginated(None, None, size, off))
                        if not page:
                            break
                        pages.append(page)
                        off += size
                    flat = [x for pg in pages for x in pg]
                    out[f"pages_{size}"] = ([len(pg) for pg in pages], sorted(flat), len(flat) == len(set(flat)))
                ser = app.client_data_store.serialize
                for kv in range(5):                                  # key filters, including key arguments whose values are equal
                    for ov in range(3):
                        out[f"by_key_v{kv}_v{ov}"] = sorted(o.get_existing_invocations(tasks[0], {"key": ser(f"v{kv}"), "other": ser(f"v{ov}")}, None))
                    out[f"by_key_v{kv}"] = sorted(o.get_existing_invocations(tasks[0], {"key": ser(f"v{kv}")}, [S.PENDING, S.RUNNING]))
                out["filter_pending"] = sorted(o.filter_by_status(ids, frozenset([S.PENDING])))
                out["filter_final"] = sorted(o.filter_final(ids))
                Clock.t += 120.0                                   # r1 and r2 are silent now, every PENDING is overdue
                rec = runner_ctx("recovery")
                taken_p, taken_r = [], []
                for iid in o.get_pending_invocations_for_recovery():        # consumed lazily while every id is moved on, like the core task
                    o.set_invocation_status(iid, S.PENDING_RECOVERY, rec)
                    taken_p.append(iid)
                for iid in o.get_running_invocations_for_recovery():
                    o.set_invocation_status(iid, S.RUNNING_RECOVERY, rec)
                    taken_r.append(iid)
                out["recovered_pending"], out["recovered_running"] = sorted(taken_p), sorted(taken_r)
                out["left_pending"] = o.count_invocations(None, [S.PENDING])
                out["left_running"] = o.count_invocations(None, [S.RUNNING])
                drained = []
                while (i := app.broker.retrieve_invocation()) is not None:
                    drained.append(i)
                out["queue_order"] = drained
                obs[backend] = out
    for key in obs["mem"]:
        n += 1
        if obs["mem"][key] != obs["sqlite"][key]:
            res.failures.append({"what": f"{key}: mem {str(obs['mem'][key])[:150]} != sqlite {str(obs['sqlite'][key])[:150]}", "finding_key": f"bulk:{key}"})
    # independent expectations, so that a defect shared by both backends does not hide behind their agreement
    exp_pending = len([k for k in range(N) if k % 3 == 1])
    exp_running = len([k for k in range(N) if k % 3 == 2])
    expected_queue = [f"bulk-{k:03d}" for k in range(N)] * 2  # registration routes the batch in list order, then each id is routed once more in the same order
    want_keys = {}
    for kv in range(5):
        for ov in range(3):
            want_keys[f"by_key_v{kv}_v{ov}"] = sorted(f"bulk-{k:03d}" for k in range(0, N, 2) if k % 5 == kv and (k // 2) % 3 == ov)
    for backend in obs:
        n += 1
        o_ = obs[backend]
        wrong = [k for k, v in want_keys.items() if o_[k] != v]
        if wrong:
            res.failures.append({"what": f"{backend}: same-key lookup {wrong[0]} returned {len(o_[wrong[0]])} ids, expected {len(want_keys[wrong[0]])} "
                                         f"(all key pairs must match, also when two key arguments have equal values)", "finding_key": f"bulk-expectation:{backend}:key-lookup"})
        if len(o_["recovered_pending"]) != exp_pending or len(o_["recovered_running"]) != exp_running or o_["left_pending"] or o_["left_running"] \
                or o_["count_all"] != N or o_["queue_order"] != expected_queue:
            res.failures.append({"what": f"{backend}: bulk expectations: recovered {len(o_['recovered_pending'])}/{exp_pending} pending and {len(o_['recovered_running'])}/{exp_running} "
                                         f"running, left {o_['left_pending']}/{o_['left_running']}, count {o_['count_all']}/{N}, queue in routing order: "
                                         f"{o_['queue_order'] == expected_queue} ({len(o_['queue_order'])} messages)", "finding_key": f"bulk-expectation:{backend}"})
    res.failures = res.failures[:10]
    res.cases = n
    res.distinct = n
    res.samples = [{"invocations": N, "pattern": "k%3: REGISTERED / PENDING / RUNNING under r1|r2"}]
    return res


def differential(ctx: RunCtx) -> BoundedResult:
    from .realapp import real_app
    thorough = ctx.tier == "thorough"
    n_seq, length = (400, 60) if thorough else (60, 40)
    res = BoundedResult("differential", f"{n_seq} seeded random sequences of {length} operations (+ all single operations from the empty state) over "
                        f"{len(operations())} public operations of orchestrator, blocking control, broker, state backend, trigger store and client data store; "
                        f"{N_INV} invocations of 2 tasks, 3 runners, controlled clock; every return value / error class and a full read-out compared after every operation")
    ops_ = operations()
    rng0 = random.Random(1000 + ctx.seed)
    n_steps = 0
    seen_keys = set()
    unknown_seen = {}

    def run_sequence(seq, label):
        nonlocal n_steps
        Clock.t = 1_700_000_000.0
        conf = {"max_pending_seconds": 5.0, "runner_considered_dead_after_minutes": 1.0, "auto_final_invocation_purge_hours": 0.01}
        with real_app("mem", app_id="eq", **conf) as am, real_app("sqlite", app_id="eq", **conf) as asq:
            worlds = [World(am, "mem"), World(asq, "sqlite")]
            for step, (name, args) in enumerate(seq):
                opdef = next(o for o in ops_ if o[0] == name)
                if name == "tick":
                    Clock.t += args[0]
                marker = unknown_marker(worlds, name, args)
                if marker == ":unregistered-id" and label.startswith("seq"):
                    continue            # operations on never-registered ids are compared from the empty state only (class F-C16-1); here they would taint the rest
                obs = [opdef[2](w, args) for w in worlds]
                if opdef[3]:
                    obs = [as_set(o) for o in obs]
                n_steps += 1
                if name == "register" and obs[0][0] == "ok":
                    for w in worlds:
                        w.registered |= set(args[0])
                if name == "set_status" and obs[0][0] == "ok" and args[1] in ("SUCCESS", "FAILED", "CONCURRENCY_CONTROLLED_FINAL"):
                    for w in worlds:     # the orchestrator schedules the auto-purge itself on a final transition
                        w.purge_scheduled = getattr(w, "purge_scheduled", set()) | {args[0]}
                if name == "setup_purge":
                    for w in worlds:
                        if args[0] in getattr(w, "purge_scheduled", set()) and not w.tainted:
                            w.tainted = ":after-scheduling-the-same-invocation-twice-for-auto-purge"
                        w.purge_scheduled = getattr(w, "purge_scheduled", set()) | {args[0]}
                if name == "release":
                    st = call(lambda: worlds[0].app.orchestrator.get_invocation_status_record(worlds[0].invs[args[0]].invocation_id))
                    if not (st[0] == "ok" and st[1][0] in ("SUCCESS", "FAILED", "CONCURRENCY_CONTROLLED_FINAL")):
                        for w in worlds:
                            w.tainted = ":after-release-of-an-unfinished-invocation"
                if obs[0] != obs[1]:
                    key = f"{name}:{obs[0][0]}/{obs[1][0]}"
                    if key not in seen_keys and len(res.failures) < 12:
                        seen_keys.add(key)
                        res.failures.append({"what": f"{label} step {step}: {name}{args} -> mem {str(obs[0])[:160]} != sqlite {str(obs[1])[:160]}",
                                             "input": {"sequence": [[n, list(a)] for n, a in seq[:step + 1]]}, "finding_key": f"return:{name}{marker}"})
                    if marker:
                        unknown_seen[name] = unknown_seen.get(name, 0) + 1
                    return
                ro = [read_out(w) for w in worlds]
                if ro[0] != ro[1]:
                    diff = [k for k in ro[0] if ro[0][k] != ro[1][k]]
                    key = f"state:{name}:{diff[0].rstrip('0123456789')}{marker}"
                    if marker:
                        unknown_seen[name] = unknown_seen.get(name, 0) + 1
                    if key not in seen_keys and len(res.failures) < 12:
                        seen_keys.add(key)
                        res.failures.append({"what": f"{label} after step {step} {name}{args}: read-out differs in {diff}: mem {str(ro[0][diff[0]])[:120]} != sqlite {str(ro[1][diff[0]])[:120]}",
                                             "input": {"sequence": [[n, list(a)] for n, a in seq[:step + 1]]}, "finding_key": key})
                    return
    with controlled_clock():
        # every single operation from the empty state (several argument draws)
        for name, gen, _fn, _u in ops_:
            r = random.Random(f"{name}-{ctx.seed}")
            for k in range(3):
                run_sequence([(name, gen(r))], f"single {name}#{k}")
        # protocol scenarios that random sequences hit too rarely (expiry and re-take of a claim, purge with waiters, retry bookkeeping)
        reg_all = [("upsert", (list(range(N_INV)),)), ("register", (list(range(N_INV)), "r1"))]
        scenarios = {
            "claim-expires-and-is-retaken": [("claim", ("run-a", 1)), ("claim", ("run-a", 1)), ("tick", (10.0,)), ("claim", ("run-a", 30)), ("claim", ("run-a", 30)),
                                             ("tick", (10.0,)), ("claim", ("run-a", 30)), ("tick", (70.0,)), ("claim", ("run-a", 1))],
            "purge-of-a-final-invocation-with-late-waiters": reg_all + [
                ("set_status", (0, "PENDING", "r1")), ("set_status", (0, "RUNNING", "r1")), ("set_status", (0, "SUCCESS", "r1")),
                ("wait", (2, [0])), ("wait", (3, [2])), ("blocking", (10,)), ("tick", (70.0,)), ("auto_purge", ()), ("blocking", (10,)), ("count", (None, None))],
            "retry-bookkeeping": reg_all + [("set_status", (1, "PENDING", "r2")), ("set_status", (1, "RUNNING", "r2")), ("set_status", (1, "RETRY", "r2")),
                                            ("incr_retries", (1,)), ("incr_retries", (1,)), ("set_status", (1, "PENDING", "r1")), ("tick", (10.0,)), ("pending_recovery", ())],
            "shared-condition-trigger-definitions": [("triggers_for_condition", ()), ("clean_trigger_defs", (0,)), ("triggers_for_condition", ()), ("emit", (1,)),
                                                     ("trigger_iteration", ()), ("reregister_triggers", (0,)), ("triggers_for_condition", ()), ("clean_trigger_defs", (1,)),
                                                     ("triggers_for_condition", ()), ("emit", (0,)), ("trigger_iteration", ())],
            "cron-cas-sequence": [("cron_cas", ("c1", 0, "none")), ("cron_cas", ("c1", 60, "none")), ("cron_cas", ("c1", 60, "stored")), ("cron_get", ("c1",)),
                                  ("cron_cas", ("c1", 0, "other")), ("cron_cas", ("c1", 0, "uncond")), ("cron_get", ("c1",))],
            "heartbeats-and-dead-owner": reg_all + [("heartbeat", (["r1", "r2"], True)), ("set_status", (0, "PENDING", "r1")), ("set_status", (0, "RUNNING", "r1")),
                                                    ("tick", (70.0,)), ("heartbeat", (["r2"], False)), ("active_runners", (None,)), ("running_recovery", ()),
                                                    ("active_runners", (True,))],
        }
        for label, seq in scenarios.items():
            run_sequence(seq, f"scenario {label}")
        for s in range(n_seq):
            r = random.Random(rng0.random())
            seq = []
            # registration first with high probability so that most sequences do something
            if r.random() < 0.85:
                seq.append(("upsert", (list(range(N_INV)),)))
                seq.append(("register", (sorted(r.sample(range(N_INV), r.randrange(1, N_INV + 1))), r.choice(RUNNERS))))
            while len(seq) < length:
                name, gen, _fn, _u = r.choice(ops_)
                seq.append((name, gen(r)))
            run_sequence(seq, f"seq {s}")
    res.cases = n_steps
    res.distinct = n_steps
    res.samples = [["upsert", "register", "set_status", "tick", "pending_recovery"]]
    return res


def build(ctx: RunCtx) -> Prop:
    T = Types(ctx.src)
    reg = base_registry(ctx.src, T)
    return Prop(
        pid=PID, title="both backend families implement the abstract operations of the shared base classes; representative operation pairs are verified against "
                       "one contract; observational equivalence itself is a bounded differential run of the two real backends",
        level="other", technique="shared interface contracts verified for both implementations (AST->z3 VCs; SQL text only at glue level) + bounded differential run "
                                 "of the real in-memory and SQLite backends over operation sequences with a controlled clock",
        registry=reg, verify=[], lemmas=[interface_lemmas], bounded=[differential, bulk_comparison], parts=PAIRS,
        assumptions=["ids, runner ids and payloads come from a small universe; timestamps come from one controlled clock for both backends",
                     "the meaning of SQL statements is not modelled: equivalence of the SQLite implementation is only sampled"],
        trusted_base=["pyvc VC generator", "z3 5.1", "sqlite3 of the Python build"],
        not_decided="observational equivalence for all histories is not proved (bounded differential run only); plugin backends are out of scope.",
        min_obligations=100,
    )
