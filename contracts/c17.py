"""C17 — applications with different ids are fully isolated, for any id string."""
from __future__ import annotations

import ast
import itertools
import os
import re

import z3

from pyvc.contract import Case, Contract, Registry, Shape
from pyvc.prop import BoundedResult, Prop, RunCtx
from pyvc.solve import Obligation
from pyvc.types import BOOL, INT, REAL, STR
from pyvc.values import OK, BoundMeth, Native, Val, fresh_name

from .common import Types, base_registry

PID = "C17"
SU = "pynenc.util.sqlite_utils"
IDENT = z3.Concat(z3.Union(z3.Range("a", "z"), z3.Range("A", "Z"), z3.Re("_")),
                  z3.Star(z3.Union(z3.Range("a", "z"), z3.Range("A", "Z"), z3.Range("0", "9"), z3.Re("_"))))
WORD = z3.Star(z3.Union(z3.Range("a", "z"), z3.Range("A", "Z"), z3.Range("0", "9"), z3.Re("_")))
HEX8 = z3.Loop(z3.Union(z3.Range("0", "9"), z3.Range("a", "f")), 8, 8)
HEX64 = z3.Loop(z3.Union(z3.Range("0", "9"), z3.Range("a", "f")), 64, 64)
resub = z3.Function("re_sub_nonword_to_underscore", z3.StringSort(), z3.StringSort())
sha_hex = z3.Function("sha256_hexdigest", z3.StringSort(), z3.StringSort())


def natives(reg: Registry):
    class ReNative(Native):
        def vc_getattr(self, eng, st, name):
            return BoundMeth(self, name)

        def vc_call(self, eng, st, name, args, kwargs):
            if name == "sub":
                pat, repl, s = args[0], args[1], args[2]
                if getattr(pat, "template", None) != r"[^a-zA-Z0-9_]" or getattr(repl, "template", None) != "_":
                    from pyvc.ops import Unsupported
                    raise Unsupported(f"re.sub with pattern {getattr(pat, 'template', '?')!r} / replacement {getattr(repl, 'template', '?')!r} has no assumed contract")
                r = resub(s.term)
                # assumed contract of re.sub(r"[^a-zA-Z0-9_]", "_", s): same length, only word characters, identity on word strings
                st.assume(z3.And(z3.Length(r) == z3.Length(s.term), z3.InRe(r, WORD), z3.Implies(z3.InRe(s.term, WORD), r == s.term)))
                return [(OK, st, Val(r, STR))]
            from pyvc.ops import Unsupported
            raise Unsupported(f"re.{name}")
    reg.natives["re:"] = ReNative()

    class HashObj(Native):
        def __init__(self, data):
            self.data = data

        def vc_getattr(self, eng, st, name):
            return BoundMeth(self, name)

        def vc_call(self, eng, st, name, args, kwargs):
            if name == "hexdigest":
                h = sha_hex(self.data)
                st.assume(z3.And(z3.Length(h) == 64, z3.InRe(h, HEX64)))
                st.assume(z3.InRe(z3.SubString(h, 0, 8), HEX8))   # consequence of the line above, given as a hint to the string solvers
                return [(OK, st, Val(h, STR))]
            from pyvc.ops import Unsupported
            raise Unsupported(f"hash.{name}")

    class HashlibNative(Native):
        def vc_getattr(self, eng, st, name):
            return BoundMeth(self, name)

        def vc_call(self, eng, st, name, args, kwargs):
            if name == "sha256":
                return [(OK, st, HashObj(args[0].term))]
            from pyvc.ops import Unsupported
            raise Unsupported(f"hashlib.{name}")
    reg.natives["hashlib:"] = HashlibNative()


def contracts(reg: Registry):
    natives(reg)

    def core(c):
        """sanitised id, '_'-prefixed when it starts with a digit, '_default' when empty"""
        s = resub(c.arg("app_id"))
        return z3.If(z3.Length(s) == 0, z3.StringVal("_default"),
                     z3.If(z3.InRe(z3.SubString(s, 0, 1), z3.Range("0", "9")), z3.Concat(z3.StringVal("_"), s), s))
    sanitize = Contract(
        key=f"{SU}:sanitize_table_prefix", params={"app_id": STR}, result=STR,
        cases=[Case("prefix", ensures=[
            ("is-an-SQL-identifier:only-[A-Za-z0-9_](no quote, semicolon, wildcard %)", lambda c: z3.And(z3.Length(c.result) > 0, z3.InRe(c.result, WORD))),
            ("is-an-SQL-identifier:first-character-is-a-letter-or-underscore(no leading digit)", lambda c: z3.InRe(
                z3.SubString(c.result, 0, 1), z3.Union(z3.Range("a", "z"), z3.Range("A", "Z"), z3.Re("_")))),
            ("is-sanitised-id+_+first-8-hex-of-sha256(id)", lambda c: c.result == z3.Concat(core(c), z3.StringVal("_"), z3.SubString(sha_hex(c.arg("app_id")), 0, 8))),
            ("hash-part-is-8-hex-digits", lambda c: z3.InRe(z3.SubString(c.result, z3.Length(c.result) - 8, 8), HEX8)),
        ])], properties=[PID])
    reg.add(sanitize)
    return [sanitize]


def lemmas(ctx: RunCtx):
    """Over the contract of sanitize_table_prefix: equal prefixes need equal 8-hex hashes AND equal sanitised forms."""
    c1, c2, h1, h2 = z3.Strings("c1 c2 h1 h2")
    us = z3.StringVal("_")
    pc = [z3.InRe(h1, HEX8), z3.InRe(h2, HEX8), z3.Concat(c1, us, h1) == z3.Concat(c2, us, h2)]
    out = [Obligation(name=f"{PID}/lemma/equal-prefixes=>equal-hash-part-and-equal-sanitised-part", kind="lemma", pc=pc,
                      goal=z3.And(c1 == c2, h1 == h2), function="contract of sanitize_table_prefix")]
    return out


TABLE_ATTR = re.compile(r"^(self\.)?_?tables?\.[A-Z_]+$|^self\.tables\.table_prefix$")


def allowed_fragment(e, fn, depth=0) -> bool:
    """An expression interpolated into SQL text is acceptable when it can only evaluate to SQL made of literals, `?` placeholder lists
    and table-name attributes: never a value (values must be bound as parameters)."""
    if depth > 10:
        return False
    if isinstance(e, ast.Constant):
        return isinstance(e.value, (str, int))   # integer counters (join aliases a0, a1, ...) are not values from outside
    if TABLE_ATTR.match(ast.unparse(e)):
        return True
    if isinstance(e, ast.JoinedStr):
        return all(isinstance(p, ast.Constant) or allowed_fragment(p.value, fn, depth + 1) for p in e.values)
    if isinstance(e, ast.BinOp) and isinstance(e.op, ast.Add):
        return allowed_fragment(e.left, fn, depth + 1) and allowed_fragment(e.right, fn, depth + 1)
    if isinstance(e, ast.BinOp) and isinstance(e.op, ast.Mult):      # ['?'] * n   /  "?, " * n
        return isinstance(e.left, (ast.List, ast.Constant)) and all(isinstance(x, ast.Constant) and isinstance(x.value, str)
                                                                     for x in (e.left.elts if isinstance(e.left, ast.List) else [e.left]))
    if isinstance(e, ast.IfExp):
        return allowed_fragment(e.body, fn, depth + 1) and allowed_fragment(e.orelse, fn, depth + 1)
    if isinstance(e, ast.Call) and isinstance(e.func, ast.Attribute) and e.func.attr == "join" and isinstance(e.func.value, ast.Constant):
        a = e.args[0]
        if isinstance(a, (ast.GeneratorExp, ast.ListComp)):
            return allowed_fragment(a.elt, fn, depth + 1)
        return allowed_fragment(a, fn, depth + 1)
    if isinstance(e, (ast.List, ast.Tuple)):
        return all(allowed_fragment(x, fn, depth + 1) for x in e.elts)
    if isinstance(e, ast.Name) and fn is not None:
        assigns = []
        for sub in ast.walk(fn):
            if isinstance(sub, ast.Assign) and any(isinstance(t, ast.Name) and t.id == e.id for t in sub.targets):
                assigns.append(sub.value)
            elif isinstance(sub, ast.AugAssign) and isinstance(sub.target, ast.Name) and sub.target.id == e.id:
                assigns.append(sub.value)
            elif isinstance(sub, ast.AnnAssign) and isinstance(sub.target, ast.Name) and sub.target.id == e.id and sub.value is not None:
                assigns.append(sub.value)
            elif isinstance(sub, ast.Call) and isinstance(sub.func, ast.Attribute) and sub.func.attr in ("append", "extend") and \
                    isinstance(sub.func.value, ast.Name) and sub.func.value.id == e.id:
                assigns.extend(sub.args)
            elif isinstance(sub, (ast.For, ast.comprehension)) and isinstance(sub.target, ast.Name) and sub.target.id == e.id:
                return False   # loop variables are values
        return bool(assigns) and all(allowed_fragment(a, fn, depth + 1) for a in assigns)
    return False


def sql_frame_scan(ctx: RunCtx):
    """Frame scan (kind 3): in the sqlite_* modules every SQL statement is built from literals and `tables.*` attributes only, every
    table attribute is `<prefix>_<literal suffix without "__">`, values are bound as parameters, and no statement names a table
    outside the component's own Tables object (discover_app_infos is the one read-only exception)."""
    out = []
    mods = ["pynenc.orchestrator.sqlite_orchestrator", "pynenc.broker.sqlite_broker", "pynenc.state_backend.sqlite_state_backend",
            "pynenc.trigger.sqlite_trigger", "pynenc.client_data_store.sqlite_client_data_store"]
    table_attr = re.compile(r"^(self\.)?tables\.[A-Z_]+$|^(self\.)?_?tables?\.[A-Z_]+$|^tables\.[A-Z_]+$|^self\.tables\.table_prefix$")
    for m in mods:
        mod = ctx.src.module(m)
        bad, n_sql, n_tables = [], 0, 0
        # local aliases of table names: p = self.table_prefix ; placeholders = ",".join("?" ...)
        for node in ast.walk(mod.tree):
            if isinstance(node, ast.ClassDef) and any(isinstance(b, ast.Name) and b.id == "TableNames" for b in node.bases):
                for sub in ast.walk(node):
                    if isinstance(sub, ast.Assign) and isinstance(sub.targets[0], ast.Attribute) and sub.targets[0].attr.isupper():
                        n_tables += 1
                        v = sub.value
                        ok = isinstance(v, ast.JoinedStr) and len(v.values) == 2 and isinstance(v.values[0], ast.FormattedValue) and \
                            isinstance(v.values[1], ast.Constant) and re.fullmatch(r"_[a-z0-9]+(_[a-z0-9]+)*", v.values[1].value or "") and \
                            ast.unparse(v.values[0].value) in ("p", "self.table_prefix")
                        if not ok:
                            bad.append(f"table name {sub.targets[0].attr} is not <prefix>_<lowercase suffix without '__'> (line {sub.lineno})")
            if isinstance(node, ast.Call) and isinstance(node.func, ast.Attribute) and node.func.attr == "execute" and node.args:
                arg = node.args[0]
                fn = next((f for f in ast.walk(mod.tree) if isinstance(f, (ast.FunctionDef, ast.AsyncFunctionDef)) and any(x is node for x in ast.walk(f))), None)
                n_sql += 1
                if fn is not None and fn.name == "discover_app_infos":
                    from pyvc.effects import _sql_text
                    txt = _sql_text(arg, fn) or ""
                    if not txt.strip().upper().startswith("SELECT"):
                        bad.append(f"discover_app_infos executes a non-SELECT statement at line {node.lineno}")
                    continue   # the one deliberate cross-application statement: read-only discovery of registered apps
                if not allowed_fragment(arg, fn):
                    bad.append(f"statement at line {node.lineno} interpolates something that is neither a literal, a '?' list nor an own table name")
        o = Obligation(name=f"{PID}/frame/{m.split('.')[-1]}/SQL-text-from-literals-and-own-table-names-only", kind="frame", pc=[],
                       goal=z3.BoolVal(not bad), function=m)
        o.status, o.backend = ("discharged" if not bad else "failed"), "ast-scan"
        o.detail = " | ".join(bad)[:500]
        o.extra = {"statements": n_sql, "table_attributes": n_tables}
        out.append(o)
    return out


# --------------------------------------------------------------------------- bounded: adversarial ids on one shared database file
ADVERSARIAL = ["app", "App", "app_b", "app-b", "app.b", "app b", "1app", "", "_", "app%", "app_", "a'b", 'a"b', "a;DROP TABLE x;--", "äpp", "app\n"]


COMPONENT_MODULES = ["pynenc.orchestrator.base_orchestrator", "pynenc.orchestrator.mem_orchestrator", "pynenc.orchestrator.sqlite_orchestrator",
                     "pynenc.broker.base_broker", "pynenc.broker.mem_broker", "pynenc.broker.sqlite_broker",
                     "pynenc.state_backend.base_state_backend", "pynenc.state_backend.mem_state_backend", "pynenc.state_backend.sqlite_state_backend",
                     "pynenc.trigger.base_trigger", "pynenc.trigger.mem_trigger", "pynenc.trigger.sqlite_trigger",
                     "pynenc.client_data_store.base_client_data_store", "pynenc.client_data_store.mem_client_data_store",
                     "pynenc.client_data_store.sqlite_client_data_store"]


def state_lives_in_instances(ctx: RunCtx):
    """Syntactic obligations: a backend component keeps its state per instance (one instance per app). A mutable container bound at class level
    or at module level and written by a method is shared by every app of the process - in-memory apps with different ids would see each other."""
    import ast
    out = []

    def ob(name, ok, detail=""):
        o = Obligation(name=f"{PID}/per-app-state/{name}", kind="frame", pc=[], goal=z3.BoolVal(bool(ok)), function=name.split(":")[0])
        o.detail = detail
        out.append(o)
    MUTABLE_CALLS = {"dict", "list", "set", "OrderedDict", "defaultdict", "deque", "Counter"}

    def is_mutable(v):
        if isinstance(v, (ast.Dict, ast.List, ast.Set, ast.DictComp, ast.ListComp, ast.SetComp)):
            return True
        if isinstance(v, ast.Call):
            f = v.func
            nm = f.id if isinstance(f, ast.Name) else (f.attr if isinstance(f, ast.Attribute) else "")
            return nm in MUTABLE_CALLS
        return False
    def keyed_by_app_id(cls, attr) -> bool:
        """a process-wide registry is fine when every element access names the app id (entries of different apps never meet)"""
        uses = 0
        for node in ast.walk(cls):
            if isinstance(node, ast.Attribute) and node.attr == attr and isinstance(node.ctx, ast.Load):
                uses += 1
        ok_uses = 0
        for node in ast.walk(cls):
            if isinstance(node, ast.Subscript) and isinstance(node.value, ast.Attribute) and node.value.attr == attr:
                if "app_id" in ast.unparse(node.slice):
                    ok_uses += 1
            elif isinstance(node, ast.Compare) and any(isinstance(c, ast.Attribute) and c.attr == attr for c in node.comparators):
                if "app_id" in ast.unparse(node.left):
                    ok_uses += 1
            elif isinstance(node, ast.Call) and isinstance(node.func, ast.Name) and node.func.id in ("dict", "list") and node.args and \
                    isinstance(node.args[0], ast.Attribute) and node.args[0].attr == attr:
                ok_uses += 1        # a copy of the whole registry (discovery of all apps: not an operation of one app)
        return uses > 0 and ok_uses == uses
    n_classes = 0
    for modname in COMPONENT_MODULES:
        if not ctx.src.has_module(modname):
            continue
        tree = ctx.src.module(modname).tree if hasattr(ctx.src.module(modname), "tree") else ast.parse(ctx.src.module(modname).text)
        for cls in [n for n in tree.body if isinstance(n, ast.ClassDef)]:
            n_classes += 1
            shared = []
            for st in cls.body:
                tgt, val = None, None
                if isinstance(st, ast.Assign) and len(st.targets) == 1 and isinstance(st.targets[0], ast.Name):
                    tgt, val = st.targets[0].id, st.value
                elif isinstance(st, ast.AnnAssign) and isinstance(st.target, ast.Name) and st.value is not None:
                    tgt, val = st.target.id, st.value
                if tgt and is_mutable(val) and not (tgt.isupper() or tgt.startswith("__")) and not keyed_by_app_id(cls, tgt):
                    shared.append(f"{tgt} (line {st.lineno})")
            ob(f"{modname}:{cls.name}:no-mutable-container-bound-at-class-level", not shared,
               detail="class-level mutable attribute(s) shared by all apps of the process: " + ", ".join(shared))
    ob("component-classes-scanned", n_classes >= 15, f"{n_classes} classes")
    return out


def shared_file_isolation(ctx: RunCtx) -> BoundedResult:
    import hashlib
    import tempfile
    from pynenc.invocation.status import InvocationStatus
    from .realapp import new_invocation, real_app
    thorough = ctx.tier == "thorough"
    ids = list(ADVERSARIAL)
    # ids that look like another app's storage prefix (the purge pattern of `victim`'s components)
    for victim in ("app_b", "app"):
        from pynenc.util.sqlite_utils import sanitize_table_prefix
        p = sanitize_table_prefix(victim)
        ids += [f"{p}__broker_zzz", f"{p}__orchestrator", f"{p}_", p, p.replace("_", "x", 1)]
    if not thorough:
        ids = ids[:10] + ids[-8:]
    pairs = [(a, b) for a, b in itertools.permutations(ids, 2)]
    if not thorough:
        pairs = [pq for k, pq in enumerate(pairs) if k % 5 == 0 or "__" in pq[0] or "__" in pq[1]]
    res = BoundedResult("shared_file_isolation", f"{len(pairs)} ordered pairs of adversarial app ids (punctuation/case variants, SQL metacharacters, "
                        "LIKE wildcards, ids shaped like another app's table prefix) on one SQLite file: register+queue in A, purge each component of B, read A back")
    n = 0
    tmp = tempfile.mkdtemp(prefix="pyvc_iso_")
    try:
        for a, b in pairs:
            n += 1
            db = os.path.join(tmp, f"shared_{n}.sqlite")
            try:
                with real_app("sqlite", app_id=a, db_path=db) as A, real_app("sqlite", app_id=b, db_path=db) as B:
                    inv = new_invocation(A)
                    A.state_backend.wait_for_all_async_operations()
                    new_invocation(B)
                    before = (A.broker.count_invocations(), A.orchestrator.count_invocations(), len(A.state_backend.get_history(inv.invocation_id)))
                    seen_by_b = B.orchestrator.count_invocations()
                    for comp in (B.broker, B.orchestrator, B.state_backend, B.trigger, B.client_data_store):
                        comp.purge()
                    after = (A.broker.count_invocations(), A.orchestrator.count_invocations(), len(A.state_backend.get_history(inv.invocation_id)))
                    st = A.orchestrator.get_invocation_status(inv.invocation_id)
                    if before != after or st != InvocationStatus.REGISTERED or seen_by_b != 1 or before != (1, 1, 1):
                        if len(res.failures) < 10:
                            res.failures.append({"what": f"app {a!r} changed when app {b!r} was purged / observed: (queue, invocations, history) {before} -> {after}, "
                                                         f"B sees {seen_by_b} invocations", "input": {"A": a, "B": b}, "finding_key": "purge-footprint"})
            except Exception as e:
                if len(res.failures) < 10:
                    res.failures.append({"what": f"apps {a!r}/{b!r}: {type(e).__name__}: {str(e)[:200]}", "input": {"A": a, "B": b}, "finding_key": "exception"})
    finally:
        import shutil
        shutil.rmtree(tmp, ignore_errors=True)
    res.cases = n
    res.distinct = n
    res.samples = [{"A": "app_b_2963c899__broker_zzz", "B": "app_b"}]
    return res


def replay_sanitize(ctx, ob):
    a = ob.get("extra", {}).get("args_py")
    if not a:
        return {"confirmed": False, "reason": "no concrete argument"}
    from pynenc.util.sqlite_utils import sanitize_table_prefix
    r = sanitize_table_prefix(a["app_id"])
    bad = not re.fullmatch(r"[A-Za-z_][A-Za-z0-9_]*", r)
    return {"confirmed": bad, "input": a, "observed": r}


def build(ctx: RunCtx) -> Prop:
    T = Types(ctx.src)
    reg = base_registry(ctx.src, T)
    verify = contracts(reg)
    return Prop(
        pid=PID, title="sanitize_table_prefix yields an SQL identifier = sanitised id + '_' + 8 hex of sha256(id) for every id string; equal prefixes need "
                       "equal hash and sanitised parts; SQL text is built from literals and own table names only; purge footprint checked on a shared file",
        level="proof", technique="contract-based deductive verification over z3/cvc5 strings (AST->SMT of sanitize_table_prefix) + SQL-text frame scan + bounded adversarial shared-file runs",
        registry=reg, verify=verify, lemmas=[lemmas, sql_frame_scan, state_lives_in_instances], bounded=[shared_file_isolation],
        replayers={"*sanitize_table_prefix*": replay_sanitize},
        assumptions=["re.sub(r'[^a-zA-Z0-9_]', '_', s): same length, result in [A-Za-z0-9_]*, identity on such strings (assumed contract, conformance-tested)",
                     "hashlib.sha256(...).hexdigest(): 64 lowercase hex digits, a function of the input; collisions of the first 8 digits are reported as 'modulo hash'",
                     "str.encode() is injective", "SQLite LIKE / identifier semantics only enter through the bounded stand-in"],
        trusted_base=["pyvc VC generator", "z3 5.1 sequence/regex theory", "cvc5 1.0.3 (--strings-exp)", "sqlite3"],
        not_decided="32-bit hash-prefix collisions (assumed away, reported); the purge footprint of delete_tables_with_prefix is enumerated, not proved.",
        min_obligations=8,
    )
