"""C18 — workflow operations replay deterministically and never mix between workflows."""
from __future__ import annotations

import itertools

import z3

from pyvc.contract import Case, Contract, Registry, Shape
from pyvc.prop import BoundedResult, Prop, RunCtx
from pyvc.types import BOOL, INT, REAL, STR, Atom, MapT, ObjT, Opt
from pyvc.values import NONE, OK, Val, mk_fresh

from .c18_store import generators_pure, mem_single_step, preempted_generators, preempted_workflow_data, replay_read_fault
from .common import Types, base_registry

PID = "C18"
WD = "pynenc.workflow.workflow_deterministic"
WC = "pynenc.workflow.workflow_context"
EXEC = Atom("Executor")
WF = Atom("WorkflowIdentity")
wf_of = z3.Function("executor_workflow", EXEC.sort(), WF.sort())
fresh_counters = z3.Function("executor_starts_at_position_zero", EXEC.sort(), z3.BoolSort())
COUNTERS = MapT(STR, INT)


def contracts(T: Types, reg: Registry):
    # ---- the per-executor position counters
    reg.add_shape(Shape("DeterministicExecutor", fields={"_operation_counters": COUNTERS}, cls=(WD, "DeterministicExecutor")))
    cnt = lambda c, m: z3.If(COUNTERS.opt.is_some(z3.Select(m, c.arg("operation"))), COUNTERS.opt.val(z3.Select(m, c.arg("operation"))), 0)
    seq = Contract(
        key=f"{WD}:DeterministicExecutor._get_next_sequence", shape="DeterministicExecutor", params={"operation": STR}, result=INT,
        frame=["_operation_counters"],
        cases=[Case("next", ensures=[
            ("n-th-request-of-an-operation-gets-sequence-number-n", lambda c: c.result == cnt(c, c.old("_operation_counters")) + 1),
            ("only-this-operation's-counter-advances-by-one", lambda c: c.f("_operation_counters") == z3.Store(
                c.old("_operation_counters"), c.arg("operation"), COUNTERS.opt.some(c.result))),
        ])], properties=[PID])
    reg.add(seq)

    # ---- which executor a task body gets: the one of the *current* execution
    OEXEC = Opt(EXEC)
    reg.add_shape(Shape("CurrentInvocation", fields={"workflow": WF, "_deterministic_executor": OEXEC}))
    reg.add_shape(Shape("TaskForWf", fields={"invocation": ObjT("CurrentInvocation"), "app": ObjT("AppForWf")}))
    reg.add_shape(Shape("AppForWf", fields={}))
    reg.add_shape(Shape("WorkflowContext", fields={"task": ObjT("TaskForWf"), "_deterministic": OEXEC}, cls=(WC, "WorkflowContext")))
    reg.shapes["WorkflowContext"].properties = ("deterministic",)

    def new_executor(eng, st, args, kwargs):
        e = mk_fresh(EXEC, "executor")
        st.assume(z3.And(wf_of(e.term) == args[0].term, fresh_counters(e.term)))
        st.ghost["$created"] = e
        return [(OK, st, e)]
    reg.add(Contract(key=f"{WC}:DeterministicExecutor.__init__", handler=new_executor, assumed=True,
                     note="DeterministicExecutor(workflow, app): a new executor of that workflow with all position counters at 0"))
    reg.add(Contract(key=f"{WD}:DeterministicExecutor.__init__", handler=new_executor, assumed=True))
    reg.class_shapes[f"{WC}:DeterministicExecutor"] = "__executor__"
    reg.class_shapes[f"{WD}:DeterministicExecutor"] = "__executor__"
    cur = "task.invocation."
    attached0 = lambda c: c.old(cur + "_deterministic_executor")
    det = Contract(
        key=f"{WC}:WorkflowContext.deterministic", shape="WorkflowContext", params={}, result=EXEC,
        frame=[cur + "_deterministic_executor", "_deterministic"],
        requires=[("an-executor-attached-to-an-execution-belongs-to-that-execution's-workflow",
                   lambda c: z3.Implies(OEXEC.is_some(c.f(cur + "_deterministic_executor")),
                                        wf_of(OEXEC.val(c.f(cur + "_deterministic_executor"))) == c.f(cur + "workflow")))],
        cases=[Case("executor-of-the-current-execution", ensures=[
            ("records-go-to-the-workflow-of-the-CURRENT-invocation", lambda c: wf_of(c.result) == c.f(cur + "workflow")),
            ("first-request-of-an-execution-starts-at-position-zero", lambda c: z3.Implies(OEXEC.is_none(attached0(c)), fresh_counters(c.result))),
            ("later-requests-of-the-same-execution-continue-with-the-same-executor", lambda c: z3.Implies(OEXEC.is_some(attached0(c)), c.result == OEXEC.val(attached0(c)))),
            ("the-executor-stays-attached-to-this-execution", lambda c: c.f(cur + "_deterministic_executor") == OEXEC.some(c.result)),
        ])], properties=[PID],
        note="the current invocation object is an arbitrary object: the same contract holds after the task's current invocation changes "
             "(another workflow, a retry, a recovery re-run), which is the environment step of the cache invariant")
    reg.add(det)
    reg.shapes["WorkflowContext"].auto_fields = True
    reg.ann_types = dict(getattr(reg, "ann_types", {}), InvocationId=Atom("InvocationId"), DeterministicExecutor=EXEC)
    reg.shapes["CurrentInvocation"].fields["invocation_id"] = Atom("InvocationId")
    sub = subtask_contract(T, reg)
    from .c18_store import sqlite_contracts
    return [seq, det, sub] + sqlite_contracts(reg)


def subtask_contract(T: Types, reg: Registry):
    """DeterministicExecutor.execute_task: launch-or-replay of a sub-task, keyed by the identity of the call that the body makes."""
    from pyvc.values import OK, Val, mk_fresh
    CALLID, INVID, ARGS, FUNC = Atom("CallId"), Atom("InvocationId"), Atom("CallArguments"), Atom("Func")
    OINV = Opt(INVID)
    SUBINV = Atom("SubInvocation")
    inv_id_of = z3.Function("invocation_id_of", SUBINV.sort(), INVID.sort())
    call_id_of = z3.Function("call_id_of_call", Atom("CallObj").sort(), CALLID.sort())
    stored_inv = z3.Function("stored_invocation", INVID.sort(), SUBINV.sort())
    WD_T = MapT(STR, INVID)
    reg.add_shape(Shape("WfStateBackend", fields={"wd": WD_T}, abstract_methods={
        "get_workflow_data": "WfStateBackend.get", "set_workflow_data": "WfStateBackend.set", "get_invocation": "WfStateBackend.get_invocation"}))
    reg.add(Contract(key="WfStateBackend.get", shape="WfStateBackend", params={"workflow_identity": WF, "key": STR, "default": OINV}, result=OINV, frame=[],
                     defaults={"default": lambda eng, st: NONE}, assumed=True, check_invariants=False,
                     cases=[Case("read", ensures=[("stored-or-none", lambda c: c.result == z3.If(
                         WD_T.opt.is_some(z3.Select(c.old("wd"), c.arg("key"))), OINV.some(WD_T.opt.val(z3.Select(c.old("wd"), c.arg("key")))), OINV.none()))])],
                     note="workflow data of this workflow (the workflow identity is the executor's: C18 kernel)"))
    reg.contracts["WfStateBackend.get"].event = True
    reg.add(Contract(key="WfStateBackend.set", shape="WfStateBackend", params={"workflow_identity": WF, "key": STR, "value": INVID}, frame=["wd"],
                     assumed=True, check_invariants=False,
                     cases=[Case("written", ensures=[("one-entry", lambda c: c.f("wd") == z3.Store(c.old("wd"), c.arg("key"), WD_T.opt.some(c.arg("value"))))])]))
    reg.add(Contract(key="WfStateBackend.get_invocation", shape="WfStateBackend", params={"invocation_id": INVID}, result=SUBINV, frame=[], assumed=True,
                     check_invariants=False, effect_events=False,
                     cases=[Case("stored", ensures=[("the-stored-invocation-of-that-id", lambda c: z3.And(c.result == stored_inv(c.arg("invocation_id")),
                                                                                                      inv_id_of(c.result) == c.arg("invocation_id")))])]))
    reg.add_shape(Shape("WfApp", fields={"state_backend": ObjT("WfStateBackend")}))
    reg.add_shape(Shape("ExecutorObj", fields={"app": ObjT("WfApp"), "workflow_identity": WF, "_operation_counters": COUNTERS},
                        cls=(WD, "DeterministicExecutor")))
    reg.add_shape(Shape("SubTask", fields={"func": FUNC}))
    reg.value_attrs = getattr(reg, "value_attrs", {})
    reg.value_attrs[("CallObj", "call_id")] = lambda eng, st, base: Val(call_id_of(base.term), CALLID)
    reg.value_attrs[("SubInvocation", "invocation_id")] = lambda eng, st, base: Val(inv_id_of(base.term), INVID)
    inv_call = z3.Function("call_of_invocation", SUBINV.sort(), Atom("CallObj").sort())
    reg.value_attrs[("SubInvocation", "call")] = lambda eng, st, base: Val(inv_call(base.term), Atom("CallObj"))
    the_call = z3.Function("call_made_by_the_body", Atom("SubTaskRef").sort(), Atom("VarArgs").sort(), Atom("KwArgs").sort(), Atom("CallObj").sort())

    def h_from_call(eng, st, recv, args, kwargs):
        return [(OK, st, mk_fresh(ARGS, "arguments"))]
    reg.add(Contract(key=f"{WD}:Arguments.from_call", handler=h_from_call, assumed=True, note="binds *args/**kwargs to the task's signature"))
    reg.add(Contract(key="pynenc.arguments:Arguments.from_call", handler=h_from_call, assumed=True))

    def h_call(eng, st, recv, args, kwargs):
        # Call(task=task, arguments=arguments): the call the body makes; its identity is a function of task and arguments
        a = st.ghost["$args"]
        c = Val(the_call(z3.Const("the_task", Atom("SubTaskRef").sort()), a["args"].term, a["kwargs"].term), Atom("CallObj"))
        return [(OK, st, c)]
    for key in (f"{WD}:Call", "pynenc.call:Call"):
        reg.add(Contract(key=key, handler=h_call, assumed=True, note="Call(task, Arguments.from_call(task.func, *args, **kwargs)): determined by task and arguments"))
    launched = []

    def h_launch(eng, st, recv, args, kwargs):
        inv = mk_fresh(SUBINV, "launched")
        st.events.append({"ev": "launch", "invocation": inv})
        return [(OK, st, inv)]
    reg.add(Contract(key="SubTask.__call__", handler=h_launch, assumed=True,
                     note="task(*args, **kwargs): routes the call; with registration concurrency control the returned invocation may be an existing one "
                          "whose own call differs from the call made here (ReusedInvocation)"))
    reg.shapes["SubTask"].callable = "SubTask.__call__"
    key_of = lambda call_term: z3.Concat(z3.StringVal("task_invocation:"), z3.Function("format_CallId", CALLID.sort(), z3.StringSort())(call_id_of(call_term)))

    def body_call(c):
        a = c.st.ghost["$args"]
        return the_call(z3.Const("the_task", Atom("SubTaskRef").sort()), a["args"].term, a["kwargs"].term)
    wd, wd0 = (lambda c: c.f("app.state_backend.wd")), (lambda c: c.old("app.state_backend.wd"))
    k = lambda c: key_of(body_call(c))
    recorded = lambda c: WD_T.opt.is_some(z3.Select(wd0(c), k(c)))

    def launches(c):
        return [e for e in c.st.events if isinstance(e, dict) and e.get("ev") == "launch"]
    ct = reg.add(Contract(
        key=f"{WD}:DeterministicExecutor.execute_task", shape="ExecutorObj", params={"task": ObjT("SubTask")}, result=SUBINV,
        frame=["app.state_backend.wd"],
        cases=[
            Case("replayed", when=recorded, ensures=[
                ("C18:a-recorded-sub-task-is-not-launched-again", lambda c: z3.BoolVal(not launches(c))),
                ("C18:the-recorded-invocation-is-returned", lambda c: c.result == stored_inv(WD_T.opt.val(z3.Select(wd0(c), k(c))))),
                ("records-untouched", lambda c: wd(c) == wd0(c))]),
            Case("launched-and-recorded", when=lambda c: z3.Not(recorded(c)), ensures=[
                ("exactly-one-launch", lambda c: z3.BoolVal(len(launches(c)) == 1)),
                ("C18:the-launched-invocation-is-recorded-under-the-key-of-the-call-the-body-made(the key a replay will look up)",
                 lambda c: wd(c) == z3.Store(wd0(c), k(c), WD_T.opt.some(inv_id_of(c.result))) if launches(c) else z3.BoolVal(False)),
                ("the-launched-invocation-is-returned", lambda c: c.result == launches(c)[0]["invocation"].term if launches(c) else z3.BoolVal(False))]),
        ], properties=[PID],
        note="*args/**kwargs are opaque values handed through; the lookup key is 'task_invocation:' + the call id of the call built from them"))
    ct.opaque_varargs = True
    return ct



def replay_and_isolation(ctx: RunCtx) -> BoundedResult:
    """Bounded stand-in on the real code, both state backends: record-or-replay of random / time / uuid / sub-task operations."""
    import threading
    from pynenc.workflow.workflow_deterministic import DeterministicExecutor
    from pynenc.workflow.workflow_identity import WorkflowIdentity
    from . import verif_tasks
    from .realapp import new_invocation, real_app
    thorough = ctx.tier == "thorough"
    res = BoundedResult("replay_and_isolation", "operation scripts over {random,time,uuid}^<=4: a fresh executor over the data left by a first execution returns the same "
                        "n-th values; two workflows never share records; the same task run for two workflows (and re-run) through the real thread runner")
    n = 0
    ops_ = ["random", "utc_now", "uuid"]
    for backend in ("mem", "sqlite"):
        with real_app(backend) as app:
            for length in range(1, 5 if thorough else 4):
                for script in itertools.product(ops_, repeat=length):
                    n += 1
                    inv_a, inv_b = new_invocation(app), new_invocation(app)
                    wa, wb = inv_a.workflow, inv_b.workflow
                    first = [getattr(DeterministicExecutor(wa, app), "random")() for _ in range(0)]
                    e1 = DeterministicExecutor(wa, app)
                    v1 = [getattr(e1, op)() for op in script]
                    eb = DeterministicExecutor(wb, app)
                    vb = [getattr(eb, op)() for op in script]
                    e2 = DeterministicExecutor(wa, app)          # re-execution (retry / recovery / another process image)
                    v2 = [getattr(e2, op)() for op in script]
                    if v1 != v2:
                        res.failures.append({"what": f"{backend}: re-execution of {script} returns different values", "finding_key": f"{backend}:replay"})
                    if "uuid" in script or "random" in script:
                        if [x for x, op in zip(v1, script) if op != "utc_now"] == [x for x, op in zip(vb, script) if op != "utc_now"]:
                            res.failures.append({"what": f"{backend}: two workflows produce identical random/uuid streams for {script}", "finding_key": f"{backend}:isolation"})
        # the same task for two workflows, then a re-run, in one runner process
        with real_app(backend) as app:
            from pynenc.runner.thread_runner import ThreadRunner
            t = app.task(verif_tasks.wf_randoms)
            verif_tasks.WF_TASK[0] = t
            app.runner = ThreadRunner(app)
            app.conf.runner_loop_sleep_time_sec = 0.01
            th = threading.Thread(target=app.runner.run, daemon=True)
            th.start()
            try:
                invs = [t(3), t(3)]
                outs = []
                for inv in invs:
                    box = {}
                    w = threading.Thread(target=lambda inv=inv, box=box: box.setdefault("v", inv.result), daemon=True)
                    w.start()
                    w.join(20)
                    outs.append(box.get("v"))
                n += 1
                for inv, out in zip(invs, outs):
                    stored = [app.state_backend.get_workflow_data(inv.workflow, f"random:{k}") for k in (1, 2, 3)]
                    extra = app.state_backend.get_workflow_data(inv.workflow, "random:4")
                    if out is None or stored != out or extra is not None:
                        res.failures.append({"what": f"{backend}: values of workflow {inv.workflow.workflow_id[:8]} are {out}, recorded under its id: {stored}, "
                                                     f"a 4th record exists: {extra is not None} (records of two workflows mixed)", "finding_key": f"{backend}:mixed"})
            finally:
                app.runner.stop_runner_loop()
                th.join(10)
        # a retry executed in the same process replays the first execution's values and records nothing new
        with real_app(backend) as app:
            from pynenc.runner.thread_runner import ThreadRunner
            t = app.task(max_retries=2, retry_for=(verif_tasks.Retriable,))(verif_tasks.wf_randoms_retry)
            verif_tasks.WF_TASK[0] = t
            verif_tasks.RETRY_ONCE[0] = True
            app.runner = ThreadRunner(app)
            app.conf.runner_loop_sleep_time_sec = 0.01
            th = threading.Thread(target=app.runner.run, daemon=True)
            th.start()
            try:
                inv = t(3)
                box = {}
                w = threading.Thread(target=lambda: box.setdefault("v", inv.result), daemon=True)
                w.start()
                w.join(20)
                n += 1
                out = box.get("v")
                stored = [app.state_backend.get_workflow_data(inv.workflow, f"random:{k}") for k in (1, 2, 3)]
                extra = app.state_backend.get_workflow_data(inv.workflow, "random:4")
                if out is None or stored != out or extra is not None:
                    res.failures.append({"what": f"{backend}: retried execution returned {out}; records 1..3 are {stored}; a 4th record exists: {extra is not None} "
                                                 f"(the retry continued at the old positions instead of replaying)", "finding_key": f"{backend}:retry-replay"})
            finally:
                app.runner.stop_runner_loop()
                th.join(10)
    res.failures = res.failures[:10]
    res.cases = n
    res.distinct = n
    res.samples = [["random", "utc_now", "uuid", "random"]]
    return res


def build(ctx: RunCtx) -> Prop:
    T = Types(ctx.src)
    reg = base_registry(ctx.src, T)
    verify = contracts(T, reg)
    return Prop(
        pid=PID, title="sequence numbers 1,2,3.. per operation and executor; the executor a task body gets belongs to the workflow of the CURRENT invocation, "
                       "starts at position 0 for a new execution and is reused within one execution (cache invariant under a change of the current invocation)",
        level="other", technique="contract-based deductive verification of the position counter, of the executor cache invariant and of the SQLite record store glue under read/commit faults (AST->z3 VCs) + ownership scan of the in-memory record store + bounded line-level preemption of the in-memory store + bounded record-or-replay runs on both backends and through the real thread runner",
        registry=reg, verify=verify, lemmas=[mem_single_step, generators_pure], replayers={"*SQLiteStateBackend.get_workflow_data*": replay_read_fault}, bounded=[replay_and_isolation, preempted_workflow_data, preempted_generators],
        assumptions=["DeterministicExecutor(workflow, app) creates an executor of that workflow with empty counters (constructor read, not proved)",
                     "task.invocation is the invocation object of the current execution in the current thread (context module)",
                     "record-or-replay of _deterministic_operation / execute_task handles dynamically typed values and is covered by the bounded stand-in only"],
        trusted_base=["pyvc VC generator", "z3 5.1"],
        not_decided="record-or-replay itself (dynamically typed workflow data) is bounded, not proved; concurrent threads beyond the per-invocation attachment.",
        min_obligations=30,
    )
