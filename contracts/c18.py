"""C18 — workflow operations replay deterministically and never mix between workflows."""
from __future__ import annotations

import itertools

import z3

from pyvc.contract import Case, Contract, Registry, Shape
from pyvc.prop import BoundedResult, Prop, RunCtx
from pyvc.types import BOOL, INT, REAL, STR, Atom, MapT, ObjT, Opt
from pyvc.values import NONE, OK, Val, mk_fresh

from .common import Types, base_registry

PID = "C18"
WD = "pynenc.workflow.workflow_deterministic"
WC = "pynenc.workflow.workflow_context"
EXEC = Atom("Executor")
WF = Atom("WorkflowIdentity")
wf_of = z3.Function("executor_workflow", EXEC.sort(), WF.sort())
fresh_counters = z3.Function("executor_starts_at_position_zero", EXEC.sort(), z3.BoolSort())
COUNTERS = MapT(STR, INT)


def contracts(T: Types, reg: Registry):
    # ---- the per-executor position counters
    reg.add_shape(Shape("DeterministicExecutor", fields={"_operation_counters": COUNTERS}, cls=(WD, "DeterministicExecutor")))
    cnt = lambda c, m: z3.If(COUNTERS.opt.is_some(z3.Select(m, c.arg("operation"))), COUNTERS.opt.val(z3.Select(m, c.arg("operation"))), 0)
    seq = Contract(
        key=f"{WD}:DeterministicExecutor._get_next_sequence", shape="DeterministicExecutor", params={"operation": STR}, result=INT,
        frame=["_operation_counters"],
        cases=[Case("next", ensures=[
            ("n-th-request-of-an-operation-gets-sequence-number-n", lambda c: c.result == cnt(c, c.old("_operation_counters")) + 1),
            ("only-this-operation's-counter-advances-by-one", lambda c: c.f("_operation_counters") == z3.Store(
                c.old("_operation_counters"), c.arg("operation"), COUNTERS.opt.some(c.result))),
        ])], properties=[PID])
    reg.add(seq)

    # ---- which executor a task body gets: the one of the *current* execution
    OEXEC = Opt(EXEC)
    reg.add_shape(Shape("CurrentInvocation", fields={"workflow": WF, "_deterministic_executor": OEXEC}))
    reg.add_shape(Shape("TaskForWf", fields={"invocation": ObjT("CurrentInvocation"), "app": ObjT("AppForWf")}))
    reg.add_shape(Shape("AppForWf", fields={}))
    reg.add_shape(Shape("WorkflowContext", fields={"task": ObjT("TaskForWf"), "_deterministic": OEXEC}, cls=(WC, "WorkflowContext")))
    reg.shapes["WorkflowContext"].properties = ("deterministic",)

    def new_executor(eng, st, args, kwargs):
        e = mk_fresh(EXEC, "executor")
        st.assume(z3.And(wf_of(e.term) == args[0].term, fresh_counters(e.term)))
        st.ghost["$created"] = e
        return [(OK, st, e)]
    reg.add(Contract(key=f"{WC}:DeterministicExecutor.__init__", handler=new_executor, assumed=True,
                     note="DeterministicExecutor(workflow, app): a new executor of that workflow with all position counters at 0"))
    reg.add(Contract(key=f"{WD}:DeterministicExecutor.__init__", handler=new_executor, assumed=True))
    reg.class_shapes[f"{WC}:DeterministicExecutor"] = "__executor__"
    reg.class_shapes[f"{WD}:DeterministicExecutor"] = "__executor__"
    cur = "task.invocation."
    attached0 = lambda c: c.old(cur + "_deterministic_executor")
    det = Contract(
        key=f"{WC}:WorkflowContext.deterministic", shape="WorkflowContext", params={}, result=EXEC,
        frame=[cur + "_deterministic_executor", "_deterministic"],
        requires=[("an-executor-attached-to-an-execution-belongs-to-that-execution's-workflow",
                   lambda c: z3.Implies(OEXEC.is_some(c.f(cur + "_deterministic_executor")),
                                        wf_of(OEXEC.val(c.f(cur + "_deterministic_executor"))) == c.f(cur + "workflow")))],
        cases=[Case("executor-of-the-current-execution", ensures=[
            ("records-go-to-the-workflow-of-the-CURRENT-invocation", lambda c: wf_of(c.result) == c.f(cur + "workflow")),
            ("first-request-of-an-execution-starts-at-position-zero", lambda c: z3.Implies(OEXEC.is_none(attached0(c)), fresh_counters(c.result))),
            ("later-requests-of-the-same-execution-continue-with-the-same-executor", lambda c: z3.Implies(OEXEC.is_some(attached0(c)), c.result == OEXEC.val(attached0(c)))),
            ("the-executor-stays-attached-to-this-execution", lambda c: c.f(cur + "_deterministic_executor") == OEXEC.some(c.result)),
        ])], properties=[PID],
        note="the current invocation object is an arbitrary object: the same contract holds after the task's current invocation changes "
             "(another workflow, a retry, a recovery re-run), which is the environment step of the cache invariant")
    reg.add(det)
    return [seq, det]


def replay_and_isolation(ctx: RunCtx) -> BoundedResult:
    """Bounded stand-in on the real code, both state backends: record-or-replay of random / time / uuid / sub-task operations."""
    import threading
    from pynenc.workflow.workflow_deterministic import DeterministicExecutor
    from pynenc.workflow.workflow_identity import WorkflowIdentity
    from . import verif_tasks
    from .realapp import new_invocation, real_app
    thorough = ctx.tier == "thorough"
    res = BoundedResult("replay_and_isolation", "operation scripts over {random,time,uuid}^<=4: a fresh executor over the data left by a first execution returns the same "
                        "n-th values; two workflows never share records; the same task run for two workflows (and re-run) through the real thread runner")
    n = 0
    ops_ = ["random", "utc_now", "uuid"]
    for backend in ("mem", "sqlite"):
        with real_app(backend) as app:
            for length in range(1, 5 if thorough else 4):
                for script in itertools.product(ops_, repeat=length):
                    n += 1
                    inv_a, inv_b = new_invocation(app), new_invocation(app)
                    wa, wb = inv_a.workflow, inv_b.workflow
                    first = [getattr(DeterministicExecutor(wa, app), "random")() for _ in range(0)]
                    e1 = DeterministicExecutor(wa, app)
                    v1 = [getattr(e1, op)() for op in script]
                    eb = DeterministicExecutor(wb, app)
                    vb = [getattr(eb, op)() for op in script]
                    e2 = DeterministicExecutor(wa, app)          # re-execution (retry / recovery / another process image)
                    v2 = [getattr(e2, op)() for op in script]
                    if v1 != v2:
                        res.failures.append({"what": f"{backend}: re-execution of {script} returns different values", "finding_key": f"{backend}:replay"})
                    if "uuid" in script or "random" in script:
                        if [x for x, op in zip(v1, script) if op != "utc_now"] == [x for x, op in zip(vb, script) if op != "utc_now"]:
                            res.failures.append({"what": f"{backend}: two workflows produce identical random/uuid streams for {script}", "finding_key": f"{backend}:isolation"})
        # the same task for two workflows, then a re-run, in one runner process
        with real_app(backend) as app:
            from pynenc.runner.thread_runner import ThreadRunner
            t = app.task(verif_tasks.wf_randoms)
            verif_tasks.WF_TASK[0] = t
            app.runner = ThreadRunner(app)
            app.conf.runner_loop_sleep_time_sec = 0.01
            th = threading.Thread(target=app.runner.run, daemon=True)
            th.start()
            try:
                invs = [t(3), t(3)]
                outs = []
                for inv in invs:
                    box = {}
                    w = threading.Thread(target=lambda inv=inv, box=box: box.setdefault("v", inv.result), daemon=True)
                    w.start()
                    w.join(20)
                    outs.append(box.get("v"))
                n += 1
                for inv, out in zip(invs, outs):
                    stored = [app.state_backend.get_workflow_data(inv.workflow, f"random:{k}") for k in (1, 2, 3)]
                    extra = app.state_backend.get_workflow_data(inv.workflow, "random:4")
                    if out is None or stored != out or extra is not None:
                        res.failures.append({"what": f"{backend}: values of workflow {inv.workflow.workflow_id[:8]} are {out}, recorded under its id: {stored}, "
                                                     f"a 4th record exists: {extra is not None} (records of two workflows mixed)", "finding_key": f"{backend}:mixed"})
            finally:
                app.runner.stop_runner_loop()
                th.join(10)
    res.failures = res.failures[:10]
    res.cases = n
    res.distinct = n
    res.samples = [["random", "utc_now", "uuid", "random"]]
    return res


def build(ctx: RunCtx) -> Prop:
    T = Types(ctx.src)
    reg = base_registry(ctx.src, T)
    verify = contracts(T, reg)
    return Prop(
        pid=PID, title="sequence numbers 1,2,3.. per operation and executor; the executor a task body gets belongs to the workflow of the CURRENT invocation, "
                       "starts at position 0 for a new execution and is reused within one execution (cache invariant under a change of the current invocation)",
        level="other", technique="contract-based deductive verification of the position counter and of the executor cache invariant (AST->z3 VCs) + bounded record-or-replay runs on both backends and through the real thread runner",
        registry=reg, verify=verify, bounded=[replay_and_isolation],
        assumptions=["DeterministicExecutor(workflow, app) creates an executor of that workflow with empty counters (constructor read, not proved)",
                     "task.invocation is the invocation object of the current execution in the current thread (context module)",
                     "record-or-replay of _deterministic_operation / execute_task handles dynamically typed values and is covered by the bounded stand-in only"],
        trusted_base=["pyvc VC generator", "z3 5.1"],
        not_decided="record-or-replay itself (dynamically typed workflow data) is bounded, not proved; concurrent threads beyond the per-invocation attachment.",
        min_obligations=8,
    )
