"""C18, the record store under the executor: workflow data of the two state backends.

SQLite (glue contracts over the SQL trace model, with read and commit faults): `get_workflow_data` answers "nothing recorded" only when
the store itself said so (one SELECT on the workflow-data table keyed by this workflow and this key returned no row); a read that fails
raises - a replay must never mistake a failed read for a missing record, or it records the operation a second time.  `set_workflow_data`
is one committed upsert of (workflow, key, value).

In-memory: the table is shared by the task threads of a runner without a lock, so every operation has to be a single dictionary step on
`_workflow_data` and may keep nothing else in the object (ownership obligation over the real AST), and a bounded stand-in runs the real
methods for two workflows with the second workflow's operation executed at every line boundary of the first one's."""
from __future__ import annotations

import ast

import z3

from pyvc import sqlmodel
from pyvc.contract import Case, Contract, Registry, Shape
from pyvc.prop import BoundedResult, RunCtx
from pyvc.solve import Obligation
from pyvc.sqlmodel import all_events, sql_events
from pyvc.types import STR, Atom, ObjT, Opt
from pyvc.values import NONE

PID = "C18"
SS = "pynenc.state_backend.sqlite_state_backend"
MS = "pynenc.state_backend.mem_state_backend"
VALUE = Atom("WfValue")
WFID = Atom("InvocationId")
deser = z3.Function("client_data_store_deserialize", z3.StringSort(), VALUE.sort())
ser = z3.Function("client_data_store_serialize", VALUE.sort(), z3.StringSort())
T_ = z3.BoolVal


def sqlite_contracts(reg: Registry):
    sqlmodel.install(reg, {"data_value": (STR, None), "workflow_id": (WFID, None), "data_key": (STR, None)})
    reg.sql_commit_faults = True
    reg.sql_read_faults = True
    if "Tables" not in reg.shapes:
        reg.add_shape(Shape("Tables", fields={}))
    reg.add_shape(Shape("WfCDS", fields={}, abstract_methods={"deserialize": "WfCDS.deserialize", "serialize": "WfCDS.serialize"}))
    reg.add(Contract(key="WfCDS.deserialize", shape="WfCDS", params={"value": STR}, result=VALUE, frame=[], assumed=True, check_invariants=False, effect_events=False,
                     cases=[Case("value", ensures=[("deserialize", lambda c: c.result == deser(c.arg("value")))])], note="value round trip is C15"))
    reg.add(Contract(key="WfCDS.serialize", shape="WfCDS", params={"value": VALUE}, result=STR, frame=[], assumed=True, check_invariants=False, effect_events=False,
                     cases=[Case("text", ensures=[("serialize", lambda c: c.result == ser(c.arg("value")))])]))
    reg.add_shape(Shape("WfSqlApp", fields={"client_data_store": ObjT("WfCDS")}))
    reg.add_shape(Shape("WfIdentity", fields={"workflow_id": WFID}))
    reg.add_shape(Shape("SQLiteWorkflowData", fields={"sqlite_db_path": STR, "tables": ObjT("Tables"), "app": ObjT("WfSqlApp")}, cls=(SS, "SQLiteStateBackend")))
    reg.shapes["SQLiteWorkflowData"].auto_fields = True
    OV = Opt(VALUE)
    table = "{self.tables.WORKFLOW_DATA}"
    wfid = lambda c: c.eng.heap_read(c.st, c.argv("workflow_identity"), "workflow_id").term

    def selects(c):
        return [e for e in sql_events(c.st) if e["kind"] == "SELECT"]

    def keyed(c, e):
        if not (e["table"] == table and len(e["params"]) == 2 and e["info"].get("where") == ["workflow_id", "data_key"]):
            return T_(False)
        return z3.And(e["params"][0].term == wfid(c), e["params"][1].term == c.arg("key"))

    def answered(c):
        """the one keyed SELECT of this call and the row it returned (None: the store said 'no such record')"""
        ss = selects(c)
        if len(ss) != 1 or "row" not in ss[0]:
            return None
        return ss[0]

    def no_writes(c):
        return T_(not [e for e in sql_events(c.st) if e["kind"] in ("INSERT", "UPDATE", "DELETE", "OTHER")])
    get = Contract(
        key=f"{SS}:SQLiteStateBackend.get_workflow_data", shape="SQLiteWorkflowData",
        params={"workflow_identity": ObjT("WfIdentity"), "key": STR, "default": OV}, result=OV, frame=[],
        defaults={"default": lambda eng, st: NONE},
        cases=[
            Case("answered", ensures=[
                ("C18:one-SELECT-on-the-workflow-data-table-keyed-by-this-workflow-and-this-key", lambda c: T_(False) if answered(c) is None else keyed(c, answered(c))),
                ("C18:'nothing recorded'-is-answered-only-when-the-store-returned-no-row(a failed read is not a missing record)",
                 lambda c: T_(False) if answered(c) is None else (c.result == c.arg("default") if answered(c)["row"] is None else
                                                                  c.result == OV.some(deser(answered(c)["row"]["data_value"].term)))),
                ("reads-only", no_writes)]),
            Case("read-fault", raises="OperationalError", ensures=[("reads-only", no_writes)]),
        ], properties=[PID])

    def one_upsert(c):
        ws = [e for e in sql_events(c.st) if e["kind"] in ("INSERT", "UPDATE", "DELETE", "OTHER")]
        if len(ws) != 1 or ws[0]["kind"] != "INSERT" or ws[0]["table"] != table or len(ws[0]["params"]) != 3:
            return T_(False)
        text = " ".join(ws[0]["info"]["text"].upper().split())
        evs = all_events(c.st)
        iw = max(i for i, e in enumerate(evs) if e.get("ev") == "sql" and e["kind"] == "INSERT")
        committed = any(e.get("ev") == "commit" for e in evs[iw:])
        return z3.And(T_((" OR REPLACE " in " " + text + " " or "DO UPDATE" in text) and committed and ws[0]["info"]["columns"][:3] == ["workflow_id", "data_key", "data_value"]),
                      ws[0]["params"][0].term == wfid(c), ws[0]["params"][1].term == c.arg("key"), ws[0]["params"][2].term == ser(c.arg("value")))
    put = Contract(
        key=f"{SS}:SQLiteStateBackend.set_workflow_data", shape="SQLiteWorkflowData",
        params={"workflow_identity": ObjT("WfIdentity"), "key": STR, "value": VALUE}, frame=[],
        cases=[Case("recorded", ensures=[("C18:one-committed-upsert-of-(this workflow, key, value)-and-nothing-else-written", one_upsert)]),
               Case("storage-fault", raises="OperationalError")], properties=[PID])
    for ct in (get, put):
        reg.add(ct)
    return [get, put]


MEM_METHODS = ("get_workflow_data", "set_workflow_data")


def mem_single_step(ctx: RunCtx):
    """Ownership obligation: the in-memory workflow-data operations (and the self-helpers they call) keep no state but `_workflow_data`
    and change it by subscript stores only - no second attribute that would have to stay in step with it across a thread switch."""
    fi_cls = ctx.src.klass(MS, "MemStateBackend")
    methods = {n.name: n for n in fi_cls.body if isinstance(n, (ast.FunctionDef, ast.AsyncFunctionDef))}
    todo, seen, bad, n_acc = list(MEM_METHODS), set(), [], 0
    while todo:
        m = todo.pop()
        if m in seen or m not in methods:
            continue
        seen.add(m)
        fn = methods[m]
        for node in ast.walk(fn):
            if isinstance(node, ast.Attribute) and isinstance(node.value, ast.Name) and node.value.id == "self":
                if node.attr in methods:
                    todo.append(node.attr)
                elif node.attr == "_workflow_data":
                    n_acc += 1
                elif node.attr not in ("app", "logger"):
                    if isinstance(node.ctx, (ast.Store, ast.Del)):
                        bad.append(f"{m} line {node.lineno}: assigns self.{node.attr} (a second attribute that has to stay in step with _workflow_data across a thread switch)")
            if isinstance(node, (ast.Global, ast.Nonlocal)):
                bad.append(f"{m} line {node.lineno}: global/nonlocal state")
            if isinstance(node, ast.Call) and isinstance(node.func, ast.Attribute) and isinstance(node.func.value, ast.Attribute) and \
                    isinstance(node.func.value.value, ast.Name) and node.func.value.value.id == "self" and node.func.value.attr not in ("_workflow_data", "app", "logger") and \
                    node.func.attr in ("add", "discard", "remove", "pop", "append", "clear", "update", "setdefault", "extend", "insert", "popitem"):
                bad.append(f"{m} line {node.lineno}: edits self.{node.func.value.attr} in place")
            if isinstance(node, (ast.Assign, ast.Delete)):
                for t in node.targets:
                    if isinstance(t, ast.Subscript):
                        root = t.value
                        while isinstance(root, ast.Subscript):
                            root = root.value
                        if isinstance(root, ast.Attribute) and isinstance(root.value, ast.Name) and root.value.id == "self" and root.attr not in ("_workflow_data",):
                            bad.append(f"{m} line {node.lineno}: stores into self.{root.attr}")
    missing = [m for m in MEM_METHODS if m not in methods]
    ok = not bad and not missing and n_acc >= 2
    o = Obligation(name=f"{PID}/ownership/MemStateBackend.workflow-data/each-operation-is-one-step-on-_workflow_data-and-keeps-no-other-state",
                   kind="perm", pc=[], goal=z3.BoolVal(ok), function=f"{MS}:MemStateBackend.get_workflow_data")
    o.status, o.backend, o.detail = ("discharged" if ok else "failed"), "ast-scan", " | ".join(bad + [f"missing method {m}" for m in missing])[:500]
    o.extra = {"methods_scanned": sorted(seen)}
    return [o]


def preempted_workflow_data(ctx: RunCtx) -> BoundedResult:
    """Real MemStateBackend: workflow A's get/set is interrupted at every line boundary inside the backend, workflow B's complete operation
    runs there (what a thread switch does), A resumes; afterwards each workflow must read exactly what the specification map holds for it."""
    import sys
    from .realapp import new_invocation, real_app
    res = BoundedResult("preempted_workflow_data", "real MemStateBackend get/set_workflow_data for two workflows: operation of A in {get, set} x a complete operation of B in "
                        "{get, set} executed at line boundary k of A's operation inside the backend module (every k) x 3 follow-up operations; every read compared with a "
                        "specification map (workflow, key) -> value")
    n = 0
    import itertools
    with real_app("mem") as probe:
        backend_file = sys.modules[type(probe.state_backend).__module__].__file__
    for op_a, op_b in itertools.product(("get", "set"), repeat=2):
        for warm in (False, True):
            k = 0
            while True:
                k += 1
                n += 1
                with real_app("mem") as app:
                    sb = app.state_backend
                    A, B = new_invocation(app).workflow, new_invocation(app).workflow
                    spec = {}

                    def do(wf, name, op, key="random:1", val=None):
                        if op == "set":
                            sb.set_workflow_data(wf, key, val)
                            spec[(name, key)] = val
                            return None
                        return sb.get_workflow_data(wf, key, "<none>")
                    if warm:                     # both workflows already have records (a replay), B was the last one served
                        do(A, "A", "set", val="a0")
                        do(B, "B", "set", val="b0")
                    lines = [0]
                    fired = [False]

                    def tracer(frame, event, arg):
                        if frame.f_code.co_filename != backend_file:
                            return None

                        def local(frame, event, arg):
                            if event == "line" and not fired[0]:
                                lines[0] += 1
                                if lines[0] == k:
                                    fired[0] = True
                                    sys.settrace(None)
                                    try:
                                        do(B, "B", op_b, val="b1")
                                    finally:
                                        sys.settrace(tracer)
                            return local
                        return local
                    sys.settrace(tracer)
                    try:
                        got_a = do(A, "A", op_a, val="a1")
                    finally:
                        sys.settrace(None)
                    total = lines[0]
                    # follow-up: B records, A records, both read back
                    do(B, "B", "set", key="uuid:1", val="b2")
                    do(A, "A", "set", key="uuid:1", val="a2")
                    reads = {(w, key): do(wf, w, "get", key=key) for w, wf in (("A", A), ("B", B)) for key in ("random:1", "uuid:1")}
                    wrong = {kk: (v, spec.get(kk, "<none>")) for kk, v in reads.items() if v != spec.get(kk, "<none>")}
                    if op_a == "get" and not fired[0]:
                        pass
                    if wrong and len(res.failures) < 8:
                        res.failures.append({"what": f"A.{op_a} interrupted at backend line step {k} by B.{op_b} (records present before: {warm}): reads {wrong} (got, expected): "
                                                     "values or records of the two workflows mixed", "input": {"op_a": op_a, "op_b": op_b, "k": k, "warm": warm},
                                             "finding_key": "mem:mixed"})
                if k > total:
                    break
    res.cases = n
    res.distinct = n
    res.samples = [{"op_a": "get", "op_b": "get", "k": 2, "warm": True}]
    return res


def replay_read_fault(ctx, ob):
    """Real SQLite backend: a record exists, the SELECT of get_workflow_data fails once (database is locked).  The property needs the error
    to surface; answering the default instead makes a replay record the operation a second time."""
    import contextlib
    import sqlite3
    import sys
    from .realapp import new_invocation, real_app
    with real_app("sqlite") as app:
        sb = app.state_backend
        wf = new_invocation(app).workflow
        sb.set_workflow_data(wf, "random:1", 0.25)
        mod = sys.modules[type(sb).__module__]
        real_conn = mod.sqlite_conn

        class Proxy:
            def __init__(self, conn):
                self._c = conn

            def execute(self, sql, *a):
                if "SELECT" in sql.upper() and "data_value" in sql:
                    raise sqlite3.OperationalError("database is locked")
                return self._c.execute(sql, *a)

            def __getattr__(self, n):
                return getattr(self._c, n)

        @contextlib.contextmanager
        def faulty(path):
            with real_conn(path) as conn:
                yield Proxy(conn)
        mod.sqlite_conn = faulty
        try:
            try:
                got = ("returned", sb.get_workflow_data(wf, "random:1", "<default>"))
            except sqlite3.OperationalError as e:
                got = ("raised", str(e))
        finally:
            mod.sqlite_conn = real_conn
        after = sb.get_workflow_data(wf, "random:1", "<default>")
    return {"confirmed": got[0] == "returned" and got[1] == "<default>" and after == 0.25,
            "input": {"backend": "sqlite", "recorded": {"random:1": 0.25}, "fault": "sqlite3.OperationalError('database is locked') on the SELECT of get_workflow_data"},
            "observed": {"get_workflow_data_under_fault": list(got), "get_workflow_data_afterwards": after}}


# --------------------------------------------------------------------------- the value generators: functions of (workflow, position) only
GEN_METHODS = ("random", "uuid", "utc_now", "get_base_time", "_deterministic_operation", "_get_next_sequence")
PURE_MODULE_ATTRS = {"random": {"Random"}, "uuid": {"UUID"}, "hashlib": {"md5", "sha256", "sha1", "blake2b"},
                     "datetime": {"datetime", "timedelta", "UTC", "timezone"}, "time": set(), "secrets": set(), "os": set()}


def generators_pure(ctx: RunCtx):
    """Ownership/purity obligation over the real AST of DeterministicExecutor: the deterministic value operations read nothing but their
    executor (workflow identity, position counters), the recorded data and constants - no module-level object that several executors
    (threads, workflows) would share, and none of the standard library's hidden global generators."""
    WD = "pynenc.workflow.workflow_deterministic"
    mod = ctx.src.module(WD)
    shared = {}           # module-level names bound to instances / containers (anything that is not a def, class, import, constant or type alias)
    for node in mod.tree.body:
        targets = node.targets if isinstance(node, ast.Assign) else [node.target] if isinstance(node, ast.AnnAssign) and node.value is not None else []
        val = getattr(node, "value", None)
        for t in targets:
            if isinstance(t, ast.Name) and isinstance(val, (ast.Call, ast.Dict, ast.List, ast.Set, ast.ListComp, ast.DictComp, ast.SetComp)):
                f = val.func if isinstance(val, ast.Call) else None
                fname = f.id if isinstance(f, ast.Name) else f.attr if isinstance(f, ast.Attribute) else ""
                if fname in ("TypeVar", "getLogger", "NewType", "namedtuple", "datetime", "timedelta", "date", "time", "timezone", "compile", "Path", "frozenset", "tuple",
                             "Decimal", "Fraction", "UUID", "int", "float", "str", "bytes", "ParamSpec", "TypeAlias"):
                    continue          # immutable values and typing helpers: nothing a second executor could change
                shared[t.id] = node.lineno
    cls = ctx.src.klass(WD, "DeterministicExecutor")
    methods = {n.name: n for n in cls.body if isinstance(n, (ast.FunctionDef, ast.AsyncFunctionDef))}
    bad, scanned = [], []
    todo, seen = [m for m in GEN_METHODS if m in methods], set()
    while todo:
        m = todo.pop()
        if m in seen:
            continue
        seen.add(m)
        scanned.append(m)
        for node in ast.walk(methods[m]):
            if isinstance(node, ast.Name) and isinstance(node.ctx, ast.Load) and node.id in shared:
                bad.append(f"{m} line {node.lineno}: uses the module-level object {node.id} (defined line {shared[node.id]}), shared by every executor of the process")
            if isinstance(node, (ast.Global, ast.Nonlocal)) and not isinstance(node, ast.Nonlocal):
                bad.append(f"{m} line {node.lineno}: global statement")
            if isinstance(node, ast.Attribute) and isinstance(node.value, ast.Name):
                base, attr = node.value.id, node.attr
                if base in PURE_MODULE_ATTRS and base in mod.imports and mod.imports[base][1] is None and attr not in PURE_MODULE_ATTRS[base]:
                    bad.append(f"{m} line {node.lineno}: {base}.{attr} (process-wide state of the standard library, not a function of workflow and position)")
                if base == "self" and attr in methods and attr not in seen:
                    todo.append(attr)
    missing = [m for m in ("random", "uuid", "utc_now", "_deterministic_operation") if m not in methods]
    ok = not bad and not missing
    o = Obligation(name=f"{PID}/ownership/DeterministicExecutor.generators/values-are-functions-of-workflow-and-position-only(no-shared-generator-state)",
                   kind="perm", pc=[], goal=z3.BoolVal(ok), function=f"{WD}:DeterministicExecutor.random")
    o.status, o.backend, o.detail = ("discharged" if ok else "failed"), "ast-scan", " | ".join(sorted(set(bad)) + [f"missing method {m}" for m in missing])[:600]
    o.extra = {"methods_scanned": sorted(scanned), "module_level_objects": sorted(shared)}
    return [o]


def preempted_generators(ctx: RunCtx) -> BoundedResult:
    """Real DeterministicExecutor on the real in-memory backend: workflow A's random()/uuid()/utc_now() is interrupted at every line boundary
    inside workflow_deterministic.py and workflow B's complete operation runs there; A's and B's values must be the ones the same workflows get
    when they run alone in a fresh application (values are a function of workflow and position), and a later replay must return them again."""
    import sys
    from .realapp import new_invocation, real_app
    res = BoundedResult("preempted_generators", "real DeterministicExecutor: operation of workflow A in {random, uuid} x a complete operation of workflow B in {random, uuid, utc_now} "
                        "executed at line boundary k of A's operation inside workflow_deterministic.py (every k); A's and B's values compared with the same workflows run "
                        "alone on a fresh app, then replayed by fresh executors")
    import pynenc.workflow.workflow_deterministic as wd
    wd_file = wd.__file__
    n = 0
    for op_a in ("random", "uuid"):
        for op_b in ("random", "uuid", "utc_now"):
            k = 0
            while True:
                k += 1
                n += 1
                with real_app("mem") as app, real_app("mem") as ref:
                    A, B = new_invocation(app).workflow, new_invocation(app).workflow
                    ea, eb = wd.DeterministicExecutor(A, app), wd.DeterministicExecutor(B, app)
                    lines, fired, got_b = [0], [False], []

                    def tracer(frame, event, arg):
                        if frame.f_code.co_filename != wd_file:
                            return None

                        def local(frame, event, arg):
                            if event == "line" and not fired[0]:
                                lines[0] += 1
                                if lines[0] == k:
                                    fired[0] = True
                                    sys.settrace(None)
                                    try:
                                        got_b.append(getattr(eb, op_b)())
                                    finally:
                                        sys.settrace(tracer)
                            return local
                        return local
                    sys.settrace(tracer)
                    try:
                        got_a = [getattr(ea, op_a)()]
                    finally:
                        sys.settrace(None)
                    total = lines[0]
                    got_a.append(getattr(ea, op_a)())
                    if not got_b:
                        got_b.append(getattr(eb, op_b)())
                    want_a = [getattr(wd.DeterministicExecutor(A, ref), op_a)() for _ in range(1)]
                    ra = wd.DeterministicExecutor(A, ref)
                    want_a = [getattr(ra, op_a)(), getattr(ra, op_a)()]
                    want_b = [getattr(wd.DeterministicExecutor(B, ref), op_b)()] if op_b != "utc_now" else None
                    replay_a = wd.DeterministicExecutor(A, app)
                    rep_a = [getattr(replay_a, op_a)(), getattr(replay_a, op_a)()]
                    problems = []
                    if got_a != want_a:
                        problems.append(f"A's {op_a} values {got_a} differ from the ones workflow A gets alone {want_a}")
                    if want_b is not None and got_b != want_b:
                        problems.append(f"B's {op_b} value {got_b} differs from the one workflow B gets alone {want_b}")
                    if rep_a != got_a:
                        problems.append(f"replay of A returns {rep_a}, the first execution saw {got_a}")
                    if problems and len(res.failures) < 8:
                        res.failures.append({"what": f"A.{op_a}() interrupted at line step {k} of workflow_deterministic.py by B.{op_b}(): " + "; ".join(problems)[:500],
                                             "input": {"op_a": op_a, "op_b": op_b, "k": k}, "finding_key": "generators:mixed"})
                if k > total:
                    break
    res.cases = n
    res.distinct = n
    res.samples = [{"op_a": "random", "op_b": "random", "k": 9}]
    return res
