"""C19 — sync development mode and distributed execution give the same outcome (retry recurrence)."""
from __future__ import annotations

import re

import z3

from pyvc.contract import Case, Contract, LoopSpec, Registry, Shape
from pyvc.prop import BoundedResult, Prop, RunCtx
from pyvc.solve import Obligation
from pyvc.types import BOOL, INT, REAL, STR, Atom, Enum, MapT, ObjT, Opt, SetT
from pyvc.values import NONE, OK, RAISE, BoundMeth, ExcVal, Native, Val, fresh_name, mk_fresh

from . import glue, world
from .common import ID, RUNNER, SPEC, Types
from .glue import EXC, HIST, QUEUE, REC, RES, RETRIES, held_by, known, owner_of, status_of
from .glueprop import GLUE_ASSUMPTIONS, GLUE_TRUSTED, setup

PID = "C19"
CI = "pynenc.invocation.conc_invocation"
DI = "pynenc.invocation.dist_invocation"
PAYLOAD = glue.PAYLOAD
OUT = Enum("BodyOutcome", ["Ret", "Retr", "Oth"])
outcome = z3.Function("outcome", z3.IntSort(), OUT.sort())      # what the task body does on its a-th execution
payload = z3.Function("payload", z3.IntSort(), PAYLOAD.sort())  # the value it returns / the exception it raises
Kf = z3.RecFunction("extra_attempts", z3.IntSort(), z3.IntSort(), z3.IntSort(), z3.IntSort())
_r, _a, _m = z3.Ints("kr ka km")
# spec from the property text: retry while the body raises a retriable exception and fewer than max_retries retries were used
z3.RecAddDefinition(Kf, [_r, _a, _m], z3.If(z3.Or(outcome(_a) != OUT.const("Retr"), _r >= _m), 0, 1 + Kf(_r + 1, _a + 1, _m)))


def body_oracle(reg: Registry):
    """run_task_sync(func, **kwargs): the a-th execution of the body returns payload(a), raises a retriable or another exception."""
    def h(eng, st, recv, args, kwargs):
        a = st.ghost.get("g:attempts")
        hook = st.ghost.get("$body_hook")
        if hook:
            hook(eng, st)
        st.ghost["g:attempts"] = Val(a.term + 1, INT)
        out = []
        for name, res in (("Ret", None), ("Retr", "retriable_exceptions"), ("Oth", "BodyError")):
            s = st.fork()
            s.assume(outcome(a.term) == OUT.const(name))
            s.trail.append(f"body={name}")
            if res is None:
                out.append((OK, s, Val(payload(a.term), PAYLOAD)))
            else:
                out.append((RAISE, s, ExcVal(res, exact=True, fields={"payload": Val(payload(a.term), PAYLOAD)})))
        return out
    for m in (CI, DI):
        reg.add(Contract(key=f"{m}:run_task_sync", handler=h, assumed=True, note="the task body as an oracle per execution"))
    reg.add(Contract(key="pynenc.util.asyncio_helper:run_task_sync", handler=h, assumed=True))
    reg.exceptions["retriable_exceptions"] = ["Exception"]
    reg.exceptions["BodyError"] = ["Exception"]
    reg.exceptions["WorkflowPauseError"] = ["Exception"]


def task_shapes(T: Types, reg: Registry):
    world.view_types(T)
    reg.add_shape(Shape("TaskObj", fields={"conf": T.TaskConf, "func": Atom("Func"), "retriable_exceptions": Atom("ExcTuple"), "task_id": Atom("TaskId")}))
    reg.add_shape(Shape("ArgsObj", fields={"kwargs": Atom("Kwargs")}))
    reg.dropped_calls.append(re.compile(r"^context\.(set_|swap_|clear_)"))

    class Storage(Native):
        """context._get_sync_inv_context_storage(): dict app_id -> current sync invocation (only saved and restored here)"""

        def vc_getattr(self, eng, st, name):
            return BoundMeth(self, name)

        def vc_call(self, eng, st, name, args, kwargs):
            if name == "get":
                return [(OK, st, st.ghost.setdefault("$ctx_cur", mk_fresh(Atom("CtxSlot"), "prevctx")))]
            from pyvc.ops import Unsupported
            raise Unsupported(f"context storage .{name}")

        def vc_setitem(self, eng, st, key, val):
            st.events.append({"ev": "ctx-set", "value": val})
    storage = Storage()
    reg.add(Contract(key="pynenc.context:_get_sync_inv_context_storage", handler=lambda eng, st, recv, a, kw: [(OK, st, storage)], assumed=True))


def conc_contract(T: Types, reg: Registry):
    reg.add_shape(Shape("ConcInvocation", fields={
        "_is_result_cached": BOOL, "_cached_result": PAYLOAD, "_status": T.Status, "_num_retries": INT, "app": ObjT("App"),
        "task": ObjT("TaskObj"), "arguments": ObjT("ArgsObj"), "invocation_id": ID}, cls=(CI, "ConcurrentInvocation")))
    reg.shapes["ConcInvocation"].properties = ("result",)
    mx = lambda c: T.TaskConf.get(c.f("task.conf"), "max_retries")
    r0 = lambda c: c.old("_num_retries")
    a0 = lambda c: c.st.ghost["$attempts0"].term
    K = lambda c: Kf(r0(c), a0(c), mx(c))
    last = lambda c: a0(c) + K(c)
    attempts = lambda c: c.g("g:attempts")

    def restored(c):
        sets = [e for e in c.st.events if isinstance(e, dict) and e.get("ev") == "ctx-set"]
        prev = c.st.ghost.get("$ctx_cur")
        return z3.BoolVal(bool(sets) and prev is not None and sets[-1]["value"] is prev)
    res = Contract(
        key=f"{CI}:ConcurrentInvocation.result", shape="ConcInvocation", params={}, result=PAYLOAD,
        frame=["_is_result_cached", "_cached_result", "_status", "_num_retries"],
        requires=[("retry-counter-nonnegative", lambda c: z3.And(c.f("_num_retries") >= 0, mx(c) >= 0))],
        cases=[
            Case("cached", when=lambda c: c.old("_is_result_cached"), ensures=[
                ("returns-the-cached-value-without-executing-the-body", lambda c: z3.And(c.result == c.old("_cached_result"), attempts(c) == a0(c),
                                                                                        c.f("_num_retries") == r0(c)))]),
            Case("fails", when=lambda c: z3.And(z3.Not(c.old("_is_result_cached")), outcome(last(c)) != OUT.const("Ret")), raises="Exception", ensures=[
                ("body-executed-K+1-times", lambda c: attempts(c) == last(c) + 1),
                ("retries-counted", lambda c: c.f("_num_retries") == r0(c) + K(c)),
                ("status-FAILED", lambda c: c.f("_status") == T.S("FAILED")),
                ("raises-what-the-last-execution-raised", lambda c: z3.BoolVal(c.exc is not None and "payload" in c.exc.fields) if c.exc is None or "payload" not in c.exc.fields
                 else c.exc.fields["payload"].term == payload(last(c))),
                ("sync-context-restored", restored),
            ]),
            Case("succeeds", when=lambda c: z3.And(z3.Not(c.old("_is_result_cached")), outcome(last(c)) == OUT.const("Ret")), ensures=[
                ("returns-the-value-of-the-first-non-retried-execution", lambda c: c.result == payload(last(c))),
                ("body-executed-K+1-times", lambda c: attempts(c) == last(c) + 1),
                ("retries-counted", lambda c: c.f("_num_retries") == r0(c) + K(c)),
                ("status-SUCCESS-and-result-cached", lambda c: z3.And(c.f("_status") == T.S("SUCCESS"), c.f("_is_result_cached"), c.f("_cached_result") == c.result)),
                ("sync-context-restored", restored),
            ]),
        ], properties=[PID])
    res.decreases = lambda c: T.TaskConf.get(c.f("task.conf"), "max_retries") - c.f("_num_retries")
    res.ghost_init = {"g:attempts": INT}
    reg.add(res)
    return res


def dist_contract(T: Types, reg: Registry, G: dict):
    O = "app.orchestrator."
    reg.add_shape(Shape("DistInvocation", fields={
        "app": ObjT("App"), "invocation_id": ID, "task": ObjT("TaskObj"), "arguments": ObjT("ArgsObj"), "view": T.Invocation},
        cls=(DI, "DistributedInvocation")))
    reg.shapes["DistInvocation"].properties = ("num_retries",)
    reg.shapes["DistInvocation"].backrefs = [("app.orchestrator", "app", "app"), ("app.broker", "app", "app"), ("app.state_backend", "app", "app"),
                                             ("app.trigger", "app", "app")]
    reg.add(Contract(key=f"{DI}:DistributedInvocation._register_workflow_run", shape="DistInvocation", params={}, frame=[], assumed=True,
                     check_invariants=False, effect_events=False, cases=[Case("recorded")],
                     note="writes workflow-run tables of the state backend only (not part of the abstract world used here)"))
    me = lambda c: c.f("invocation_id")
    ctxid = lambda c: Opt(RUNNER).some(T.RunnerCtx.get(c.arg("runner_ctx"), "runner_id"))
    rec, rec0 = (lambda c: c.f(O + REC)), (lambda c: c.old(O + REC))
    ret_t = MapT(ID, INT)
    retries0 = lambda c: z3.If(ret_t.opt.is_some(z3.Select(c.old(O + RETRIES), me(c))), ret_t.opt.val(z3.Select(c.old(O + RETRIES), me(c))), 0)
    mx = lambda c: T.TaskConf.get(c.f("task.conf"), "max_retries")
    a0 = lambda c: c.st.ghost["$attempts0"].term
    attempts = lambda c: c.g("g:attempts")
    RUNNING_SEQ = z3.Unit(T.S("RUNNING"))

    def authorised(c):
        inv = c.f("view")
        rc = world.conf_of(T, inv, "running_concurrency")
        return z3.Or(rc == T.CCType.const("DISABLED"), z3.Not(_blocked(T, c, inv, rec0(c), c.old(O + glue.INDEXED), RUNNING_SEQ)))
    pre = [
        ("runner-context-has-an-id", lambda c: glue.ctx_ok(T, c)),
        ("claimed:PENDING-under-this-runner", lambda c: held_by(T, c.f(O + REC), me(c), c.arg("runner_ctx"))),
        ("view-is-this-invocation", lambda c: z3.And(T.Invocation.get(c.f("view"), "invocation_id") == me(c), world.inv_axioms(T, me(c)),
                                                     c.f("view") == T.inv_of(me(c)),
                                                     T.TaskRec.get(T.Invocation.get(c.f("view"), "task"), "conf") == c.f("task.conf"))),
        ("world-wellformed", lambda c: z3.And(glue.owners_ok(T, c.f(O + REC)), glue.bag_nonneg(c.f("app.broker.queue")),
                                              glue.J5(T, c.f(O + REC), c.f("app.state_backend.res"), c.f("app.state_backend.exc")))),
        ("max-retries-nonnegative", lambda c: mx(c) >= 0),
    ]
    j5 = ("C05:final-status-has-its-outcome", lambda c: glue.J5(T, c.f(O + REC), c.f("app.state_backend.res"), c.f("app.state_backend.exc")))
    st_me = lambda c: status_of(T, rec(c), me(c))
    queued_more = lambda c: z3.Select(c.f("app.broker.queue"), me(c)) >= z3.Select(c.old("app.broker.queue"), me(c)) + 1
    out_is = lambda c, nm: outcome(a0(c)) == OUT.const(nm)
    fields = [O + f for f in (REC, HIST, glue.WAITED, glue.EDGES, glue.PURGE, RETRIES)] + ["app.broker.queue", "app.state_backend.res", "app.state_backend.exc"]
    def faulted(c):
        """a storage write failed on this path (fault injection of the component contracts): only the C05 invariant is demanded then"""
        return z3.BoolVal(any(isinstance(e, dict) and e.get("ev") == "call" and e.get("case") == "storage-fault" for e in c.st.events))
    failing = lambda c: z3.And(authorised(c), z3.Or(out_is(c, "Oth"), z3.And(out_is(c, "Retr"), retries0(c) >= mx(c))))
    nf = lambda body: (lambda c: z3.Or(faulted(c), body(c)))
    run = Contract(
        key=f"{DI}:DistributedInvocation.run", shape="DistInvocation", params={"runner_ctx": T.RunnerCtx, "runner_args": Atom("RunnerArgs")},
        defaults={"runner_args": lambda eng, st: NONE}, requires=pre, frame=fields,
        cases=[
            Case("fails", raises="Exception", ensures=[
                ("raises-only-when-the-body-failed-for-good", nf(failing)),
                ("body-executed-once", nf(lambda c: attempts(c) == a0(c) + 1)),
                ("exception-stored-then-FAILED", nf(lambda c: z3.And(st_me(c) == T.S("FAILED"), z3.Select(c.f("app.state_backend.exc"), me(c))))),
                ("retry-counter-unchanged", nf(lambda c: c.f(O + RETRIES) == c.old(O + RETRIES))), j5]),
            Case("ends", ensures=[
                ("returns-normally-unless-the-body-failed-for-good", nf(lambda c: z3.Not(failing(c)))),
                ("C06:not-authorised=>body-not-executed-and-invocation-re-queued", nf(lambda c: z3.Implies(z3.Not(authorised(c)), z3.And(
                    attempts(c) == a0(c), st_me(c) == T.S("REROUTED"), queued_more(c))))),
                ("returns=>result-stored-then-SUCCESS-after-one-execution", nf(lambda c: z3.Implies(z3.And(authorised(c), out_is(c, "Ret")), z3.And(
                    attempts(c) == a0(c) + 1, st_me(c) == T.S("SUCCESS"), z3.Select(c.f("app.state_backend.res"), me(c)))))),
                ("retriable-below-the-limit=>RETRY-counter+1-re-queued-after-one-execution", nf(lambda c: z3.Implies(
                    z3.And(authorised(c), out_is(c, "Retr"), retries0(c) < mx(c)), z3.And(
                        attempts(c) == a0(c) + 1, st_me(c) == T.S("RETRY"), queued_more(c),
                        z3.Select(c.f(O + RETRIES), me(c)) == ret_t.opt.some(retries0(c) + 1))))),
                j5]),
        ], properties=[PID, "C02", "C05", "C06"])
    run.ghost_init = {"g:attempts": INT}

    def body_hook(eng, st):
        """C02: the body starts only after this activation's own RUNNING request succeeded (and, C06, under an authorisation)."""
        ok = z3.BoolVal(False)
        for e in reversed([e for e in st.events if isinstance(e, dict) and e.get("ev") == "call"]):
            if e["key"].endswith("BaseOrchestrator.set_invocation_status") and e["case"] == "accepted":
                ok = z3.And(e["args"]["status"].term == T.S("RUNNING"), e["args"]["invocation_id"].term == eng.heap_read(st, eng.self_ref, "invocation_id").term,
                            e["args"]["runner_ctx"].term == st.ghost["$args"]["runner_ctx"].term)
                break
        eng.oblige(st, ok, "C02:task-body-starts-only-after-this-activation's-own-successful-RUNNING-request", "ensures")
    run.body_hook = body_hook
    reg.add(run)
    return run


def _blocked(T, c, inv, rec_term, indexed, statuses_term):
    rc = world.conf_of(T, inv, "running_concurrency")
    key = T.keyproj(T.Invocation.get(inv, "call"), rc)
    OKEYS = Opt(world.KEYS)
    no_filter = z3.Or(rc == T.CCType.const("TASK"), OKEYS.is_none(key))
    j = z3.Const(fresh_name("bj"), ID.sort())
    same_task = world.task_of(T, j) == T.TaskRec.get(T.CallRec.get(T.Invocation.get(inv, "call"), "task"), "task_id")
    return z3.Exists([j], z3.And(known(T, rec_term, j), same_task, z3.Contains(statuses_term, z3.Unit(status_of(T, rec_term, j))),
                                 z3.Or(no_filter, z3.And(z3.Select(indexed, j), T.key_match(j, OKEYS.val(key))))))


def closed_forms(ctx: RunCtx):
    """Closed forms of the recurrence (induction packaged as base + step obligations)."""
    r, a, m = z3.Ints("r a m")
    Retr, Ret = OUT.const("Retr"), OUT.const("Ret")
    always = z3.ForAll([z3.Int("x")], outcome(z3.Int("x")) == Retr)

    def ob(name, pc, goal):
        return Obligation(name=f"{PID}/lemma/{name}", kind="lemma", pc=pc, goal=goal, function="spec recurrence extra_attempts")
    k = z3.Int("k")
    return [
        ob("always-retriable:base(r>=max=>no-further-attempt)", [always, r >= m], Kf(r, a, m) == 0),
        ob("always-retriable:step(executions=max-r+1)", [always, r < m, Kf(r + 1, a + 1, m) == m - (r + 1)], Kf(r, a, m) == m - r),
        ob("non-retriable-first=>exactly-one-execution", [outcome(a) != Retr], Kf(r, a, m) == 0),
        ob("success-on-attempt-k:step", [outcome(a) == Retr, r < m, Kf(r + 1, a + 1, m) == k], Kf(r, a, m) == k + 1),
        ob("distributed-unfolding=sync-recurrence", [outcome(a) == Retr, r < m], z3.And(Kf(r, a, m) == 1 + Kf(r + 1, a + 1, m))),
    ]


def same_outcome_both_ways(ctx: RunCtx) -> BoundedResult:
    """Bounded stand-in: scripted task programs executed in sync mode and through a real thread runner on both stacks."""
    import threading
    import time as _t
    from pynenc.exceptions import RetryError
    from . import verif_tasks
    from .realapp import real_app
    thorough = ctx.tier == "thorough"
    res = BoundedResult("same_outcome_both_ways", "scripts over {ok, retriable, other}^<=3 x max_retries in {0,1,2}: executed in dev sync mode and through the "
                        "real ThreadRunner on the in-memory stack" + (" and the SQLite stack" if thorough else "") + "; compare outcome class, payload and body executions")
    import itertools
    scripts = [s for n in (1, 2, 3) for s in itertools.product("ork", repeat=n)]   # o=ok r=retriable k=other(kill)
    n = 0
    for backend in (("mem", "sqlite") if thorough else ("mem",)):
        for max_retries in (0, 1, 2):
            for script in scripts:
                if not thorough and len(script) == 3 and script[0] != "r":
                    continue
                n += 1
                results = {}
                for mode in ("sync", "dist"):
                    verif_tasks.SCRIPT[:] = list(script)
                    verif_tasks.CALLS[0] = 0
                    kw = {"dev_mode_force_sync_tasks": True} if mode == "sync" else {}
                    with real_app(backend, **kw) as app:
                        task = app.task(max_retries=max_retries, retry_for=(verif_tasks.Retriable,))(verif_tasks.scripted)
                        runner_thread = None
                        if mode == "dist":
                            from pynenc.runner.thread_runner import ThreadRunner
                            app.runner = ThreadRunner(app)
                            app.conf.runner_loop_sleep_time_sec = 0.01
                            runner_thread = threading.Thread(target=app.runner.run, daemon=True)
                            runner_thread.start()
                        try:
                            inv = task(7)
                            box = {}

                            def wait(inv=inv, box=box):
                                try:
                                    box["out"] = ("ok", inv.result)
                                except Exception as e:
                                    box["out"] = ("exc", type(e).__name__, e.args)
                            waiter = threading.Thread(target=wait, daemon=True)
                            waiter.start()
                            waiter.join(20)
                            out = box.get("out", ("no outcome within 20 s",))
                        finally:
                            if runner_thread is not None:
                                app.runner.stop_runner_loop()
                                runner_thread.join(10)
                        results[mode] = (out, verif_tasks.CALLS[0])
                if results["sync"] != results["dist"] and len(res.failures) < 10:
                    res.failures.append({"what": f"{backend} script={''.join(script)} max_retries={max_retries}: sync {results['sync']} != distributed {results['dist']}",
                                         "input": {"script": "".join(script), "max_retries": max_retries}, "finding_key": f"{backend}:outcome"})
    res.cases = n
    res.distinct = n
    res.samples = [{"script": "rro", "max_retries": 2, "expected": "value after 3 executions in both modes"}]
    return res


def build(ctx: RunCtx) -> Prop:
    T, reg, G = setup(ctx)
    body_oracle(reg)
    task_shapes(T, reg)
    conc = conc_contract(T, reg)
    dist = dist_contract(T, reg, G)
    return Prop(
        pid=PID, title="ConcurrentInvocation.result = the retry recurrence F (recursive, with a decreasing measure); DistributedInvocation.run = one unfolding "
                       "of F per attempt; closed forms of F; task body starts only after the activation's own RUNNING request",
        level="proof", technique="contract-based deductive verification against a recursive spec function (AST->z3 VCs, body as an oracle per execution) + bounded sync/distributed comparison on the real runner",
        registry=reg, verify=[conc, dist, G["set_invocation_retry"], G["set_invocation_result"], G["set_invocation_exception"]],
        lemmas=[closed_forms], bounded=[same_outcome_both_ways],
        assumptions=GLUE_ASSUMPTIONS + ["the task body is an oracle outcome(a) per execution a: returns a payload, raises a retriable or another exception",
                                        "payload identity through storage/serialisation is C05/C15, not part of this proof",
                                        "the same retriable_exceptions tuple is used by both modes (Task.retriable_exceptions, one cached property)"],
        trusted_base=GLUE_TRUSTED + ["z3 recursive function definitions (RecFunction)"],
        not_decided="nested calls, parallelized groups and direct-task wrappers are covered only by the bounded comparison.",
        min_obligations=30,
    )
