"""C19 — sync development mode and distributed execution give the same outcome (retry recurrence)."""
from __future__ import annotations

import re

import z3

from pyvc.contract import Case, Contract, LoopSpec, Registry, Shape
from pyvc.prop import BoundedResult, Prop, RunCtx
from pyvc.solve import Obligation
from pyvc.types import BOOL, INT, REAL, STR, Atom, Enum, MapT, ObjT, Opt, SetT
from pyvc.values import NONE, OK, RAISE, BoundMeth, ExcVal, Native, Val, fresh_name, mk_fresh

from . import glue, world
from .common import ID, RUNNER, SPEC, Types
from .glue import EXC, HIST, QUEUE, REC, RES, RETRIES, held_by, known, owner_of, status_of
from .glueprop import GLUE_ASSUMPTIONS, GLUE_TRUSTED, setup

PID = "C19"
CI = "pynenc.invocation.conc_invocation"
DI = "pynenc.invocation.dist_invocation"
PAYLOAD = glue.PAYLOAD
OUT = Enum("BodyOutcome", ["Ret", "Retr", "Oth"])
outcome = z3.Function("outcome", z3.IntSort(), OUT.sort())      # what the task body does on its a-th execution
payload = z3.Function("payload", z3.IntSort(), PAYLOAD.sort())  # the value it returns / the exception it raises
Kf = z3.RecFunction("extra_attempts", z3.IntSort(), z3.IntSort(), z3.IntSort(), z3.IntSort())
_r, _a, _m = z3.Ints("kr ka km")
# spec from the property text: retry while the body raises a retriable exception and fewer than max_retries retries were used
z3.RecAddDefinition(Kf, [_r, _a, _m], z3.If(z3.Or(outcome(_a) != OUT.const("Retr"), _r >= _m), 0, 1 + Kf(_r + 1, _a + 1, _m)))


def body_oracle(reg: Registry):
    """run_task_sync(func, **kwargs): the a-th execution of the body returns payload(a), raises a retriable or another exception."""
    def h(eng, st, recv, args, kwargs):
        a = st.ghost.get("g:attempts")
        hook = st.ghost.get("$body_hook")
        if hook:
            hook(eng, st)
        st.ghost["g:attempts"] = Val(a.term + 1, INT)
        out = []
        for name, res in (("Ret", None), ("Retr", "retriable_exceptions"), ("Oth", "BodyError")):
            s = st.fork()
            s.assume(outcome(a.term) == OUT.const(name))
            s.trail.append(f"body={name}")
            if res is None:
                out.append((OK, s, Val(payload(a.term), PAYLOAD)))
            else:
                out.append((RAISE, s, ExcVal(res, exact=True, fields={"payload": Val(payload(a.term), PAYLOAD)})))
        return out
    for m in (CI, DI):
        reg.add(Contract(key=f"{m}:run_task_sync", handler=h, assumed=True, note="the task body as an oracle per execution"))
    reg.add(Contract(key="pynenc.util.asyncio_helper:run_task_sync", handler=h, assumed=True))
    reg.exceptions["retriable_exceptions"] = ["Exception"]
    reg.exceptions["BodyError"] = ["Exception"]
    reg.exceptions["WorkflowPauseError"] = ["Exception"]


def task_shapes(T: Types, reg: Registry):
    world.view_types(T)
    reg.add_shape(Shape("TaskObj", fields={"conf": T.TaskConf, "func": Atom("Func"), "retriable_exceptions": Atom("ExcTuple"), "task_id": Atom("TaskId")}))
    reg.add_shape(Shape("ArgsObj", fields={"kwargs": Atom("Kwargs")}))
    reg.dropped_calls.append(re.compile(r"^context\.(set_|swap_|clear_)"))

    class Storage(Native):
        """context._get_sync_inv_context_storage(): dict app_id -> current sync invocation (only saved and restored here)"""

        def vc_getattr(self, eng, st, name):
            return BoundMeth(self, name)

        def vc_call(self, eng, st, name, args, kwargs):
            if name == "get":
                return [(OK, st, st.ghost.setdefault("$ctx_cur", mk_fresh(Atom("CtxSlot"), "prevctx")))]
            from pyvc.ops import Unsupported
            raise Unsupported(f"context storage .{name}")

        def vc_setitem(self, eng, st, key, val):
            st.events.append({"ev": "ctx-set", "value": val})
    storage = Storage()
    reg.add(Contract(key="pynenc.context:_get_sync_inv_context_storage", handler=lambda eng, st, recv, a, kw: [(OK, st, storage)], assumed=True))


def conc_contract(T: Types, reg: Registry):
    reg.add_shape(Shape("ConcInvocation", fields={
        "_is_result_cached": BOOL, "_cached_result": PAYLOAD, "_status": T.Status, "_num_retries": INT, "app": ObjT("App"),
        "task": ObjT("TaskObj"), "arguments": ObjT("ArgsObj"), "invocation_id": ID}, cls=(CI, "ConcurrentInvocation")))
    reg.shapes["ConcInvocation"].properties = ("result",)
    mx = lambda c: T.TaskConf.get(c.f("task.conf"), "max_retries")
    r0 = lambda c: c.old("_num_retries")
    a0 = lambda c: c.st.ghost["$attempts0"].term
    K = lambda c: Kf(r0(c), a0(c), mx(c))
    last = lambda c: a0(c) + K(c)
    attempts = lambda c: c.g("g:attempts")

    def restored(c):
        sets = [e for e in c.st.events if isinstance(e, dict) and e.get("ev") == "ctx-set"]
        prev = c.st.ghost.get("$ctx_cur")
        return z3.BoolVal(bool(sets) and prev is not None and sets[-1]["value"] is prev)
    res = Contract(
        key=f"{CI}:ConcurrentInvocation.result", shape="ConcInvocation", params={}, result=PAYLOAD,
        frame=["_is_result_cached", "_cached_result", "_status", "_num_retries"],
        requires=[("retry-counter-nonnegative", lambda c: z3.And(c.f("_num_retries") >= 0, mx(c) >= 0))],
        cases=[
            Case("cached", when=lambda c: c.old("_is_result_cached"), ensures=[
                ("returns-the-cached-value-without-executing-the-body", lambda c: z3.And(c.result == c.old("_cached_result"), attempts(c) == a0(c),
                                                                                        c.f("_num_retries") == r0(c)))]),
            Case("fails", when=lambda c: z3.And(z3.Not(c.old("_is_result_cached")), outcome(last(c)) != OUT.const("Ret")), raises="Exception", ensures=[
                ("body-executed-K+1-times", lambda c: attempts(c) == last(c) + 1),
                ("retries-counted", lambda c: c.f("_num_retries") == r0(c) + K(c)),
                ("status-FAILED", lambda c: c.f("_status") == T.S("FAILED")),
                ("raises-what-the-last-execution-raised", lambda c: z3.BoolVal(c.exc is not None and "payload" in c.exc.fields) if c.exc is None or "payload" not in c.exc.fields
                 else c.exc.fields["payload"].term == payload(last(c))),
                ("sync-context-restored", restored),
            ]),
            Case("succeeds", when=lambda c: z3.And(z3.Not(c.old("_is_result_cached")), outcome(last(c)) == OUT.const("Ret")), ensures=[
                ("returns-the-value-of-the-first-non-retried-execution", lambda c: c.result == payload(last(c))),
                ("body-executed-K+1-times", lambda c: attempts(c) == last(c) + 1),
                ("retries-counted", lambda c: c.f("_num_retries") == r0(c) + K(c)),
                ("status-SUCCESS-and-result-cached", lambda c: z3.And(c.f("_status") == T.S("SUCCESS"), c.f("_is_result_cached"), c.f("_cached_result") == c.result)),
                ("sync-context-restored", restored),
            ]),
        ], properties=[PID])
    res.decreases = lambda c: T.TaskConf.get(c.f("task.conf"), "max_retries") - c.f("_num_retries")
    res.ghost_init = {"g:attempts": INT}
    reg.add(res)
    return res


def dist_contract(T: Types, reg: Registry, G: dict):
    O = "app.orchestrator."
    reg.add_shape(Shape("DistInvocation", fields={
        "app": ObjT("App"), "invocation_id": ID, "task": ObjT("TaskObj"), "arguments": ObjT("ArgsObj"), "view": T.Invocation},
        cls=(DI, "DistributedInvocation")))
    reg.shapes["DistInvocation"].properties = ("num_retries",)
    reg.shapes["DistInvocation"].backrefs = [("app.orchestrator", "app", "app"), ("app.broker", "app", "app"), ("app.state_backend", "app", "app"),
                                             ("app.trigger", "app", "app")]
    reg.add(Contract(key=f"{DI}:DistributedInvocation._register_workflow_run", shape="DistInvocation", params={}, frame=[], assumed=True,
                     check_invariants=False, effect_events=False, cases=[Case("recorded")],
                     note="writes workflow-run tables of the state backend only (not part of the abstract world used here)"))
    me = lambda c: c.f("invocation_id")
    ctxid = lambda c: Opt(RUNNER).some(T.RunnerCtx.get(c.arg("runner_ctx"), "runner_id"))
    rec, rec0 = (lambda c: c.f(O + REC)), (lambda c: c.old(O + REC))
    ret_t = MapT(ID, INT)
    retries0 = lambda c: z3.If(ret_t.opt.is_some(z3.Select(c.old(O + RETRIES), me(c))), ret_t.opt.val(z3.Select(c.old(O + RETRIES), me(c))), 0)
    mx = lambda c: T.TaskConf.get(c.f("task.conf"), "max_retries")
    a0 = lambda c: c.st.ghost["$attempts0"].term
    attempts = lambda c: c.g("g:attempts")
    RUNNING_SEQ = z3.Unit(T.S("RUNNING"))

    def authorised(c):
        inv = c.f("view")
        rc = world.conf_of(T, inv, "running_concurrency")
        return z3.Or(rc == T.CCType.const("DISABLED"), z3.Not(_blocked(T, c, inv, rec0(c), c.old(O + glue.INDEXED), RUNNING_SEQ)))
    pre = [
        ("runner-context-has-an-id", lambda c: glue.ctx_ok(T, c)),
        ("claimed:PENDING-under-this-runner", lambda c: held_by(T, c.f(O + REC), me(c), c.arg("runner_ctx"))),
        ("view-is-this-invocation", lambda c: z3.And(T.Invocation.get(c.f("view"), "invocation_id") == me(c), world.inv_axioms(T, me(c)),
                                                     c.f("view") == T.inv_of(me(c)),
                                                     T.TaskRec.get(T.Invocation.get(c.f("view"), "task"), "conf") == c.f("task.conf"))),
        ("world-wellformed", lambda c: z3.And(glue.owners_ok(T, c.f(O + REC)), glue.bag_nonneg(c.f("app.broker.queue")),
                                              glue.J5(T, c.f(O + REC), c.f("app.state_backend.res"), c.f("app.state_backend.exc")))),
        ("max-retries-nonnegative", lambda c: mx(c) >= 0),
    ]
    j5 = ("C05:final-status-has-its-outcome", lambda c: glue.J5(T, c.f(O + REC), c.f("app.state_backend.res"), c.f("app.state_backend.exc")))
    st_me = lambda c: status_of(T, rec(c), me(c))
    queued_more = lambda c: z3.Select(c.f("app.broker.queue"), me(c)) >= z3.Select(c.old("app.broker.queue"), me(c)) + 1
    out_is = lambda c, nm: outcome(a0(c)) == OUT.const(nm)
    fields = [O + f for f in (REC, HIST, glue.WAITED, glue.EDGES, glue.PURGE, RETRIES)] + ["app.broker.queue", "app.state_backend.res", "app.state_backend.exc"]
    def faulted(c):
        """a storage write failed on this path (fault injection of the component contracts): only the C05 invariant is demanded then"""
        return z3.BoolVal(any(isinstance(e, dict) and e.get("ev") == "call" and e.get("case") == "storage-fault" for e in c.st.events))
    failing = lambda c: z3.And(authorised(c), z3.Or(out_is(c, "Oth"), z3.And(out_is(c, "Retr"), retries0(c) >= mx(c))))
    nf = lambda body: (lambda c: z3.Or(faulted(c), body(c)))
    run = Contract(
        key=f"{DI}:DistributedInvocation.run", shape="DistInvocation", params={"runner_ctx": T.RunnerCtx, "runner_args": Atom("RunnerArgs")},
        defaults={"runner_args": lambda eng, st: NONE}, requires=pre, frame=fields,
        cases=[
            Case("fails", raises="Exception", ensures=[
                ("raises-only-when-the-body-failed-for-good", nf(failing)),
                ("body-executed-once", nf(lambda c: attempts(c) == a0(c) + 1)),
                ("exception-stored-then-FAILED", nf(lambda c: z3.And(st_me(c) == T.S("FAILED"), z3.Select(c.f("app.state_backend.exc"), me(c))))),
                ("retry-counter-unchanged", nf(lambda c: c.f(O + RETRIES) == c.old(O + RETRIES))), j5]),
            Case("ends", ensures=[
                ("returns-normally-unless-the-body-failed-for-good", nf(lambda c: z3.Not(failing(c)))),
                ("C06:not-authorised=>body-not-executed-and-invocation-re-queued", nf(lambda c: z3.Implies(z3.Not(authorised(c)), z3.And(
                    attempts(c) == a0(c), st_me(c) == T.S("REROUTED"), queued_more(c))))),
                ("returns=>result-stored-then-SUCCESS-after-one-execution", nf(lambda c: z3.Implies(z3.And(authorised(c), out_is(c, "Ret")), z3.And(
                    attempts(c) == a0(c) + 1, st_me(c) == T.S("SUCCESS"), z3.Select(c.f("app.state_backend.res"), me(c)))))),
                ("retriable-below-the-limit=>RETRY-counter+1-re-queued-after-one-execution", nf(lambda c: z3.Implies(
                    z3.And(authorised(c), out_is(c, "Retr"), retries0(c) < mx(c)), z3.And(
                        attempts(c) == a0(c) + 1, st_me(c) == T.S("RETRY"), queued_more(c),
                        z3.Select(c.f(O + RETRIES), me(c)) == ret_t.opt.some(retries0(c) + 1))))),
                j5]),
        ], properties=[PID, "C02", "C05", "C06"])
    run.ghost_init = {"g:attempts": INT}

    def body_hook(eng, st):
        """C02: the body starts only after this activation's own RUNNING request succeeded (and, C06, under an authorisation)."""
        ok = z3.BoolVal(False)
        for e in reversed([e for e in st.events if isinstance(e, dict) and e.get("ev") == "call"]):
            if e["key"].endswith("BaseOrchestrator.set_invocation_status") and e["case"] == "accepted":
                ok = z3.And(e["args"]["status"].term == T.S("RUNNING"), e["args"]["invocation_id"].term == eng.heap_read(st, eng.self_ref, "invocation_id").term,
                            e["args"]["runner_ctx"].term == st.ghost["$args"]["runner_ctx"].term)
                break
        eng.oblige(st, ok, "C02:task-body-starts-only-after-this-activation's-own-successful-RUNNING-request", "ensures")
    run.body_hook = body_hook
    reg.add(run)
    return run


def _blocked(T, c, inv, rec_term, indexed, statuses_term):
    rc = world.conf_of(T, inv, "running_concurrency")
    key = T.keyproj(T.Invocation.get(inv, "call"), rc)
    OKEYS = Opt(world.KEYS)
    no_filter = z3.Or(rc == T.CCType.const("TASK"), OKEYS.is_none(key))
    j = z3.Const(fresh_name("bj"), ID.sort())
    same_task = world.task_of(T, j) == T.TaskRec.get(T.CallRec.get(T.Invocation.get(inv, "call"), "task"), "task_id")
    return z3.Exists([j], z3.And(known(T, rec_term, j), same_task, z3.Contains(statuses_term, z3.Unit(status_of(T, rec_term, j))),
                                 z3.Or(no_filter, z3.And(z3.Select(indexed, j), T.key_match(j, OKEYS.val(key))))))


def closed_forms(ctx: RunCtx):
    """Closed forms of the recurrence (induction packaged as base + step obligations)."""
    r, a, m = z3.Ints("r a m")
    Retr, Ret = OUT.const("Retr"), OUT.const("Ret")
    always = z3.ForAll([z3.Int("x")], outcome(z3.Int("x")) == Retr)

    def ob(name, pc, goal):
        return Obligation(name=f"{PID}/lemma/{name}", kind="lemma", pc=pc, goal=goal, function="spec recurrence extra_attempts")
    k = z3.Int("k")
    return [
        ob("always-retriable:base(r>=max=>no-further-attempt)", [always, r >= m], Kf(r, a, m) == 0),
        ob("always-retriable:step(executions=max-r+1)", [always, r < m, Kf(r + 1, a + 1, m) == m - (r + 1)], Kf(r, a, m) == m - r),
        ob("non-retriable-first=>exactly-one-execution", [outcome(a) != Retr], Kf(r, a, m) == 0),
        ob("success-on-attempt-k:step", [outcome(a) == Retr, r < m, Kf(r + 1, a + 1, m) == k], Kf(r, a, m) == k + 1),
        ob("distributed-unfolding=sync-recurrence", [outcome(a) == Retr, r < m], z3.And(Kf(r, a, m) == 1 + Kf(r + 1, a + 1, m))),
    ]


def same_outcome_both_ways(ctx: RunCtx) -> BoundedResult:
    """Bounded stand-in: scripted task programs executed in sync mode and through a real thread runner on both stacks."""
    import threading
    import time as _t
    from pynenc.exceptions import RetryError
    from . import verif_tasks
    from .realapp import real_app
    thorough = ctx.tier == "thorough"
    res = BoundedResult("same_outcome_both_ways", "scripts over {ok, retriable, other}^<=3 x max_retries in {0,1,2}: executed in dev sync mode and through the "
                        "real ThreadRunner on the in-memory stack" + (" and the SQLite stack" if thorough else "") + "; compare outcome class, payload and body executions")
    import itertools
    scripts = [s for n in (1, 2, 3) for s in itertools.product("ork", repeat=n)]   # o=ok r=retriable k=other(kill)
    n = 0
    for backend in (("mem", "sqlite") if thorough else ("mem",)):
        for max_retries in (0, 1, 2):
            for script in scripts:
                if not thorough and len(script) == 3 and script[0] != "r":
                    continue
                n += 1
                results = {}
                for mode in ("sync", "dist"):
                    verif_tasks.SCRIPT[:] = list(script)
                    verif_tasks.CALLS[0] = 0
                    kw = {"dev_mode_force_sync_tasks": True} if mode == "sync" else {}
                    with real_app(backend, **kw) as app:
                        task = app.task(max_retries=max_retries, retry_for=(verif_tasks.Retriable,))(verif_tasks.scripted)
                        runner_thread = None
                        if mode == "dist":
                            from pynenc.runner.thread_runner import ThreadRunner
                            app.runner = ThreadRunner(app)
                            app.conf.runner_loop_sleep_time_sec = 0.01
                            runner_thread = threading.Thread(target=app.runner.run, daemon=True)
                            runner_thread.start()
                        try:
                            inv = task(7)
                            box = {}

                            def wait(inv=inv, box=box):
                                try:
                                    box["out"] = ("ok", inv.result)
                                except Exception as e:
                                    box["out"] = ("exc", type(e).__name__, e.args)
                            waiter = threading.Thread(target=wait, daemon=True)
                            waiter.start()
                            waiter.join(20)
                            out = box.get("out", ("no outcome within 20 s",))
                        finally:
                            if runner_thread is not None:
                                app.runner.stop_runner_loop()
                                runner_thread.join(10)
                        results[mode] = (out, verif_tasks.CALLS[0])
                if results["sync"] != results["dist"] and len(res.failures) < 10:
                    res.failures.append({"what": f"{backend} script={''.join(script)} max_retries={max_retries}: sync {results['sync']} != distributed {results['dist']}",
                                         "input": {"script": "".join(script), "max_retries": max_retries}, "finding_key": f"{backend}:outcome"})
    res.cases = n
    res.distinct = n
    res.samples = [{"script": "rro", "max_retries": 2, "expected": "value after 3 executions in both modes"}]
    return res


def group_programs_both_ways(ctx: RunCtx) -> BoundedResult:
    """Bounded stand-in for the part of the property the contracts do not reach: nested calls, parallelized groups (tuples, dicts,
    Arguments, common_args with per-call keys that differ, sizes around and across the batch size), direct tasks with and without
    parallel_func, retries and failures inside a group.  Every program is run in sync mode and through the real ThreadRunner; compared are
    the outcome (value, or exception type and arguments; a group's results as a multiset because the distributed group yields them as they
    finish) and the recorded body executions (how many, and with which arguments)."""
    import threading
    from . import verif_tasks as vt
    from .realapp import real_app
    thorough = ctx.tier == "thorough"
    threading.excepthook = lambda args: None      # runner threads re-raise the scripted failures of task bodies: keep stderr readable
    res = BoundedResult("group_programs_both_ways", "programs {nested single calls, nested group, groups of tuples / dicts / Arguments / dicts with common_args "
                        "and differing keys, batch sizes 1..5 x group sizes around multiples of them, 101" + ("/250" if thorough else "") + " calls with the default "
                        "batch size, direct task plain / parallel_func list / parallel_func (common_args, iter), retriable and fatal failures inside a group}: "
                        "sync mode vs real ThreadRunner on the in-memory stack" + (" and the SQLite stack" if thorough else "") +
                        "; outcome and recorded body executions compared")

    def programs():
        P = {}

        def leaf_of(app, **opts):
            t = app.task(max_retries=2, retry_for=(vt.Retriable,), **opts)(vt.g_leaf)
            vt.G_LEAF[0] = t
            return t
        P["nested-single"] = lambda app, tag: (leaf_of(app), app.task(vt.g_parent_single)(tag, 3).result)[1]
        P["nested-group"] = lambda app, tag: (leaf_of(app), app.task(vt.g_parent_group)(tag, 3).result)[1]
        P["group-tuples-3"] = lambda app, tag: sorted(leaf_of(app).parallelize([(tag, i) for i in range(3)]).results)
        P["group-dicts-3"] = lambda app, tag: sorted(leaf_of(app).parallelize([{"tag": tag, "i": i, "scale": i + 1} for i in range(3)]).results)
        P["group-arguments-2"] = lambda app, tag: (lambda t: sorted(t.parallelize([t.args(tag, i) for i in range(2)]).results))(leaf_of(app))
        P["group-common-args-differing-keys"] = lambda app, tag: sorted(leaf_of(app).parallelize(
            [{"i": 1, "scale": 10}, {"i": 2}, {"i": 3}], common_args={"tag": tag, "base": [1, 2, 3]}).results)
        P["group-common-args-differing-keys-later-override"] = lambda app, tag: sorted(leaf_of(app).parallelize(
            [{"i": 1}, {"i": 2, "base": [5]}, {"i": 3}, {"i": 4, "scale": 2}, {"i": 5}], common_args={"tag": tag, "base": [1, 2, 3]}).results)
        sizes = [(4, 10), (3, 10), (2, 5), (4, 8), (4, 9), (1, 3), (5, 11)]
        if thorough:
            sizes = [(b, n) for b in (1, 2, 3, 4, 5) for n in range(1, 13)]
        for b, n in sizes:
            P[f"group-batch{b}-n{n}"] = (lambda b, n: lambda app, tag: sorted(leaf_of(app, parallel_batch_size=b).parallelize([(tag, i) for i in range(n)]).results))(b, n)
        P["group-batch2-n5-common-args"] = lambda app, tag: sorted(leaf_of(app, parallel_batch_size=2).parallelize(
            [({"i": i, "scale": 10} if i % 2 else {"i": i}) for i in range(5)], common_args={"tag": tag, "base": [1]}).results)
        P["group-no-batching-n5"] = lambda app, tag: sorted(leaf_of(app, parallel_batch_size=0).parallelize([(tag, i) for i in range(5)]).results)
        for n in ((101, 250) if thorough else (101,)):
            P[f"group-default-batch-n{n}"] = (lambda n: lambda app, tag: sorted(leaf_of(app).parallelize([(tag, i) for i in range(n)]).results))(n)
        big = lambda ch: "a" * 100_000 + ch + "a" * 100_000        # same length, same head and tail, large enough for the client data store
        P["group-large-arguments-differing-in-the-middle"] = lambda app, tag: sorted(app.task(vt.g_blob).parallelize([(tag, big("X")), (tag, big("Y")), (tag, big("Z"))]).results)
        P["two-calls-large-arguments-differing-in-the-middle"] = lambda app, tag: (lambda t: (lambda a, b: [a.result, b.result])(t(tag, big("X")), t(tag, big("Y"))))(app.task(vt.g_blob))
        P["direct-plain"] = lambda app, tag: app.direct_task(max_retries=2, retry_for=(vt.Retriable,))(vt.g_direct)(tag, 5, 2)
        P["direct-parallel-tuples"] = lambda app, tag: app.direct_task(parallel_func=vt.g_fan_tuples, aggregate_func=lambda rs: sorted(rs))(vt.g_direct)(tag, n=4)
        P["direct-parallel-common-args"] = lambda app, tag: app.direct_task(parallel_func=vt.g_fan_common, aggregate_func=lambda rs: sum(rs))(vt.g_direct)(tag, n=7)
        P["direct-parallel-default-batch-n101"] = lambda app, tag: app.direct_task(parallel_func=vt.g_fan_common, aggregate_func=lambda rs: sum(rs))(vt.g_direct)(tag, n=101)
        return P
    scripts = {"group-tuples-3": [{}, {1: "r"}, {1: "rr", 2: "r"}, {1: "rrr"}, {0: "k"}, {2: "rk"}],
               "group-batch4-n10": [{}, {9: "r"}, {4: "rrr"}], "direct-plain": [{}, {5: "r"}, {5: "rrr"}, {5: "k"}],
               "direct-parallel-tuples": [{}, {3: "r"}, {0: "k"}], "nested-single": [{}, {4: "r"}, {5: "k"}]}
    n = 0
    names = list(programs())
    for backend in (("mem", "sqlite") if thorough else ("mem",)):
        for name in names:
            for script in scripts.get(name, [{}]):
                n += 1
                results = {}
                for mode in ("sync", "dist"):
                    tag = f"{name}:{mode}:{n}"
                    vt.G_SCRIPT.clear()
                    vt.G_SCRIPT.update(script)
                    kw = {"dev_mode_force_sync_tasks": True} if mode == "sync" else {}
                    with real_app(backend, **kw) as app:
                        runner_thread = None
                        if mode == "dist":
                            from pynenc.runner.thread_runner import ThreadRunner
                            app.runner = ThreadRunner(app)
                            app.conf.runner_loop_sleep_time_sec = 0.01
                            app.conf.invocation_wait_results_sleep_time_sec = 0.01
                            runner_thread = threading.Thread(target=app.runner.run, daemon=True)
                            runner_thread.start()
                        box = {}

                        def work(app=app, tag=tag, box=box):
                            try:
                                box["out"] = ("ok", programs()[name](app, tag))
                            except Exception as e:      # noqa: BLE001
                                box["out"] = ("exc", type(e).__name__, e.args)
                        try:
                            w = threading.Thread(target=work, daemon=True)
                            w.start()
                            w.join(60)
                            out = box.get("out", ("no outcome within 60 s",))
                            if mode == "dist" and out[0] == "exc":      # the other members of the group keep running: let them finish
                                import time as _t
                                last, stable = -1, 0
                                while stable < 6:
                                    _t.sleep(0.05)
                                    with vt.G_LOCK:
                                        cur = len(vt.G_CALLS.get(tag, []))
                                    last, stable = cur, (stable + 1 if cur == last else 0)
                        finally:
                            if runner_thread is not None:
                                app.runner.stop_runner_loop()
                                runner_thread.join(10)
                    with vt.G_LOCK:
                        execs = sorted(vt.G_CALLS.pop(tag, []))
                    results[mode] = (out, len(execs), execs if len(execs) <= 12 else execs[:3] + ["..."] + execs[-3:], execs)
                if (results["sync"][0], results["sync"][3]) != (results["dist"][0], results["dist"][3]) and len(res.failures) < 16:
                    missing = [e for e in results["sync"][3] if e not in results["dist"][3]][:3]
                    extra = [e for e in results["dist"][3] if e not in results["sync"][3]][:3]
                    import collections
                    cs, cd = collections.Counter(results["sync"][3]), collections.Counter(results["dist"][3])
                    lazy = results["sync"][0] == results["dist"][0] and results["sync"][0][0] == "exc" and not (cs - cd) and (cd - cs) and \
                        not ({e[0] for e in (cd - cs)} & {e[0] for e in cs})
                    # same exception both ways, sync mode ran a strict subset of the bodies: the members after the failing one were never executed
                    kind = "sync-group-skips-the-members-after-a-failing-one" if lazy else name
                    res.failures.append({"what": f"{backend} program={name} script={script}: sync outcome {str(results['sync'][0])[:160]} with {results['sync'][1]} body executions "
                                                 f"!= distributed {str(results['dist'][0])[:160]} with {results['dist'][1]}; executions only in sync mode: {missing}, only distributed: {extra}",
                                         "input": {"program": name, "script": {str(k): v for k, v in script.items()}, "backend": backend}, "finding_key": f"{backend}:{kind}"})
    res.cases = n
    res.distinct = n
    res.samples = [{"program": "group-common-args-differing-keys", "expected": "[8, 9, 70] and executions (1,10),(2,1),(3,1) in both modes"},
                   {"program": "group-batch4-n10", "expected": "10 results, 10 body executions in both modes"}]
    return res


def build(ctx: RunCtx) -> Prop:
    T, reg, G = setup(ctx)
    body_oracle(reg)
    task_shapes(T, reg)
    conc = conc_contract(T, reg)
    dist = dist_contract(T, reg, G)
    return Prop(
        pid=PID, title="ConcurrentInvocation.result = the retry recurrence F (recursive, with a decreasing measure); DistributedInvocation.run = one unfolding "
                       "of F per attempt; closed forms of F; task body starts only after the activation's own RUNNING request",
        level="proof", technique="contract-based deductive verification against a recursive spec function (AST->z3 VCs, body as an oracle per execution) and of the group construction functions against one specification of the j-th call + bounded sync/distributed comparison on the real runner",
        registry=reg, verify=[conc, dist, G["set_invocation_retry"], G["set_invocation_result"], G["set_invocation_exception"]],
        lemmas=[closed_forms], bounded=[same_outcome_both_ways, group_programs_both_ways],
        assumptions=GLUE_ASSUMPTIONS + ["the task body is an oracle outcome(a) per execution a: returns a payload, raises a retriable or another exception",
                                        "payload identity through storage/serialisation is C05/C15, not part of this proof",
                                        "the same retriable_exceptions tuple is used by both modes (Task.retriable_exceptions, one cached property)"],
        trusted_base=GLUE_TRUSTED + ["z3 recursive function definitions (RecFunction)"],
        not_decided="nested calls and direct-task wrappers are covered only by the bounded comparison; of parallelized groups the construction of the calls "
                    "(prepare_arguments, distribute_batch_calls) is proved, the collection of their results is bounded only.",
        min_obligations=30,
        # the calls a group is made of: sync mode / unbatched path (prepare_arguments) and batch path (distribute_batch_calls) against one specification
        # arguments travel through the client data store on the distributed side only: its reference key must address the whole content
        # (verified in the C15 module's registry), or two calls with large arguments run with each other's data
        parts=[("contracts.c19_groups", ["pynenc.task:prepare_arguments", "pynenc.task:distribute_batch_calls"]),
               ("contracts.c15", ["pynenc.client_data_store.base_client_data_store:_generate_key",
                                  "pynenc.client_data_store.base_client_data_store:BaseClientDataStore._maybe_store",
                                  "pynenc.client_data_store.base_client_data_store:BaseClientDataStore.resolve"])],
    )
