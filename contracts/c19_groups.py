"""C19, parallelized groups: the calls a group is made of are the same in sync mode and through the batch path.

`prepare_arguments` (what sync mode and the unbatched path use) and `distribute_batch_calls` (the batch path) are verified against one
specification of "the j-th call of the group": its own parameters on top of the common arguments, nothing carried over from the calls
before it, every position of the parameter list turned into exactly one routed call, in order.  Argument values are opaque (their
serialisation round trip is C15); a dict is a finite map from parameter names to such values."""
from __future__ import annotations

import z3

from pyvc.contract import Case, Contract, LoopSpec, Registry, Shape
from pyvc.prop import Prop, RunCtx
from pyvc.types import BOOL, INT, REAL, STR, Atom, MapT, ObjT, Opt, SeqT
from pyvc.values import NONE, OK, Val, mk_fresh

from .common import Types, base_registry

PID = "C19"
TK = "pynenc.task"
PV = Atom("PyValue")                 # an argument value, a tuple / dict / Arguments element of the parameter list
KW = MapT(STR, PV)                   # a dict of keyword arguments
OKW = Opt(KW)
ARGOBJ = Atom("ArgumentsObj")
CALL = Atom("PreSerializedCallObj")
INV = Atom("GroupInvocation")
GROUP = Atom("InvocationGroup")
SER = MapT(STR, STR)
TASKREF = Atom("TaskRef")

is_tuple = z3.Function("param_is_tuple", PV.sort(), z3.BoolSort())
is_dict = z3.Function("param_is_dict", PV.sort(), z3.BoolSort())
dict_of = z3.Function("param_as_dict", PV.sort(), KW.sort())
pv_of_dict = z3.Function("dict_as_value", KW.sort(), PV.sort())
args_of_tuple = z3.Function("task_args_of_positional", PV.sort(), ARGOBJ.sort())
args_of_kwargs = z3.Function("task_args_of_keywords", KW.sort(), ARGOBJ.sort())
args_of_obj = z3.Function("param_as_arguments", PV.sort(), ARGOBJ.sort())
kwargs_of = z3.Function("arguments_kwargs", ARGOBJ.sort(), PV.sort())
call_other = z3.Function("call_other_args", CALL.sort(), PV.sort())
call_common = z3.Function("call_common_args", CALL.sort(), OKW.sort())
call_preser = z3.Function("call_common_serialized_args", CALL.sort(), SER.sort())
mk_call = z3.Function("PreSerializedCall", PV.sort(), OKW.sort(), SER.sort(), CALL.sort())
inv_call = z3.Function("invocation_call", INV.sort(), CALL.sort())
group_invs = z3.Function("group_invocations", GROUP.sort(), SeqT(INV).sort())
ser_common = z3.Function("serialize_arguments", KW.sort(), SER.sort())


def merged(common, own):
    """common arguments as the base, the call's own parameters on top (pointwise map override)"""
    from pyvc.ops import map_override
    return map_override(common, own, KW)


def truthy_common(c_term):
    return z3.And(OKW.is_some(c_term), OKW.val(c_term) != KW.empty())


def spec_arguments(p, common):
    """the Arguments of the group's call built from parameter p (property text: every call gets the common arguments and its own parameters)"""
    return z3.If(is_tuple(p), args_of_tuple(p),
                 z3.If(is_dict(p), z3.If(truthy_common(common), args_of_kwargs(merged(OKW.val(common), dict_of(p))), args_of_kwargs(dict_of(p))),
                       args_of_obj(p)))


def contracts(T: Types, reg: Registry):
    reg.listcomp_pointwise = True
    reg.seq_pointwise_hints = True
    reg.isinstance_hooks = getattr(reg, "isinstance_hooks", {})
    reg.isinstance_hooks["PyValue"] = lambda v, names: (is_tuple(v.term) if names == ["tuple"] else is_dict(v.term) if names == ["dict"] else None)
    reg.axioms = list(getattr(reg, "axioms", [])) + [
        z3.ForAll([z3.Const("ap", PV.sort())], z3.Not(z3.And(is_tuple(z3.Const("ap", PV.sort())), is_dict(z3.Const("ap", PV.sort()))))),   # a value is not both a tuple and a dict
    ]
    reg.add_shape(Shape("GTaskConf", fields={"parallel_batch_size": INT, "disable_cache_args": Atom("DisableCacheArgs")}))
    reg.add_shape(Shape("GCDS", fields={}, abstract_methods={"serialize_arguments": "GCDS.serialize_arguments"}))
    reg.add(Contract(key="GCDS.serialize_arguments", shape="GCDS", params={"kwargs": OKW, "disable_cache_args": Atom("DisableCacheArgs")}, result=SER, frame=[],
                     assumed=True, check_invariants=False, effect_events=False,
                     cases=[Case("serialized", ensures=[("function-of-the-arguments", lambda c: c.result == ser_common(OKW.val(c.arg("kwargs"))))])],
                     note="client data store: one serialized string per argument (C15)"))
    reg.add_shape(Shape("GOrch", fields={}, abstract_methods={"route_calls": "GOrch.route_calls"}))

    def h_route(eng, st, recv, args, kwargs):
        calls = args[0]
        invs = mk_fresh(SeqT(INV), "routed")
        j = z3.Int("rj")
        st.assume(z3.Length(invs.term) == z3.Length(calls.term))
        st.assume(z3.ForAll([j], z3.Implies(z3.And(j >= 0, j < z3.Length(calls.term)), inv_call(invs.term[j]) == calls.term[j])))
        g = st.ghost["g:routed"]
        from pyvc import ops as _o
        from pyvc.values import fresh_name
        nw = z3.Const(fresh_name("routed"), g.ty.sort())
        st.assume(nw == z3.Concat(g.term, calls.term))
        _o.concat_hints(st, nw, g.term, calls.term)
        st.ghost["g:routed"] = Val(nw, g.ty)
        st.events.append({"ev": "route_calls", "calls": calls})
        return [(OK, st, invs)]
    reg.add(Contract(key="GOrch.route_calls", handler=h_route, assumed=True,
                     note="BaseOrchestrator.route_calls: one invocation per call, in order (C03/C08 glue contract); the ghost sequence g:routed records every routed call"))
    reg.add_shape(Shape("GApp", fields={"client_data_store": ObjT("GCDS"), "orchestrator": ObjT("GOrch")}))
    reg.add_shape(Shape("GTask", fields={"conf": ObjT("GTaskConf"), "app": ObjT("GApp")}, abstract_methods={"args": "GTask.args"}))

    def h_args(eng, st, recv, args, kwargs):
        # task.args(*params) / task.args(**kwargs): binding to the signature is a function of what is passed
        if not args and set(kwargs) == {"*"} and isinstance(kwargs["*"], Val) and kwargs["*"].ty == PV:
            return [(OK, st, Val(args_of_tuple(kwargs["*"].term), ARGOBJ))]
        if not args and set(kwargs) == {"**"} and isinstance(kwargs["**"], Val):
            m = kwargs["**"]
            if m.ty == PV:
                m = Val(dict_of(m.term), KW)
            if m.ty == KW or (isinstance(m.ty, MapT) and m.ty.key == STR and m.ty.val == PV):
                return [(OK, st, Val(args_of_kwargs(m.term), ARGOBJ))]
        from pyvc.ops import Unsupported
        raise Unsupported(f"task.args called with {args!r} {kwargs!r}")
    reg.add(Contract(key="GTask.args", handler=h_args, assumed=True, note="Task.args binds positional / keyword arguments to the signature: a function of them"))
    from pyvc import ops as _ops
    _ops.COERCIONS[("PyValue", "ArgumentsObj")] = args_of_obj
    reg.dict_views = {"PyValue": lambda v: Val(dict_of(v.term), KW)}
    reg.value_attrs = getattr(reg, "value_attrs", {})
    reg.value_attrs[("ArgumentsObj", "kwargs")] = lambda eng, st, base: Val(kwargs_of(base.term), PV)

    def h_psc(eng, st, recv, args, kwargs):
        oth, com, pre = kwargs["other_args"], kwargs["common_args"], kwargs["common_serialized_args"]
        from pyvc.ops import coerce
        c = Val(mk_call(oth.term, coerce(com, OKW).term, pre.term), CALL)      # a function of what it is given (it is built inside a comprehension)
        st.assume(z3.And(call_other(c.term) == oth.term, call_common(c.term) == coerce(com, OKW).term, call_preser(c.term) == pre.term))
        return [(OK, st, c)]
    for key in (f"{TK}:PreSerializedCall", "pynenc.call:PreSerializedCall"):
        reg.add(Contract(key=key, handler=h_psc, assumed=True, note="constructor: stores its arguments (pynenc/call.py)"))

    def h_group(eng, st, recv, args, kwargs):
        g = mk_fresh(GROUP, "group")
        st.assume(group_invs(g.term) == args[1].term)
        return [(OK, st, g)]
    for key in (f"{TK}:DistributedInvocationGroup", "pynenc.invocation.dist_invocation:DistributedInvocationGroup"):
        reg.add(Contract(key=key, handler=h_group, assumed=True, note="constructor: a group of exactly these invocations"))

    # ---- prepare_arguments as seen by its caller (proved below against the same clause)
    j = z3.Int("pj")
    prep_post = lambda c: z3.And(
        z3.Length(c.result) == z3.Length(c.arg("param_iter")),
        z3.ForAll([j], z3.Implies(z3.And(j >= 0, j < z3.Length(c.arg("param_iter"))), c.result[j] == spec_arguments(c.arg("param_iter")[j], c.arg("common_args")))))
    no_bad_mix = lambda c: z3.Or(z3.Not(truthy_common(c.arg("common_args"))),
                                 z3.ForAll([j], z3.Implies(z3.And(j >= 0, j < z3.Length(c.arg("param_iter"))), is_dict(c.arg("param_iter")[j]))))
    prep = Contract(
        key=f"{TK}:prepare_arguments", params={"task": ObjT("GTask"), "param_iter": SeqT(PV), "common_args": OKW}, result=SeqT(ARGOBJ),
        defaults={"common_args": lambda eng, st: NONE}, frame=[],
        cases=[
            Case("one-Arguments-per-parameter", when=no_bad_mix, ensures=[
                ("C19:the-j-th-call-gets-the-common-arguments-and-its-own-parameters-and-nothing-from-the-calls-before-it", prep_post)]),
            Case("common-args-with-a-non-dict-parameter", when=lambda c: z3.Not(no_bad_mix(c)), raises="ValueError"),
        ],
        loops={0: LoopSpec(modifies=[], inv=[
            ("result-so-far", lambda c: z3.And(
                z3.Length(c.v("result")) == c.x("i"),
                z3.ForAll([j], z3.Implies(z3.And(j >= 0, j < c.x("i")), c.v("result")[j] == spec_arguments(c.arg("param_iter")[j], c.arg("common_args")))),
                z3.Or(z3.Not(truthy_common(c.arg("common_args"))), z3.ForAll([j], z3.Implies(z3.And(j >= 0, j < c.x("i")), is_dict(c.arg("param_iter")[j])))))),
        ])}, properties=[PID])
    prep.local_types = {"result": SeqT(ARGOBJ)}
    reg.add(prep)

    # ---- distribute_batch_calls
    n = lambda c: z3.Length(c.arg("param_list"))
    expected = lambda c, jj: z3.If(truthy_common(c.arg("common_args")), c.arg("param_list")[jj],
                                   kwargs_of(spec_arguments(c.arg("param_list")[jj], OKW.none())))
    expected_pre = lambda c: z3.If(truthy_common(c.arg("common_args")), ser_common(OKW.val(c.arg("common_args"))), SER.empty())

    def call_ok(c, call, jj):
        return z3.And(call_other(call) == expected(c, jj), call_common(call) == c.arg("common_args"), call_preser(call) == expected_pre(c))
    mn = lambda a, b: z3.If(a <= b, a, b)
    batch = Contract(
        key=f"{TK}:distribute_batch_calls", params={"task": ObjT("GTask"), "param_list": SeqT(PV), "common_args": OKW}, result=GROUP,
        defaults={"common_args": lambda eng, st: NONE}, frame=[],
        requires=[("batching-is-enabled(parallel_batch_size > 0: _can_batch)", lambda c: c.f_task_conf_bs() > 0 if False else c.eng.heap_read(
            c.st, c.eng.heap_read(c.st, c.argv("task"), "conf"), "parallel_batch_size").term > 0),
            ("ghost:nothing-routed-at-entry", lambda c: c.g("g:routed") == SeqT(CALL).empty())],
        cases=[Case("routed", ensures=[
            ("C19:every-position-of-the-parameter-list-becomes-exactly-one-routed-call-in-order", lambda c: z3.And(
                z3.Length(c.g("g:routed")) == n(c),
                z3.ForAll([j], z3.Implies(z3.And(j >= 0, j < n(c)), call_ok(c, c.g("g:routed")[j], j))))),
            ("C19:the-group-holds-one-invocation-per-parameter-each-of-its-own-call", lambda c: z3.And(
                z3.Length(group_invs(c.result)) == n(c),
                z3.ForAll([j], z3.Implies(z3.And(j >= 0, j < n(c)), inv_call(group_invs(c.result)[j]) == c.g("g:routed")[j])))),
        ])],
        loops={0: LoopSpec(modifies=[], inv=[
            ("positions", lambda c: z3.And(c.x("i") >= 0, z3.Length(c.v("other_args")) == n(c), z3.Length(c.g("g:routed")) == mn(c.x("i"), n(c)),
                                           z3.Length(c.v("invocations")) == z3.Length(c.g("g:routed")))),
            ("routed-calls-are-the-parameters-so-far-in-order", lambda c: z3.ForAll([j], z3.Implies(z3.And(j >= 0, j < z3.Length(c.g("g:routed"))), z3.And(
                call_other(c.g("g:routed")[j]) == c.v("other_args")[j], call_common(c.g("g:routed")[j]) == c.arg("common_args"),
                call_preser(c.g("g:routed")[j]) == c.v("pre_serialized_args"))))),
            ("one-invocation-per-routed-call", lambda c: z3.ForAll([j], z3.Implies(z3.And(j >= 0, j < z3.Length(c.g("g:routed"))),
                                                                                 inv_call(c.v("invocations")[j]) == c.g("g:routed")[j]))),
        ])}, properties=[PID])
    batch.local_types = {"invocations": SeqT(INV), "pre_serialized_args": SER, "other_args": SeqT(PV)}
    batch.ghost_init = {"g:routed": SeqT(CALL)}
    reg.add(batch)
    return [prep, batch]


def build(ctx: RunCtx) -> Prop:
    T = Types(ctx.src)
    reg = base_registry(ctx.src, T)
    verify = contracts(T, reg)
    return Prop(pid=PID, title="group construction: prepare_arguments and distribute_batch_calls against one specification of the j-th call", level="proof",
                technique="contract-based deductive verification (AST->z3 VCs)", registry=reg, verify=verify, assumptions=[], trusted_base=[], min_obligations=1)
