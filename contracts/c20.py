"""C20 — monitoring pages only observe: a GET never changes the system."""
from __future__ import annotations

import z3

from pyvc.contract import Case, Contract, LoopSpec, Registry, Shape
from pyvc.effects import Handlers, component_effects
from pyvc.prop import BoundedResult, Prop, RunCtx
from pyvc.solve import Obligation
from pyvc.types import BOOL, INT, REAL, STR, Atom, ObjT, Opt, SeqT
from pyvc.values import NONE, OK, Val, mk_fresh

from . import world
from .c20_snapshot import snapshot_around_every_get
from .common import ID, Types, base_registry

PID = "C20"
COMPONENTS = {
    "broker": [("pynenc.broker.mem_broker", "MemBroker"), ("pynenc.broker.sqlite_broker", "SQLiteBroker")],
    "orchestrator": [("pynenc.orchestrator.mem_orchestrator", "MemOrchestrator"), ("pynenc.orchestrator.sqlite_orchestrator", "SQLiteOrchestrator")],
    "state_backend": [("pynenc.state_backend.mem_state_backend", "MemStateBackend"), ("pynenc.state_backend.sqlite_state_backend", "SQLiteStateBackend")],
    "trigger": [("pynenc.trigger.mem_trigger", "MemTrigger"), ("pynenc.trigger.sqlite_trigger", "SQLiteTrigger")],
    "client_data_store": [("pynenc.client_data_store.mem_client_data_store", "MemClientDataStore"),
                          ("pynenc.client_data_store.sqlite_client_data_store", "SQLiteClientDataStore")],
    "blocking_control": [("pynenc.orchestrator.mem_orchestrator", "MemBlockingControl"), ("pynenc.orchestrator.sqlite_orchestrator", "SQLiteBlockingControl")],
}
# domain objects whose methods the views (and the components) call: followed to the backend writes they can reach
OBJECTS = {"Pynenc": ("pynenc.app", "Pynenc"), "Task": ("pynenc.task", "Task"), "Call": ("pynenc.call", "Call"), "LazyCall": ("pynenc.call", "LazyCall"),
           "DistributedInvocation": ("pynenc.invocation.dist_invocation", "DistributedInvocation")}
# fields that are caches of what the backend would return anyway (not part of any abstract view)
CACHES = {"state_backend": ["_runner_context_cache", "_app_info_cache"], "client_data_store": ["_deserialized_cache", "_cache", "_lru"],
          "orchestrator": ["_blocking_control"]}


def effect_obligations(ctx: RunCtx):
    """One obligation per GET route: every backend method reachable from the handler (through pynmon helper functions) is `reads`."""
    eff0 = component_effects(ctx.src, COMPONENTS, CACHES)
    from pyvc.effects import ObjectGraph
    graph = ObjectGraph(ctx.src, OBJECTS, eff0, set(COMPONENTS))
    eff = component_effects(ctx.src, COMPONENTS, CACHES, graph=graph)      # second pass: calls that leave a component (Task.from_id, app.get_task, ...)
    h = Handlers(ctx.src)
    out = []
    # properties / methods of the domain objects the views read through (invocation.status, .num_retries, call.arguments, ...)
    from pyvc.effects import object_member_calls
    members = object_member_calls(ctx.src, [("pynenc.invocation.dist_invocation", "DistributedInvocation")], set(COMPONENTS) | {"runner"})
    # call identity / argument members are resolved by name only and collide with the lazily-deserialising LazyCall overrides
    # (which never serialise): they are left to the cache-field declaration rather than reported
    for ambiguous in ("call_id", "arguments", "args_id", "serialized_arguments", "to_dto", "__init__", "__eq__", "__hash__", "__call__"):
        members.pop(ambiguous, None)
    import ast as _ast
    routes = h.routes("get")
    for m, name, path in routes:
        if (m, name) == ("pynmon.views.broker", "queue_view"):
            continue   # the one handler that calls mutators on purpose: decided by its functional contract (queue unchanged on every exit)
        bad, seen, absent = [], set(), []
        for fm, fname in h.reachable(m, name):
            for desc, ln in h.edits_of_backend_values(h.funcs[(fm, fname)], fm, set(COMPONENTS)):
                bad.append(f"{desc} [{fm.split('.')[-1]}.{fname}:{ln}]")
            for role, meth, ln in h.component_calls(h.funcs[(fm, fname)], set(COMPONENTS), {r: set(eff[r]) for r in eff}):
                if (role, meth) in seen:
                    continue
                seen.add((role, meth))
                e = eff[role].get(meth)
                if e is None:
                    absent.append(f"{role}.{meth}")   # not defined by any in-repo implementation (plugin hook behind hasattr)
                elif e[0] != "reads":
                    bad.append(f"{role}.{meth} writes ({'; '.join(e[1][:2])}) [{fm.split('.')[-1]}.{fname}:{ln}]")
        for fm, fname in h.reachable(m, name):
            for alias, meth, ln in graph.calls_in(h.funcs[(fm, fname)]):
                if ("obj:" + alias, meth) in seen:
                    continue
                seen.add(("obj:" + alias, meth))
                why = graph.writes(alias, meth)
                if why:
                    bad.append(f"{alias}.{meth}() reaches a backend write ({why[0]}) [{fm.split('.')[-1]}.{fname}:{ln}]")
        for fm, fname in h.reachable(m, name):
            for node in _ast.walk(h.funcs[(fm, fname)]):
                if isinstance(node, _ast.Attribute) and node.attr in members and not node.attr.startswith("__") and \
                        not (isinstance(node.value, _ast.Name) and node.value.id in ("self", "request", "r", "response")):
                    for role, meth in members[node.attr]:
                        if (role, meth) in seen or role not in eff:
                            continue
                        seen.add((role, meth))
                        e = eff[role].get(meth)
                        if e is not None and e[0] != "reads":
                            bad.append(f".{node.attr} -> {role}.{meth} writes ({'; '.join(e[1][:2])}) [{fm.split('.')[-1]}.{fname}:{node.lineno}]")
        o = Obligation(name=f"{PID}/effects/GET {m.split('.')[-1]}{path}::{name}/reaches-only-reads-methods", kind="frame", pc=[],
                       goal=z3.BoolVal(not bad), function=f"{m}:{name}")
        o.status = "discharged" if not bad else "failed"
        o.backend = "ast-effect-analysis"
        o.detail = " | ".join(bad)[:600]
        o.extra = {"backend_calls": sorted(f"{r}.{me}" for r, me in seen), "absent_in_repo_backends": absent}
        out.append(o)
    # the analysis must have found the routes and must know the mutators (vacuity guard)
    sanity = [("route-table-enumerated", len(routes) >= 30), ("broker.retrieve_invocation-is-writes", eff["broker"]["retrieve_invocation"][0] == "writes"),
              ("orchestrator.auto_purge-is-writes", eff["orchestrator"]["auto_purge"][0] == "writes"),
              ("state_backend.set_result-is-writes", eff["state_backend"]["set_result"][0] == "writes"),
              ("orchestrator.get_invocation_status_record-is-reads", eff["orchestrator"]["get_invocation_status_record"][0] == "reads"),
              ("app.purge-reaches-a-backend-write", bool(graph.writes("Pynenc", "purge"))),
              ("app.register_deferred_triggers-reaches-a-backend-write", bool(graph.writes("Pynenc", "register_deferred_triggers"))),
              ("app.get_task-followed-into-Task.from_id-and-register_core_tasks", ("Task", "from_id") in graph.edges.get(("Pynenc", "get_task"), ()) and
               ("Pynenc", "register_core_tasks") in graph.edges.get(("Task", "from_id"), ()) and
               ("Pynenc", "_store_deferred_trigger") in graph.edges.get(("Pynenc", "task"), ()))]
    for n, ok in sanity:
        o = Obligation(name=f"{PID}/effects/sanity/{n}", kind="lemma", pc=[], goal=z3.BoolVal(ok), function="pyvc.effects")
        o.status, o.backend = ("discharged" if ok else "failed"), "ast-effect-analysis"
        out.append(o)
    return out


def queue_view_contract(T: Types, reg: Registry):
    """Functional contract of the one GET handler that calls mutators: the queue must be the same sequence on every exit."""
    world.add_world(T, reg)
    QT = SeqT(ID)
    OID = Opt(ID)
    # for this function the broker is seen through its *sequence* view (C08 contracts), order matters
    reg.add_shape(Shape("SeqBroker", fields={"queue": QT}, abstract_methods={
        "count_invocations": "SeqBroker.count_invocations", "retrieve_invocation": "SeqBroker.retrieve_invocation",
        "route_invocation": "SeqBroker.route_invocation"}))
    q, q0 = (lambda c: c.f("queue")), (lambda c: c.old("queue"))
    A = dict(assumed=True, check_invariants=False)
    reg.add(Contract(key="SeqBroker.count_invocations", shape="SeqBroker", params={}, result=INT, frame=[], effect_events=False,
                     cases=[Case("len", ensures=[("len", lambda c: c.result == z3.Length(q0(c)))])], **A))
    reg.add(Contract(key="SeqBroker.retrieve_invocation", shape="SeqBroker", params={}, result=OID, frame=["queue"], cases=[
        Case("empty", when=lambda c: z3.Length(q0(c)) == 0, ensures=[("none", lambda c: OID.is_none(c.result)), ("same", lambda c: q(c) == q0(c))]),
        Case("head", when=lambda c: z3.Length(q0(c)) > 0, ensures=[("head", lambda c: c.result == OID.some(q0(c)[0])),
                                                                    ("rest", lambda c: q(c) == z3.SubSeq(q0(c), 1, z3.Length(q0(c)) - 1))])], **A))
    reg.add(Contract(key="SeqBroker.route_invocation", shape="SeqBroker", params={"invocation_id": ID}, frame=["queue"],
                     cases=[Case("append", ensures=[("tail", lambda c: q(c) == z3.Concat(q0(c), z3.Unit(c.arg("invocation_id"))))])], **A))
    reg.add_shape(Shape("MonApp", fields={"broker": ObjT("SeqBroker"), "state_backend": ObjT("StateBackend"), "app_id": STR}))
    reg.add(Contract(key="pynmon.app:get_pynenc_instance", assumed=True, handler=lambda eng, st, recv, args, kwargs: [(OK, st, st.ghost["$root"])],
                     note="returns the monitored app"))

    class Templates(world.Native if hasattr(world, "Native") else object):
        pass
    from pyvc.values import BoundMeth, Native

    class TemplatesNative(Native):
        def vc_getattr(self, eng, st, name):
            return BoundMeth(self, name)

        def vc_call(self, eng, st, name, args, kwargs):
            return [(OK, st, mk_fresh(Atom("Response"), "resp"))]
    reg.natives["pynmon.app:templates"] = TemplatesNative()
    B = "broker.queue"
    contract = Contract(
        key="pynmon.views.broker:queue_view", params={"request": Atom("Request"), "limit": INT}, result=Atom("Response"),
        frame=[B],
        loops={
            0: LoopSpec(modifies=["queue"], inv=[
                ("drained-prefix", lambda c: z3.And(
                    c.f(B) == z3.SubSeq(c.old(B), c.x("i"), z3.Length(c.old(B)) - c.x("i")),
                    c.x("i") <= z3.Length(c.old(B)),
                    z3.Length(c.v("pending_invocations")) == c.x("i"),
                    z3.ForAll([z3.Int("pj")], z3.Implies(z3.And(z3.Int("pj") >= 0, z3.Int("pj") < c.x("i")),
                                                         T.Invocation.get(c.v("pending_invocations")[z3.Int("pj")], "invocation_id") == c.old(B)[z3.Int("pj")])))),
            ]),
            1: LoopSpec(modifies=["queue"], inv=[
                ("requeued-prefix", lambda c: c.f(B) == z3.Concat(
                    z3.SubSeq(c.old(B), z3.Length(c.x("seq")), z3.Length(c.old(B)) - z3.Length(c.x("seq"))),
                    z3.SubSeq(c.old(B), 0, c.x("i")))),
                ("pending-are-the-drained-prefix", lambda c: z3.And(
                    z3.Length(c.x("seq")) <= z3.Length(c.old(B)),
                    z3.ForAll([z3.Int("pj")], z3.Implies(z3.And(z3.Int("pj") >= 0, z3.Int("pj") < z3.Length(c.x("seq"))),
                                                         T.Invocation.get(c.x("seq")[z3.Int("pj")], "invocation_id") == c.old(B)[z3.Int("pj")])))),
            ]),
        },
        cases=[
            Case("page-covers-the-whole-queue-or-nothing", when=lambda c: z3.Or(c.arg("limit") <= 0, c.arg("limit") >= z3.Length(c.old(B))),
                 ensures=[("queue-unchanged(same ids, same order)", lambda c: c.f(B) == c.old(B))]),
            Case("page-smaller-than-the-queue", when=lambda c: z3.And(c.arg("limit") > 0, c.arg("limit") < z3.Length(c.old(B))),
                 ensures=[("queue-unchanged(same ids, same order)", lambda c: c.f(B) == c.old(B))]),
            Case("render-fails-on-a-queued-id-without-a-stored-record", raises="InvocationNotFoundError",
                 ensures=[("queue-unchanged(same ids, same order)", lambda c: c.f(B) == c.old(B))]),
        ], properties=[PID])
    contract.root_shape = "MonApp"
    contract.local_types = {"pending_invocations": SeqT(T.Invocation)}
    reg.add(contract)
    return [contract]


def replay_queue_view(ctx, ob):
    """Real monitor, real in-memory app: GET /broker/queue?limit=1 with three queued invocations rotates the queue; a queued id whose
    record was purged makes the request fail after the pops."""
    from fastapi.testclient import TestClient
    import pynmon.app as mon
    from .realapp import new_invocation, real_app
    failing = "raises" in ob["name"]
    with real_app("mem") as app:
        invs = [new_invocation(app).invocation_id for _ in range(3)]
        if failing:
            for attr in ("_cache", "_invocations"):
                d = getattr(app.state_backend, attr, None)
                if isinstance(d, dict):
                    d.pop(invs[1], None)
        before = list(app.broker._queue)
        mon.pynenc_instance = app
        if not getattr(mon, "_verif_routes_ready", False):
            mon.setup_routes()
            mon._verif_routes_ready = True
        try:
            client = TestClient(mon.app, raise_server_exceptions=False)
            r = client.get("/broker/queue", params={"limit": 5 if failing else 1})
            status = r.status_code
        except Exception as e:
            status = f"{type(e).__name__}"
        after = list(app.broker._queue)
        return {"confirmed": before != after, "input": {"queued": 3, "limit": 5 if failing else 1, "record_of_second_id_purged": failing},
                "observed": {"status": status, "queue_before": before, "queue_after": after}}


def build(ctx: RunCtx) -> Prop:
    T = Types(ctx.src)
    reg = base_registry(ctx.src, T)
    reg.T = T
    verify = queue_view_contract(T, reg)
    return Prop(
        pid=PID, title="every GET route of the monitor reaches only `reads` methods of the backends (effect classes computed from the real ASTs); "
                       "the one handler that calls mutators, queue_view, is checked against 'queue unchanged on every exit'",
        level="other", technique="effect/frame analysis over the real ASTs (call graph of every GET handler) + contract-based verification of queue_view over the C08 sequence contracts + bounded full read-out of the real backends around every GET of the real monitor",
        registry=reg, verify=verify, lemmas=[effect_obligations], bounded=[snapshot_around_every_get],
        replayers={"*queue_view*": replay_queue_view},
        assumptions=["FastAPI runs exactly the decorated function for a GET request; template rendering has no effect on the monitored app",
                     "cache fields (runner-context cache, deserialised-object LRU, lazily created blocking control) are not part of any observable view",
                     "CREATE TABLE/INDEX IF NOT EXISTS and PRAGMA statements are view-neutral; dynamic SQL text is resolved through local string assignments only",
                     "invocation objects are read through attributes that do not wait for results (no `.result` on a handler path)"],
        trusted_base=["pyvc effect analysis (/verif/pyvc/effects.py)", "pyvc VC generator", "z3 5.1"],
        not_decided="FastAPI/Starlette internals; effects hidden behind dynamic dispatch that the syntactic call graph cannot see: object-level calls are followed "
                    "only when the receiver's shape names the object (self, ...app, Task.x / Task(...), ...task, ...call, ...invocation); containers handed out by a "
                    "helper method (not by a field expression) are not tracked as aliases.",
        min_obligations=35,
    )
