"""C20, bounded part: a full read-out of the monitored app's backends before and after every GET of the real monitor.

Routes are enumerated from the FastAPI route table of pynmon; path and query parameters are generated per route from the
endpoint's signature (existing, missing and malformed ids, small and large limits, filters alone and combined); system states
are produced by operation histories on the real backends (queue longer than the page limit, every status, results, failures,
workflows, runner heartbeats, registered triggers, a queued id whose stored record is gone).  Bounded, never counted as proved."""
from __future__ import annotations

import collections
import datetime
import enum
import functools
import inspect
import itertools
import sqlite3
import threading

from pyvc.prop import BoundedResult, RunCtx

ROLES = ("broker", "orchestrator", "state_backend", "trigger", "client_data_store")
SKIP_ATTRS = {"app", "conf", "logger", "_logger", "_runner_context_cache", "_app_info_cache", "_deserialized_cache", "_cache", "_lru", "_blocking_control"}


def _cached_props(obj):
    out = set()
    for k in type(obj).__mro__:
        for n, v in vars(k).items():
            if isinstance(v, functools.cached_property):
                out.add(n)
    return out


def canon(x, depth=0, seen=None):
    seen = seen if seen is not None else set()
    if isinstance(x, enum.Enum):
        return f"{type(x).__name__}.{x.name}"
    if isinstance(x, (str, int, float, bool, type(None), bytes)):
        return x
    if isinstance(x, (datetime.datetime, datetime.date, datetime.timedelta)):
        return str(x)
    if depth > 10:
        return "<deep>"
    if isinstance(x, collections.OrderedDict):
        return ("odict", [(canon(k, depth + 1, seen), canon(v, depth + 1, seen)) for k, v in x.items()])
    if isinstance(x, dict):
        items = [(canon(k, depth + 1, seen), canon(v, depth + 1, seen)) for k, v in x.items()
                 if not (isinstance(x, collections.defaultdict) and isinstance(v, (set, list, dict, collections.deque)) and not v)]
        return ("dict", sorted(items, key=repr))
    if isinstance(x, (set, frozenset)):
        return ("set", sorted((canon(e, depth + 1, seen) for e in x), key=repr))
    if isinstance(x, (list, tuple, collections.deque)):
        return ("seq", [canon(e, depth + 1, seen) for e in x])
    if isinstance(x, (type(threading.Lock()), type(threading.RLock()), threading.Event, threading.Condition, threading.Thread)) or callable(x):
        return f"<{type(x).__name__}>"
    if hasattr(x, "invocation_id") and hasattr(x, "call"):
        return ("invocation", str(x.invocation_id), str(getattr(x, "parent_invocation_id", None)))
    if id(x) in seen:
        return "<cycle>"
    seen = seen | {id(x)}
    d = getattr(x, "__dict__", None)
    if d is None:
        slots = [s for k in type(x).__mro__ for s in getattr(k, "__slots__", ())]
        if slots:
            return ("obj", type(x).__name__, [(s, canon(getattr(x, s, None), depth + 1, seen)) for s in slots])
        return ("repr", type(x).__name__, repr(x)[:200] if " at 0x" not in repr(x) else type(x).__name__)
    skip = SKIP_ATTRS | _cached_props(x)
    return ("obj", type(x).__name__, [(k, canon(v, depth + 1, seen)) for k, v in sorted(d.items()) if k not in skip and not k.startswith("_lock")])


def snapshot(app, backend, db_path=None):
    if backend == "sqlite":
        out = {}
        with sqlite3.connect(db_path) as conn:
            tables = [r[0] for r in conn.execute("SELECT name FROM sqlite_master WHERE type='table' ORDER BY name")]
            for t in tables:
                if t == "sqlite_sequence":
                    continue                      # AUTOINCREMENT counters, not part of any view
                if "broker" in t.lower() and "queue" in t.lower():
                    cols = [c[1] for c in conn.execute(f'PRAGMA table_info("{t}")')]
                    idc = "invocation_id" if "invocation_id" in cols else cols[1]
                    out[t] = [r[0] for r in conn.execute(f'SELECT "{idc}" FROM "{t}" ORDER BY rowid')]    # the queue view: ids in order
                    continue
                try:
                    rows = conn.execute(f'SELECT rowid, * FROM "{t}" ORDER BY rowid').fetchall()
                except sqlite3.OperationalError:
                    rows = conn.execute(f'SELECT * FROM "{t}" ORDER BY 1').fetchall()
                out[t] = [tuple(c if not isinstance(c, bytes) else c.hex()[:64] for c in r) for r in rows]
        return out
    out = {}
    for role in ROLES:
        comp = getattr(app, "_" + role, None) or getattr(app, role)
        out[role] = canon(comp)
    bc = getattr(app.orchestrator, "_blocking_control", None)
    if bc is not None:
        out["blocking_control"] = canon(bc)
    return out


def queue_ids(comp):
    """the queue view out of a broker snapshot (in-memory: field _queue; SQLite: the id column in row order)"""
    if isinstance(comp, list):
        return comp
    if isinstance(comp, tuple) and comp and comp[0] == "obj":
        q = dict(comp[2]).get("_queue")
        if isinstance(q, tuple) and q[0] in ("seq", "odict"):
            return [e if not isinstance(e, tuple) else e[0] for e in q[1]]
    return None


def api_readout(app, ids):
    """what readers get through the public API (a cached object edited in place changes these while the storage stays the same)"""
    out = {}
    for i in ids.get("invocation", []):
        rec = []
        for name, f in (("status", lambda: app.orchestrator.get_invocation_status_record(i)), ("result", lambda: app.state_backend.get_result(i)),
                        ("exception", lambda: app.state_backend.get_exception(i)), ("history", lambda: [(h.status_record.status.name, h.runner_context_id) for h in app.state_backend.get_history(i)])):
            try:
                rec.append((name, canon(f())))
            except Exception as e:      # noqa: BLE001
                rec.append((name, "raises " + type(e).__name__))
        out[i] = rec
    try:
        out["active_runners"] = canon([(r.runner_id, r.last_heartbeat, getattr(r, "allow_to_run_atomic_service", None)) for r in app.orchestrator.get_active_runners()])
    except Exception as e:      # noqa: BLE001
        out["active_runners"] = "raises " + type(e).__name__
    return out


def diff(a, b):
    """short description of where two snapshots differ"""
    out = []
    for k in sorted(set(a) | set(b)):
        if a.get(k) != b.get(k):
            x, y = a.get(k), b.get(k)
            if isinstance(x, tuple) and x and x[0] == "obj" and isinstance(y, tuple):
                fx, fy = dict(x[2]), dict(y[2])
                for f in sorted(set(fx) | set(fy)):
                    if fx.get(f) != fy.get(f):
                        out.append(f"{k}.{f}: {str(fx.get(f))[:140]} -> {str(fy.get(f))[:140]}")
            elif isinstance(x, dict) and isinstance(y, dict):       # the API read-out: per invocation id
                for f in sorted(set(x) | set(y), key=str):
                    if x.get(f) != y.get(f):
                        out.append(f"{k}[{f}]: {str(x.get(f))[:160]} -> {str(y.get(f))[:160]}")
            else:
                sx, sy = (x or []), (y or [])
                gone = [r for r in sx if r not in sy][:2] if isinstance(sx, list) else sx
                new = [r for r in sy if r not in sx][:2] if isinstance(sy, list) else sy
                out.append(f"{k}: rows {len(sx)} -> {len(sy)}; gone {str(gone)[:160]}; new {str(new)[:160]}")
    return out


def get_routes(mon):
    out = []

    def walk(routes, prefix=""):
        for r in routes:
            if hasattr(r, "endpoint") and "GET" in (getattr(r, "methods", None) or ()):
                out.append((prefix + r.path, r.endpoint))
            elif hasattr(r, "original_router"):
                walk(r.original_router.routes, prefix + (getattr(r.original_router, "prefix", "") if not any(
                    getattr(x, "path", "").startswith(getattr(r.original_router, "prefix", "") or "\0") for x in r.original_router.routes) else ""))
            elif hasattr(r, "routes") and type(r).__name__ != "Mount":
                walk(r.routes, prefix)
    walk(mon.app.routes)
    return sorted(set(out), key=lambda t: t[0])


def build_state(app, backend, kind):
    """Operation histories on the real backends.  Returns a dict of ids to use as request parameters."""
    from pynenc.invocation.status import InvocationStatus as S
    from . import verif_tasks as vt
    from .realapp import new_invocation, runner_ctx, stored_invocation
    ids = {"invocation": [], "task": [], "call": [], "runner": [], "workflow": []}
    if kind == "empty":
        return ids
    R = runner_ctx("runner-live")
    app.orchestrator.register_runner_heartbeats(["runner-live"], can_run_atomic_service=True)
    try:
        app.state_backend.store_runner_context(R)          # the runner pages read the stored context
    except Exception:      # noqa: BLE001
        pass
    with_ctx = lambda f: f
    invs = [new_invocation(app, vt.add, x=i, y=1) for i in range(7)] + [new_invocation(app, vt.key_task, key=f"k{i}", other="o") for i in range(3)]
    claimed = list(app.orchestrator.get_invocations_to_run(4, R))          # 4 PENDING under the live runner
    for inv in claimed[:3]:
        app.orchestrator.set_invocation_status(inv.invocation_id, S.RUNNING, R)
    app.orchestrator.set_invocation_result(claimed[0], list(range(400)), R)      # a collection large enough to be stored through the client data store
    try:
        app.orchestrator.set_invocation_exception(claimed[1], vt.Other("boom"), R)
    except Exception:      # noqa: BLE001
        pass
    try:
        app.orchestrator.set_invocation_retry(claimed[2].invocation_id, vt.Retriable("again"), R)
    except Exception:      # noqa: BLE001
        pass
    ids["invocation"] = [i.invocation_id for i in invs]
    ids["task"] = [str(invs[0].task.task_id), str(invs[-1].task.task_id)]
    ids["task_key"] = [getattr(invs[0].task.task_id, "key", str(invs[0].task.task_id)), getattr(invs[-1].task.task_id, "key", str(invs[-1].task.task_id))]
    ids["call"] = [str(invs[0].call.call_id), str(invs[-1].call.call_id)]
    ids["call_key"] = [getattr(invs[0].call.call_id, "key", str(invs[0].call.call_id))]
    ids["runner"] = ["runner-live"]
    ids["workflow"] = [str(getattr(invs[0].workflow, "workflow_id", ""))]
    if kind == "inconsistent":
        # a queued id whose stored record is gone (partially purged store), and a stored invocation the orchestrator never saw
        victim = invs[6].invocation_id
        if backend == "mem":
            for attr in ("_invocations", "_cache"):
                d = getattr(app.state_backend, attr, None)
                if isinstance(d, dict):
                    d.pop(victim, None)
        else:
            from pynenc.util.sqlite_utils import create_sqlite_connection as sqlite_conn
            with sqlite_conn(app.state_backend.sqlite_db_path) as conn:
                for t in [r[0] for r in conn.execute("SELECT name FROM sqlite_master WHERE type='table'")]:
                    cols = [c[1] for c in conn.execute(f'PRAGMA table_info("{t}")')]
                    if "invocation_id" in cols and "state" in t.lower() or ("invocation_id" in cols and t.lower().endswith("invocations") and "orch" not in t.lower() and "broker" not in t.lower()):
                        conn.execute(f'DELETE FROM "{t}" WHERE invocation_id = ?', (victim,))
                conn.commit()
        ids["invocation"].append(stored_invocation(app, vt.add, x=99, y=1).invocation_id)
    if kind in ("busy", "inconsistent"):
        # a task with triggers whose definitions are registered (what a runner does at start-up)
        try:
            from pynenc.trigger.trigger_builder import TriggerBuilder
            tb = TriggerBuilder().on_cron("*/5 * * * *")
            t = app.task(triggers=tb)(vt.noop)
            app.trigger  # noqa: B018  the component exists from now on
            app.register_deferred_triggers()
        except Exception:      # noqa: BLE001
            pass
    return ids


def candidates(name, ann, ids, thorough):
    n = name.lower()
    core = "pynenc.core_tasks.recover_pending_invocations"
    if n in ("invocation_id", "inv_id", "parent_id"):
        return ids["invocation"][:2] + ids["invocation"][-2:] + ["no-such-invocation", "%20"]
    if n in ("task_id", "task_id_key", "task"):
        return ids["task"] + ids.get("task_key", []) + [core, "no.such.task", "malformed"]
    if n in ("call_id", "call_id_key", "call"):
        return ids["call"] + ids.get("call_key", []) + ["no-such-call"]
    if n in ("runner_id", "runner"):
        return ids["runner"] + ["no-such-runner"]
    if n in ("workflow_id", "workflow"):
        return ids["workflow"] + ["no-such-workflow"]
    if n in ("app_id",):
        return ["no-such-app"]
    if "limit" in n or n in ("per_page", "page_size", "size", "n", "count", "max_results", "top"):
        return [1, 2, 1000] + ([0, -1] if thorough else [])
    if n in ("page", "offset", "skip"):
        return [1, 2] + ([0, 99] if thorough else [])
    if "status" in n:
        return ["SUCCESS", "REGISTERED", "PENDING", "bogus", ""] + (["FAILED", "RUNNING", "RETRY"] if thorough else [])
    if ann is bool or ann == "bool":
        return [True, False]
    if ann is int or ann == "int":
        return [0, 1, 5]
    if ann is float:
        return [0.5, 60.0]
    return ["", "x"]


def requests_for(path, endpoint, ids, thorough, cap):
    sig = inspect.signature(endpoint)
    path_params = [seg[1:-1].split(":")[0] for seg in path.split("/") if seg.startswith("{")]
    query = [p for p in sig.parameters.values() if p.name not in path_params and p.name not in ("request", "req") and
             p.kind in (p.POSITIONAL_OR_KEYWORD, p.KEYWORD_ONLY)]
    pools = [[(pp, v) for v in candidates(pp, str, ids, thorough)] for pp in path_params]
    qpools = []
    for p in query:
        ann = p.annotation
        base = getattr(ann, "__args__", None)
        if base:
            ann = base[0]
        vals = candidates(p.name, ann, ids, thorough)
        qpools.append([(p.name, None)] + [(p.name, v) for v in vals])
    combos = []
    # every value of every parameter once (others at their first/default value), then pairs of query parameters (filters combined)
    firsts = [pool[0] for pool in pools]
    qdefault = [q[0] for q in qpools]
    for i, pool in enumerate(pools):
        for v in pool:
            combos.append((firsts[:i] + [v] + firsts[i + 1:], qdefault))
    for i, q in enumerate(qpools):
        for v in q[1:]:
            combos.append((firsts, qdefault[:i] + [v] + qdefault[i + 1:]))
    for (i, qa), (j, qb) in itertools.combinations(list(enumerate(qpools)), 2):
        for va in qa[1:4]:
            for vb in qb[1:4]:
                combos.append((firsts, [va if k == i else vb if k == j else qdefault[k] for k in range(len(qpools))]))
    if not combos:
        combos = [([], [])]
    seen, out = set(), []
    for pv, qv in combos:
        url = path
        for name, v in pv:
            url = url.replace("{" + name + "}", str(v)).replace("{" + name + ":path}", str(v))
        params = {k: v for k, v in qv if v is not None}
        key = (url, tuple(sorted((k, str(v)) for k, v in params.items())))
        if key not in seen:
            seen.add(key)
            out.append((url, params))
    return out[:cap]


def snapshot_around_every_get(ctx: RunCtx) -> BoundedResult:
    import logging
    from fastapi.testclient import TestClient
    import pynmon.app as mon
    from .realapp import real_app
    thorough = ctx.tier == "thorough"
    res = BoundedResult("snapshot_around_every_get", "every GET route of the real monitor (route table of pynmon.app) x generated path/query parameters "
                        "(existing / missing / malformed ids, limits 1, 2, 1000, status and task filters alone and combined, the id of a built-in task) x states "
                        "{empty, busy (queue longer than the page limit, every status, results, failures, heartbeats, registered triggers), inconsistent (queued id "
                        "without stored record, stored invocation unknown to the orchestrator)} x {in-memory, SQLite}: full read-out of all backends before and after "
                        "each request; a first dashboard visit precedes the requests (it instantiates every component of the monitored app)")
    if not getattr(mon, "_verif_routes_ready", False):
        mon.setup_routes()
        mon._verif_routes_ready = True
    logging.getLogger("pynmon").disabled = True
    routes = [(p, e) for p, e in get_routes(mon) if not p.startswith(("/openapi", "/docs", "/redoc", "/static"))]
    n, n_routes = 0, set()
    cap = 60 if thorough else 26
    import os, tempfile, shutil
    for backend in ("mem", "sqlite"):
        for kind in ("empty", "busy", "inconsistent"):
            if not thorough and backend == "sqlite" and kind == "empty":
                continue
            tmp = tempfile.mkdtemp(prefix="pyvc_c20_")
            db = os.path.join(tmp, "db.sqlite")
            try:
                with real_app(backend, db_path=db if backend == "sqlite" else None) as app:
                    ids = build_state(app, backend, kind)
                    mon.pynenc_instance = app
                    mon.all_pynenc_instances = {app.app_id: app}
                    client = TestClient(mon.app, raise_server_exceptions=False, follow_redirects=False)
                    client.get("/")                                   # first visit: instantiates the components it reads
                    app.orchestrator.blocking_control                 # noqa: B018  (created lazily on first use, then kept)
                    for path, endpoint in routes:
                        for url, params in requests_for(path, endpoint, ids, thorough, cap):
                            before = snapshot(app, backend, db)
                            before["api"] = api_readout(app, ids)
                            try:
                                r = client.get(url, params=params)
                                status = r.status_code
                            except Exception as e:      # noqa: BLE001
                                status = type(e).__name__
                            after = snapshot(app, backend, db)
                            after["api"] = api_readout(app, ids)
                            n += 1
                            n_routes.add(path)
                            if before != after and len(res.failures) < 12:
                                changed = [k for k in before if before[k] != after.get(k)]
                                cls = "changed"
                                if path.endswith("/queue") and len(changed) == 1 and "broker" in changed[0].lower():
                                    qa, qb = queue_ids(before[changed[0]]), queue_ids(after[changed[0]])
                                    if qa is not None and qb is not None:
                                        cls = "queue-rotated" if sorted(qa) == sorted(qb) else "queued-ids-dropped" if set(qb) < set(qa) and status == 500 else "changed"
                                res.failures.append({"what": f"{backend}/{kind}: GET {url} {params} (HTTP {status}) changed the system: " + " || ".join(diff(before, after))[:700],
                                                     "input": {"backend": backend, "state": kind, "url": url, "params": {k: str(v) for k, v in params.items()}},
                                                     "finding_key": f"{path}:{cls}"})
            finally:
                shutil.rmtree(tmp, ignore_errors=True)
    res.cases = n
    res.distinct = len(n_routes)
    res.samples = [{"GET": "/invocations/", "params": {"task_id": "<existing task>", "status": "SUCCESS"}}, {"GET": "/tasks/pynenc.core_tasks.recover_pending_invocations"}]
    return res
