"""Shared types, the frozen lifecycle spec, and native models used by several properties."""
from __future__ import annotations

import ast
import importlib
import json
import os
import re
import sys

import z3

from pyvc.contract import Case, Contract, LoopSpec, Registry, Shape
from pyvc.ops import Unsupported, coerce
from pyvc.source import Source
from pyvc.types import BOOL, DATETIME, INT, REAL, STR, Atom, Enum, MapT, ObjT, Opt, Record, SeqT, SetT, dd_set
from pyvc.values import NONE, OK, RAISE, ExcVal, Native, Val, boolval, fresh_name, mk_fresh

HERE = os.path.dirname(os.path.abspath(__file__))
SPEC = json.load(open(os.path.join(HERE, "..", "spec", "lifecycle.json")))

ID = Atom("Id")            # invocation ids: only equality / hashing / truthiness (non-empty by type invariant)
RUNNER = STR               # runner ids are strings; type invariant: non-empty
TASK = Atom("TaskId")
CALL = Atom("CallId")


def import_real(repo_root: str, modname: str):
    """Import a module of the tree under check (only used to read module-level *constants*)."""
    root = os.path.abspath(repo_root)
    if sys.path[0] != root:
        sys.path.insert(0, root)
    mod = importlib.import_module(modname)
    f = os.path.abspath(getattr(mod, "__file__", ""))
    if not f.startswith(root + os.sep):
        raise RuntimeError(f"{modname} was imported from {f}, not from the tree under check {root}")
    return mod


def enum_from_ast(src: Source, modname: str, clsname: str) -> Enum:
    cls = src.klass(modname, clsname)
    members, values = [], {}
    for node in cls.body:
        if isinstance(node, ast.Assign) and len(node.targets) == 1 and isinstance(node.targets[0], ast.Name):
            n = node.targets[0].id
            if n.startswith("_"):
                continue
            members.append(n)
            if isinstance(node.value, ast.Constant):
                values[n] = node.value.value
            elif isinstance(node.value, ast.Call):  # auto()
                values[n] = n.lower()
    e = Enum(clsname, members, values)
    e.pycls = (modname, clsname)
    return e


class Types:
    """Types shared by all contract modules, built from the tree under check."""

    def __init__(self, src: Source):
        self.src = src
        self.Status = enum_from_ast(src, "pynenc.invocation.status", "InvocationStatus")
        self.Record = Record("InvocationStatusRecord", [("status", self.Status), ("runner_id", Opt(RUNNER)), ("timestamp", DATETIME)])
        self.Record.pycls = ("pynenc.invocation.status", "InvocationStatusRecord")
        self.Record.defaults = {
            "runner_id": lambda eng, st: NONE,
            "timestamp": lambda eng, st: Val(eng.now(st).term, DATETIME),
        }
        self.CCType = enum_from_ast(src, "pynenc.conf.config_task", "ConcurrencyControlType")

    def S(self, name):
        return self.Status.const(name)

    def status_in(self, term, names):
        names = [n for n in names if n in self.Status.members]
        return z3.Or([term == self.S(n) for n in names] or [z3.BoolVal(False)])


def base_registry(src: Source, T: Types) -> Registry:
    reg = Registry()
    reg.enums["pynenc.invocation.status:InvocationStatus"] = T.Status
    reg.enums["pynenc.conf.config_task:ConcurrencyControlType"] = T.CCType
    reg.records["pynenc.invocation.status:InvocationStatusRecord"] = T.Record
    reg.dropped_calls.append(re.compile(r"^(time\.)?sleep$"))   # waiting has no effect on the state under contract
    # exception hierarchy from the real file
    mod = src.module("pynenc.exceptions")
    for node in mod.tree.body:
        if isinstance(node, ast.ClassDef):
            reg.exceptions[node.name] = [b.id if isinstance(b, ast.Name) else getattr(b, "attr", "?") for b in node.bases]
    return reg


# --------------------------------------------------------------------------- spec functions (independent of status.py)
def spec_edge(T: Types, frm_opt, to):
    """(from | START, to) is an edge of the frozen documented graph. frm_opt : Opt[Status] term."""
    os_ = Opt(T.Status)
    alts = []
    for a, b in SPEC["edges"]:
        if b not in T.Status.members or (a != "START" and a not in T.Status.members):
            continue
        lhs = os_.is_none(frm_opt) if a == "START" else frm_opt == os_.some(T.S(a))
        alts.append(z3.And(lhs, to == T.S(b)))
    return z3.Or(alts)


def spec_edge_st(T: Types, frm, to):
    alts = [z3.And(frm == T.S(a), to == T.S(b)) for a, b in SPEC["edges"]
            if a != "START" and a in T.Status.members and b in T.Status.members]
    return z3.Or(alts)


def spec_step_error(T: Types, cur, new, rid):
    """True iff the property says the request must be refused.
    cur : Opt[Record] term, new : Status term, rid : Opt[str] term."""
    orec, ostr, ost = Opt(T.Record), Opt(RUNNER), Opt(T.Status)
    has = orec.is_some(cur)
    rec = orec.val(cur)
    cur_status = T.Record.get(rec, "status")
    cur_owner = T.Record.get(rec, "runner_id")
    frm = z3.If(has, ost.some(cur_status), ost.none())
    no_edge = z3.Not(spec_edge(T, frm, new))
    not_owner = z3.And(has, T.status_in(cur_status, SPEC["owned"]), rid != cur_owner,
                       z3.Not(T.status_in(new, SPEC["recovery"])))
    # entering an ownership-acquiring status needs a runner id (docs: "requires a runner_id to acquire ownership")
    missing = z3.Or(ostr.is_none(rid), z3.Length(ostr.val(rid)) == 0)
    no_runner = z3.And(has, T.status_in(new, SPEC["acquires"]), missing, z3.Not(T.status_in(new, SPEC["recovery"])))
    return z3.Or(no_edge, not_owner, no_runner)


def spec_new_owner(T: Types, cur, new, rid):
    orec, ostr = Opt(T.Record), Opt(RUNNER)
    has = orec.is_some(cur)
    cur_owner = T.Record.get(orec.val(cur), "runner_id")
    return z3.If(T.status_in(new, SPEC["acquires"]), rid,
                 z3.If(T.status_in(new, SPEC["keeps_owner"]), z3.If(has, cur_owner, ostr.none()), ostr.none()))


def runner_id_ok(rid_opt):
    """Type invariant of runner ids: None or a non-empty string."""
    o = Opt(RUNNER)
    return z3.Or(o.is_none(rid_opt), z3.Length(o.val(rid_opt)) > 0)


# --------------------------------------------------------------------------- native model of status._CONFIG
class StatusDefNative(Native):
    def __init__(self, table, T: Types, key_term):
        self.table, self.T, self.key = table, T, key_term  # key: Opt[Status] term

    def _chain(self, attr, mk, default):
        os_ = Opt(self.T.Status)
        t = default
        for k, d in self.table.items():
            cond = os_.is_none(self.key) if k is None else self.key == os_.some(self.T.S(k.name))
            t = z3.If(cond, mk(getattr(d, attr)), t)
        return t

    def vc_getattr(self, eng, st, name):
        if name == "allowed_transitions":
            sty = SetT(self.T.Status)

            def mk(fs):
                s = sty.empty()
                for m in fs:
                    s = z3.Store(s, self.T.S(m.name), True)
                return s
            return Val(self._chain(name, mk, sty.empty()), sty)
        if name in ("is_final", "available_for_run", "requires_ownership", "acquires_ownership",
                    "releases_ownership", "overrides_ownership"):
            return Val(self._chain(name, lambda b: z3.BoolVal(bool(b)), z3.BoolVal(False)), BOOL)
        raise Unsupported(f"StatusDefinition.{name}")


class StatusConfigNative(Native):
    """`_CONFIG` is a module-level constant: its *value* is read from the imported module of
    the tree under check; functions that use it are taken from the AST."""

    def __init__(self, repo_root, T: Types):
        self.T = T
        mod = import_real(repo_root, "pynenc.invocation.status")
        self.table = dict(mod._CONFIG.definitions)
        self.mod = mod

    def _const_set(self, attr):
        sty = SetT(self.T.Status)
        s = sty.empty()
        for m in getattr(self.mod._CONFIG, attr):
            s = z3.Store(s, self.T.S(m.name), True)
        return Val(s, sty)

    def vc_getattr(self, eng, st, name):
        if name in ("final_statuses", "available_for_run_statuses", "ownership_required_statuses",
                    "ownership_acquire_statuses", "ownership_release_statuses"):
            return self._const_set(name)
        from pyvc.values import BoundMeth
        return BoundMeth(self, name)

    def vc_call(self, eng, st, name, args, kwargs):
        if name == "get_definition":
            k = args[0]
            os_ = Opt(self.T.Status)
            return [(OK, st, StatusDefNative(self.table, self.T, coerce(k, os_).term))]
        raise Unsupported(f"_CONFIG.{name}()")
