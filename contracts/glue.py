"""Contracts of the orchestration glue in BaseOrchestrator over the abstract world (world.py).

Each contract here is *verified* against the real method body (AST of base_orchestrator.py) with the
component calls replaced by the component contracts of world.py, and is in turn the summary used when
another glue function calls it.  Properties served: C02, C03, C05, C06, C07, C09, C10."""
from __future__ import annotations

import z3

from pyvc import ops
from pyvc.contract import Case, Contract, LoopSpec, Registry, Shape
from pyvc.types import BOOL, INT, REAL, STR, Atom, MapT, ObjT, Opt, SeqT, SetT
from pyvc.values import fresh_name

from . import world
from .common import ID, RUNNER, SPEC, Types, runner_id_ok, spec_new_owner, spec_step_error
from .world import BO, conf_of, known, owner_of, status_of

PAYLOAD = Atom("Payload")
SID = SetT(ID)

# paths of the abstract fields, relative to the orchestrator
REC, HIST, WAITED, EDGES, PURGE = "rec", "app.state_backend.hist", "blocking_control.waited", "blocking_control.edges_to", "purge_set"
RES, EXC, STORED, QUEUE, RETRIES, INDEXED = "app.state_backend.res", "app.state_backend.exc", "app.state_backend.stored", \
    "app.broker.queue", "retries", "indexed"
BC_ON = "app.orchestrator.conf.blocking_control"


def rid_some(c, name="runner_ctx"):
    T = c.eng.T
    return Opt(RUNNER).some(T.RunnerCtx.get(c.arg(name), "runner_id"))


def unchanged(*paths):
    return [(f"{p.split('.')[-1]}-unchanged", (lambda p: lambda c: c.f(p) == c.old(p))(p)) for p in paths]


def J5(T, rec, res, exc):
    """C05 invariant: an observable SUCCESS has its result stored, an observable FAILED its exception."""
    i = z3.Const(fresh_name("i"), ID.sort())
    return z3.ForAll([i], z3.Implies(known(T, rec, i), z3.And(
        z3.Implies(status_of(T, rec, i) == T.S("SUCCESS"), z3.Select(res, i)),
        z3.Implies(status_of(T, rec, i) == T.S("FAILED"), z3.Select(exc, i)))))


def owners_ok(T, rec):
    i = z3.Const(fresh_name("i"), ID.sort())
    return z3.ForAll([i], z3.Implies(known(T, rec, i), runner_id_ok(owner_of(T, rec, i))))


def ctx_ok(T, c, name="runner_ctx"):
    return z3.Length(T.RunnerCtx.get(c.arg(name), "runner_id")) > 0


def glue_contracts(T: Types, reg: Registry):
    world.add_world(T, reg)
    for shape in reg.shapes.values():
        pass
    reg.shapes["Orchestrator"].backrefs = [("app", "orchestrator")]
    rec_t = MapT(ID, T.Record)
    OREC = Opt(T.Record)
    hist_t, hist_get = T.hist_t, T.hist_get
    C = {}

    def cell(c, idname="invocation_id"):
        return z3.Select(c.old(REC), c.arg(idname))

    # ------------------------------------------------------------------ set_invocation_status
    def err(c):
        return spec_step_error(T, cell(c), c.arg("status"), rid_some(c))

    def new_rec(c):
        return rec_t.opt.val(z3.Select(c.f(REC), c.arg("invocation_id")))
    is_final = lambda c: T.status_in(c.arg("status"), SPEC["final"])
    all_fields = [REC, HIST, WAITED, EDGES, PURGE]
    C["set_invocation_status"] = Contract(
        key=f"{BO}:BaseOrchestrator.set_invocation_status", shape="Orchestrator",
        params={"invocation_id": ID, "status": T.Status, "runner_ctx": T.RunnerCtx},
        requires=[("runner-context-has-an-id", lambda c: ctx_ok(T, c)), ("stored-owners-ok", lambda c: owners_ok(T, c.f(REC)))],
        frame=all_fields,
        cases=[
            Case("unknown-id", when=lambda c: OREC.is_none(cell(c)), raises="KeyError", exact=True, ensures=unchanged(*all_fields)),
            Case("refused", when=lambda c: z3.And(OREC.is_some(cell(c)), err(c)), raises="InvocationStatusError", ensures=unchanged(*all_fields)),
            Case("accepted", when=lambda c: z3.And(OREC.is_some(cell(c)), z3.Not(err(c))), ensures=[
                ("C01:only-this-record-moves-along-the-spec", lambda c: z3.And(
                    c.f(REC) == z3.Store(c.old(REC), c.arg("invocation_id"), rec_t.opt.some(new_rec(c))),
                    T.Record.get(new_rec(c), "status") == c.arg("status"),
                    T.Record.get(new_rec(c), "runner_id") == spec_new_owner(T, cell(c), c.arg("status"), rid_some(c)),
                    runner_id_ok(T.Record.get(new_rec(c), "runner_id")))),
                ("C10:exactly-one-history-entry-with-the-returned-record-for-this-id", lambda c: c.f(HIST) == z3.Store(
                    c.old(HIST), c.arg("invocation_id"),
                    hist_t.opt.some(z3.Concat(hist_get(c.old(HIST), c.arg("invocation_id")), z3.Unit(new_rec(c)))))),
                ("C09:final-status-releases-the-waiters", lambda c: z3.Implies(z3.And(is_final(c), c.f(BC_ON)), z3.And(
                    c.f(WAITED) == z3.Store(c.old(WAITED), c.arg("invocation_id"), False),
                    z3.Not(MapT(ID, SID).opt.is_some(z3.Select(c.f(EDGES), c.arg("invocation_id"))))))),
                ("non-final-leaves-the-wait-graph", lambda c: z3.Implies(z3.Not(is_final(c)), z3.And(c.f(WAITED) == c.old(WAITED), c.f(EDGES) == c.old(EDGES)))),
            ]),
        ], properties=["C01", "C09", "C10"])

    # ------------------------------------------------------------------ set_invocation_result / exception (C05 ordering)
    def inv_id(c):
        return T.Invocation.get(c.arg("invocation"), "invocation_id")

    def cell_inv(c):
        return z3.Select(c.old(REC), inv_id(c))

    def j5(c):
        return J5(T, c.f(REC), c.f(RES), c.f(EXC))

    def final_case(target, store_path):
        def err_i(c):
            return spec_step_error(T, cell_inv(c), T.S(target), rid_some(c))
        return [
            Case("unknown-id", when=lambda c: OREC.is_none(cell_inv(c)), raises="KeyError", exact=True,
                 ensures=unchanged(REC) + [("J5", j5)]),
            Case("refused", when=lambda c: z3.And(OREC.is_some(cell_inv(c)), err_i(c)), raises="InvocationStatusError",
                 ensures=unchanged(REC) + [("J5", j5)]),
            Case("published", when=lambda c: z3.And(OREC.is_some(cell_inv(c)), z3.Not(err_i(c))), ensures=[
                ("outcome-stored", lambda c: z3.Select(c.f(store_path), inv_id(c))),
                ("status-published", lambda c: status_of(T, c.f(REC), inv_id(c)) == T.S(target)),
                ("only-this-record", lambda c: z3.ForAll([z3.Const("o", ID.sort())], z3.Implies(
                    z3.Const("o", ID.sort()) != inv_id(c), z3.Select(c.f(REC), z3.Const("o", ID.sort())) == z3.Select(c.old(REC), z3.Const("o", ID.sort()))))),
                ("J5", j5),
            ]),
        ]
    common_req = [("runner-context-has-an-id", lambda c: ctx_ok(T, c)), ("stored-owners-ok", lambda c: owners_ok(T, c.f(REC))),
                  ("J5-at-entry", j5)]
    C["set_invocation_result"] = Contract(
        key=f"{BO}:BaseOrchestrator.set_invocation_result", shape="Orchestrator",
        params={"invocation": T.Invocation, "result": PAYLOAD, "runner_ctx": T.RunnerCtx},
        requires=common_req, frame=all_fields + [RES], cases=final_case("SUCCESS", RES), properties=["C05"])
    C["set_invocation_exception"] = Contract(
        key=f"{BO}:BaseOrchestrator.set_invocation_exception", shape="Orchestrator",
        params={"invocation": T.Invocation, "exception": PAYLOAD, "runner_ctx": T.RunnerCtx},
        requires=common_req, frame=all_fields + [EXC], cases=final_case("FAILED", EXC), properties=["C05"])

    def step_j5(eng, st, label):
        from pyvc.engine import Ctx
        c = Ctx(eng, st, eng.self_ref, st.ghost.get("$args", {}))
        eng.oblige(st, J5(T, c.f(REC), c.f(RES), c.f(EXC)), f"step:{label}:C05:final-status-never-visible-before-its-outcome", "step")
    C["set_invocation_result"].step_hooks = [step_j5]
    C["set_invocation_exception"].step_hooks = [step_j5]
    glue_part2(T, reg, C)
    for c in C.values():
        reg.add(c)
    return C


# =========================================================================== part 2: claiming, concurrency control, routing
def avail(T, s):
    return T.status_in(s, SPEC["available"])


def Jid(T, rec, bag, i):
    """C03 no-stranding predicate for a registered id: final, or available and deliverable, or held by a runner
    that recovery will notice (PENDING: pending-timeout scan; RUNNING: dead-owner scan)."""
    s = status_of(T, rec, i)
    return z3.Or(T.status_in(s, SPEC["final"]),
                 z3.And(avail(T, s), z3.Select(bag, i) > 0),
                 z3.And(T.status_in(s, ["PENDING", "RUNNING"]), Opt(RUNNER).is_some(owner_of(T, rec, i))))


def Jall(T, rec, bag, extra=None):
    i = z3.Const(fresh_name("ji"), ID.sort())
    body = Jid(T, rec, bag, i)
    if extra is not None:
        body = z3.Or(body, extra(i))
    return z3.ForAll([i], z3.Implies(known(T, rec, i), body))


def bag_nonneg(bag):
    i = z3.Const(fresh_name("bn"), ID.sort())
    return z3.ForAll([i], z3.Select(bag, i) >= 0)


def registered_are_stored(T, rec, stored):
    i = z3.Const(fresh_name("rs"), ID.sort())
    return z3.ForAll([i], z3.Implies(known(T, rec, i), z3.Select(stored, i)))


def same_domain(T, rec, rec0):
    i = z3.Const(fresh_name("sd"), ID.sort())
    return z3.ForAll([i], known(T, rec, i) == known(T, rec0, i))


def held_by(T, rec, i, ctx_term):
    return z3.And(known(T, rec, i), status_of(T, rec, i) == T.S("PENDING"),
                  owner_of(T, rec, i) == Opt(RUNNER).some(T.RunnerCtx.get(ctx_term, "runner_id")))


def glue_part2(T: Types, reg: Registry, C: dict):
    rec_t = MapT(ID, T.Record)
    OREC, OSTR = Opt(T.Record), Opt(RUNNER)
    OKEYS = Opt(world.KEYS)
    CALL_MOD = "pynenc.call"
    T.keyproj = z3.Function("keyproj", T.CallRec.sort(), T.CCType.sort(), OKEYS.sort())
    CC = lambda m: T.CCType.const(m)

    # Call.serialized_args_for_concurrency_control on the call view: None/{} (no key filter) for DISABLED and TASK
    reg.add(Contract(
        key="CallView.serialized_args_for_concurrency_control", params={"self": T.CallRec, "concurrency_control": T.CCType}, result=OKEYS,
        cases=[Case("projection", ensures=[
            ("no-filter-for-DISABLED-and-TASK", lambda c: z3.Implies(z3.Or(c.arg("concurrency_control") == CC("DISABLED"), c.arg("concurrency_control") == CC("TASK")),
                                                                   OKEYS.is_none(c.result))),
            ("is-the-key-projection", lambda c: z3.Implies(z3.Not(z3.Or(c.arg("concurrency_control") == CC("DISABLED"), c.arg("concurrency_control") == CC("TASK"))),
                                                          c.result == T.keyproj(c.arg("self"), c.arg("concurrency_control")))),
        ])], assumed=True, effect_events=False,
        note="abstract view of Call.serialized_args_for_concurrency_control (verified per mode in C06 leaf contracts); None and {} are both 'no filter'"))
    T.CallRec.pycls = ("__view__", "CallView")
    reg.contracts["__view__:CallView.serialized_args_for_concurrency_control"] = reg.contracts["CallView.serialized_args_for_concurrency_control"]

    # ------------------------------------------------------------------ retry / reroute
    def err_to(c, target, idname="invocation_id"):
        return spec_step_error(T, z3.Select(c.old(REC), c.arg(idname)), T.S(target), rid_some(c))
    base_req = [("runner-context-has-an-id", lambda c: ctx_ok(T, c)), ("stored-owners-ok", lambda c: owners_ok(T, c.f(REC))),
                ("queue-counts-nonnegative", lambda c: bag_nonneg(c.f(QUEUE)))]
    all_fields = [REC, HIST, WAITED, EDGES, PURGE]
    C["set_invocation_retry"] = Contract(
        key=f"{BO}:BaseOrchestrator.set_invocation_retry", shape="Orchestrator",
        params={"invocation_id": ID, "exception": PAYLOAD, "runner_ctx": T.RunnerCtx}, requires=base_req,
        frame=all_fields + [RETRIES, QUEUE],
        cases=[
            Case("unknown-id", when=lambda c: OREC.is_none(z3.Select(c.old(REC), c.arg("invocation_id"))), raises="KeyError", exact=True,
                 ensures=unchanged(REC, QUEUE, RETRIES)),
            Case("refused", when=lambda c: z3.And(OREC.is_some(z3.Select(c.old(REC), c.arg("invocation_id"))), err_to(c, "RETRY")),
                 raises="InvocationStatusError", ensures=unchanged(REC, QUEUE, RETRIES)),
            Case("retry", when=lambda c: z3.And(OREC.is_some(z3.Select(c.old(REC), c.arg("invocation_id"))), z3.Not(err_to(c, "RETRY"))), ensures=[
                ("status-RETRY", lambda c: status_of(T, c.f(REC), c.arg("invocation_id")) == T.S("RETRY")),
                ("re-queued-once", lambda c: c.f(QUEUE) == z3.Store(c.old(QUEUE), c.arg("invocation_id"), z3.Select(c.old(QUEUE), c.arg("invocation_id")) + 1)),
                ("retry-counter-plus-one", lambda c: z3.Select(c.f(RETRIES), c.arg("invocation_id")) == MapT(ID, INT).opt.some(
                    z3.If(MapT(ID, INT).opt.is_some(z3.Select(c.old(RETRIES), c.arg("invocation_id"))),
                          MapT(ID, INT).opt.val(z3.Select(c.old(RETRIES), c.arg("invocation_id"))), 0) + 1)),
                ("C03:not-stranded", lambda c: Jid(T, c.f(REC), c.f(QUEUE), c.arg("invocation_id"))),
            ]),
        ], properties=["C03", "C19"])

    def can_reroute(c, i):
        """REROUTED is reachable from the current status for requester ctx (edge + ownership)."""
        return z3.And(known(T, c.f(REC), i), z3.Not(spec_step_error(T, z3.Select(c.f(REC), i), T.S("REROUTED"), rid_some(c))))

    def rerouted(c, S, rec0, bag0):
        i = z3.Const(fresh_name("rr"), ID.sort())
        return z3.ForAll([i], z3.And(
            z3.Implies(z3.Select(S, i), z3.And(known(T, c.f(REC), i), status_of(T, c.f(REC), i) == T.S("REROUTED"),
                                               OSTR.is_none(owner_of(T, c.f(REC), i)), z3.Select(c.f(QUEUE), i) >= z3.Select(bag0, i) + 1)),
            z3.Implies(z3.Not(z3.Select(S, i)), z3.And(z3.Select(c.f(REC), i) == z3.Select(rec0, i), z3.Select(c.f(QUEUE), i) == z3.Select(bag0, i)))))
    C["reroute_invocations"] = Contract(
        key=f"{BO}:BaseOrchestrator.reroute_invocations", shape="Orchestrator",
        params={"invocations_to_reroute": SID, "runner_ctx": T.RunnerCtx},
        requires=base_req + [("every-listed-id-can-move-to-REROUTED", lambda c: z3.ForAll(
            [z3.Const("q", ID.sort())], z3.Implies(z3.Select(c.arg("invocations_to_reroute"), z3.Const("q", ID.sort())), can_reroute(c, z3.Const("q", ID.sort())))))],
        frame=all_fields + [QUEUE],
        loops={0: LoopSpec(inv=[
            ("processed-are-REROUTED-and-queued-others-untouched", lambda c: rerouted(c, c.x("seen"), c.old(REC), c.old(QUEUE))),
            ("owners-ok", lambda c: owners_ok(T, c.f(REC))), ("bag-nonneg", lambda c: bag_nonneg(c.f(QUEUE))),
        ])},
        cases=[Case("rerouted", ensures=[
            ("C03:every-listed-id-REROUTED-unowned-and-queued-others-untouched", lambda c: rerouted(c, c.arg("invocations_to_reroute"), c.old(REC), c.old(QUEUE))),
        ])], properties=["C03", "C04", "C11"])

    # ------------------------------------------------------------------ concurrency-control authorisation
    ST_SEQ = SeqT(T.Status)

    def blocked_by_some(c, statuses_term):
        inv = c.arg("invocation")
        rc = conf_of(T, inv, "running_concurrency")
        key = T.keyproj(T.Invocation.get(inv, "call"), rc)
        no_filter = z3.Or(rc == CC("TASK"), OKEYS.is_none(key))
        j = z3.Const(fresh_name("bj"), ID.sort())
        same_task = world.task_of(T, j) == T.TaskRec.get(T.CallRec.get(T.Invocation.get(inv, "call"), "task"), "task_id")
        return z3.Exists([j], z3.And(known(T, c.f(REC), j), same_task, z3.Contains(statuses_term, z3.Unit(status_of(T, c.f(REC), j))),
                                     z3.Or(no_filter, z3.And(z3.Select(c.f(INDEXED), j), T.key_match(j, OKEYS.val(key))))))
    C["_is_authorize_by_concurrency_control"] = Contract(
        key=f"{BO}:BaseOrchestrator._is_authorize_by_concurrency_control", shape="Orchestrator",
        params={"invocation": T.Invocation, "statuses": ST_SEQ}, result=BOOL, frame=[],
        requires=[("task-view-consistent", lambda c: T.Invocation.get(c.arg("invocation"), "task") == T.CallRec.get(T.Invocation.get(c.arg("invocation"), "call"), "task"))],
        cases=[Case("authorisation", ensures=[
            ("C06:authorised-iff-disabled-or-no-same-key-invocation-in-the-statuses", lambda c: c.result == z3.Or(
                conf_of(T, c.arg("invocation"), "running_concurrency") == CC("DISABLED"), z3.Not(blocked_by_some(c, c.arg("statuses"))))),
        ])], properties=["C06"], effect_events=False)
    T.blocked_by_some = blocked_by_some
