"""Contracts of the orchestration glue in BaseOrchestrator over the abstract world (world.py).

Each contract here is *verified* against the real method body (AST of base_orchestrator.py) with the
component calls replaced by the component contracts of world.py, and is in turn the summary used when
another glue function calls it.  Properties served: C02, C03, C05, C06, C07, C09, C10."""
from __future__ import annotations

import z3

from pyvc import ops
from pyvc.contract import Case, Contract, LoopSpec, Registry, Shape
from pyvc.types import BOOL, INT, REAL, STR, Atom, MapT, ObjT, Opt, SeqT, SetT
from pyvc.values import Val, fresh_name

from . import world
from .common import ID, RUNNER, SPEC, Types, runner_id_ok, spec_new_owner, spec_step_error
from .world import BO, conf_of, known, owner_of, status_of

PAYLOAD = Atom("Payload")
SID = SetT(ID)

# paths of the abstract fields, relative to the orchestrator
REC, HIST, WAITED, EDGES, PURGE = "rec", "app.state_backend.hist", "blocking_control.waited", "blocking_control.edges_to", "purge_set"
RES, EXC, STORED, QUEUE, RETRIES, INDEXED = "app.state_backend.res", "app.state_backend.exc", "app.state_backend.stored", \
    "app.broker.queue", "retries", "indexed"
BC_ON = "app.orchestrator.conf.blocking_control"


def rid_some(c, name="runner_ctx"):
    T = c.eng.T
    return Opt(RUNNER).some(T.RunnerCtx.get(c.arg(name), "runner_id"))


def unchanged(*paths):
    return [(f"{p.split('.')[-1]}-unchanged", (lambda p: lambda c: c.f(p) == c.old(p))(p)) for p in paths]


def J5(T, rec, res, exc):
    """C05 invariant: an observable SUCCESS has its result stored, an observable FAILED its exception."""
    i = z3.Const(fresh_name("i"), ID.sort())
    return z3.ForAll([i], z3.Implies(known(T, rec, i), z3.And(
        z3.Implies(status_of(T, rec, i) == T.S("SUCCESS"), z3.Select(res, i)),
        z3.Implies(status_of(T, rec, i) == T.S("FAILED"), z3.Select(exc, i)))))


def owners_ok(T, rec):
    i = z3.Const(fresh_name("i"), ID.sort())
    return z3.ForAll([i], z3.Implies(known(T, rec, i), runner_id_ok(owner_of(T, rec, i))))


def ctx_ok(T, c, name="runner_ctx"):
    return z3.Length(T.RunnerCtx.get(c.arg(name), "runner_id")) > 0


def glue_contracts(T: Types, reg: Registry):
    world.add_world(T, reg)
    for shape in reg.shapes.values():
        pass
    reg.shapes["Orchestrator"].backrefs = [("app", "orchestrator")]
    rec_t = MapT(ID, T.Record)
    OREC = Opt(T.Record)
    hist_t, hist_get = T.hist_t, T.hist_get
    C = {}

    def cell(c, idname="invocation_id"):
        return z3.Select(c.old(REC), c.arg(idname))

    # ------------------------------------------------------------------ set_invocation_status
    def err(c):
        return spec_step_error(T, cell(c), c.arg("status"), rid_some(c))

    def no_edge(c):
        from .common import spec_edge
        ost = Opt(T.Status)
        return z3.Not(spec_edge(T, ost.some(T.Record.get(OREC.val(cell(c)), "status")), c.arg("status")))

    def new_rec(c):
        return rec_t.opt.val(z3.Select(c.f(REC), c.arg("invocation_id")))
    is_final = lambda c: T.status_in(c.arg("status"), SPEC["final"])
    all_fields = [REC, HIST, WAITED, EDGES, PURGE]
    C["set_invocation_status"] = Contract(
        key=f"{BO}:BaseOrchestrator.set_invocation_status", shape="Orchestrator",
        params={"invocation_id": ID, "status": T.Status, "runner_ctx": T.RunnerCtx},
        requires=[("runner-context-has-an-id", lambda c: ctx_ok(T, c)), ("stored-owners-ok", lambda c: owners_ok(T, c.f(REC)))],
        frame=all_fields,
        cases=[
            Case("unknown-id", when=lambda c: OREC.is_none(cell(c)), raises="KeyError", exact=True, ensures=unchanged(*all_fields)),
            # the state machine validates the edge first, then ownership: the class of the status error is determined
            Case("refused-no-such-edge", when=lambda c: z3.And(OREC.is_some(cell(c)), err(c), no_edge(c)), raises="InvocationStatusTransitionError",
                 exact=True, ensures=unchanged(*all_fields),
                 exc_fields={"from_status": lambda c: Val(Opt(T.Status).some(T.Record.get(OREC.val(cell(c)), "status")), Opt(T.Status))}),
            Case("refused-not-the-owner", when=lambda c: z3.And(OREC.is_some(cell(c)), err(c), z3.Not(no_edge(c))), raises="InvocationStatusOwnershipError",
                 exact=True, ensures=unchanged(*all_fields)),
            Case("accepted", when=lambda c: z3.And(OREC.is_some(cell(c)), z3.Not(err(c))), ensures=[
                ("C01:only-this-record-moves-along-the-spec", lambda c: z3.And(
                    c.f(REC) == z3.Store(c.old(REC), c.arg("invocation_id"), rec_t.opt.some(new_rec(c))),
                    T.Record.get(new_rec(c), "status") == c.arg("status"),
                    T.Record.get(new_rec(c), "runner_id") == spec_new_owner(T, cell(c), c.arg("status"), rid_some(c)),
                    runner_id_ok(T.Record.get(new_rec(c), "runner_id")))),
                ("C10:exactly-one-history-entry-with-the-returned-record-for-this-id", lambda c: c.f(HIST) == z3.Store(
                    c.old(HIST), c.arg("invocation_id"),
                    hist_t.opt.some(z3.Concat(hist_get(c.old(HIST), c.arg("invocation_id")), z3.Unit(new_rec(c)))))),
                ("C09:final-status-releases-the-waiters", lambda c: z3.Implies(z3.And(is_final(c), c.f(BC_ON)), z3.And(
                    c.f(WAITED) == z3.Store(c.old(WAITED), c.arg("invocation_id"), False),
                    z3.Not(MapT(ID, SID).opt.is_some(z3.Select(c.f(EDGES), c.arg("invocation_id"))))))),
                ("non-final-leaves-the-wait-graph", lambda c: z3.Implies(z3.Not(is_final(c)), z3.And(c.f(WAITED) == c.old(WAITED), c.f(EDGES) == c.old(EDGES)))),
            ]),
        ], properties=["C01", "C09", "C10"])

    # ------------------------------------------------------------------ set_invocation_result / exception (C05 ordering)
    def inv_id(c):
        return T.Invocation.get(c.arg("invocation"), "invocation_id")

    def cell_inv(c):
        return z3.Select(c.old(REC), inv_id(c))

    def j5(c):
        return J5(T, c.f(REC), c.f(RES), c.f(EXC))

    def final_case(target, store_path):
        def err_i(c):
            return spec_step_error(T, cell_inv(c), T.S(target), rid_some(c))
        return [
            Case("unknown-id", when=lambda c: OREC.is_none(cell_inv(c)), raises="KeyError", exact=True,
                 ensures=unchanged(REC) + [("J5", j5)]),
            Case("refused", when=lambda c: z3.And(OREC.is_some(cell_inv(c)), err_i(c)), raises="InvocationStatusError",
                 ensures=unchanged(REC) + [("J5", j5)]),
            Case("storage-fault", raises="Exception", ensures=[
                ("a-failed-outcome-write-publishes-nothing", lambda c: c.f(REC) == c.old(REC)), ("J5", j5)]),
            Case("published", when=lambda c: z3.And(OREC.is_some(cell_inv(c)), z3.Not(err_i(c))), ensures=[
                ("outcome-stored", lambda c: z3.Select(c.f(store_path), inv_id(c))),
                ("status-published", lambda c: z3.And(status_of(T, c.f(REC), inv_id(c)) == T.S(target), known(T, c.f(REC), inv_id(c)),
                                                      Opt(RUNNER).is_none(owner_of(T, c.f(REC), inv_id(c))))),
                ("only-this-record", lambda c: z3.ForAll([z3.Const("o", ID.sort())], z3.Implies(
                    z3.Const("o", ID.sort()) != inv_id(c), z3.Select(c.f(REC), z3.Const("o", ID.sort())) == z3.Select(c.old(REC), z3.Const("o", ID.sort()))))),
                ("J5", j5),
            ]),
        ]
    common_req = [("runner-context-has-an-id", lambda c: ctx_ok(T, c)), ("stored-owners-ok", lambda c: owners_ok(T, c.f(REC))),
                  ("J5-at-entry", j5)]
    C["set_invocation_result"] = Contract(
        key=f"{BO}:BaseOrchestrator.set_invocation_result", shape="Orchestrator",
        params={"invocation": T.Invocation, "result": PAYLOAD, "runner_ctx": T.RunnerCtx},
        requires=common_req, frame=all_fields + [RES], cases=final_case("SUCCESS", RES), properties=["C05"])
    C["set_invocation_exception"] = Contract(
        key=f"{BO}:BaseOrchestrator.set_invocation_exception", shape="Orchestrator",
        params={"invocation": T.Invocation, "exception": PAYLOAD, "runner_ctx": T.RunnerCtx},
        requires=common_req, frame=all_fields + [EXC], cases=final_case("FAILED", EXC), properties=["C05"])

    def step_j5(eng, st, label):
        from pyvc.engine import Ctx
        c = Ctx(eng, st, eng.self_ref, st.ghost.get("$args", {}))
        eng.oblige(st, J5(T, c.f(REC), c.f(RES), c.f(EXC)), f"step:{label}:C05:final-status-never-visible-before-its-outcome", "step")
    C["set_invocation_result"].step_hooks = [step_j5]
    C["set_invocation_exception"].step_hooks = [step_j5]
    glue_part2(T, reg, C)
    # ------------------------------------------------------------------ declaring a wait (C09): every awaited id is recorded, whatever its status
    from pyvc.types import SeqT
    OID = Opt(ID)
    SID_ = SetT(ID)
    awaited = lambda c: c.arg("result_invocation_ids")          # the list of awaited ids through its element set (deviation 2)
    declared = lambda c: z3.And(c.arg("result_invocation_ids") != SID_.empty(), c.f("conf.blocking_control"), OID.is_some(c.arg("caller_invocation_id")))
    C["waiting_for_results"] = Contract(
        key=f"{BO}:BaseOrchestrator.waiting_for_results", shape="Orchestrator",
        params={"caller_invocation_id": OID, "result_invocation_ids": SID_}, frame=[WAITED, EDGES],
        cases=[
            Case("declared", when=declared, ensures=[
                ("C09:every-awaited-invocation-is-recorded-as-waited-on(picked up already or not)", lambda c: c.f(WAITED) == ops.set_union(c.old(WAITED), awaited(c)))]),
            Case("nothing-to-declare", when=lambda c: z3.Not(declared(c)), ensures=unchanged(WAITED, EDGES)),
        ], properties=["C09"])
    for c in C.values():
        reg.add(c)
    return C


# =========================================================================== part 2: claiming, concurrency control, routing
def avail(T, s):
    return T.status_in(s, SPEC["available"])


def Jid(T, rec, bag, i):
    """C03 no-stranding predicate for a registered id: final, or available and deliverable, or held by a runner
    that recovery will notice (PENDING: pending-timeout scan; RUNNING: dead-owner scan)."""
    s = status_of(T, rec, i)
    return z3.Or(T.status_in(s, SPEC["final"]),
                 z3.And(avail(T, s), z3.Select(bag, i) > 0),
                 z3.And(T.status_in(s, ["PENDING", "RUNNING"]), Opt(RUNNER).is_some(owner_of(T, rec, i))))


def Jall(T, rec, bag, extra=None):
    i = z3.Const(fresh_name("ji"), ID.sort())
    body = Jid(T, rec, bag, i)
    if extra is not None:
        body = z3.Or(body, extra(i))
    return z3.ForAll([i], z3.Implies(known(T, rec, i), body))


def bag_nonneg(bag):
    i = z3.Const(fresh_name("bn"), ID.sort())
    return z3.ForAll([i], z3.Select(bag, i) >= 0)


def registered_are_stored(T, rec, stored):
    i = z3.Const(fresh_name("rs"), ID.sort())
    return z3.ForAll([i], z3.Implies(known(T, rec, i), z3.Select(stored, i)))


def same_domain(T, rec, rec0):
    i = z3.Const(fresh_name("sd"), ID.sort())
    return z3.ForAll([i], known(T, rec, i) == known(T, rec0, i))


def held_by(T, rec, i, ctx_term):
    return z3.And(known(T, rec, i), status_of(T, rec, i) == T.S("PENDING"),
                  owner_of(T, rec, i) == Opt(RUNNER).some(T.RunnerCtx.get(ctx_term, "runner_id")))


def glue_part2(T: Types, reg: Registry, C: dict):
    rec_t = MapT(ID, T.Record)
    OREC, OSTR = Opt(T.Record), Opt(RUNNER)
    OKEYS = Opt(world.KEYS)
    CALL_MOD = "pynenc.call"
    T.keyproj = z3.Function("keyproj", T.CallRec.sort(), T.CCType.sort(), OKEYS.sort())
    CC = lambda m: T.CCType.const(m)

    # Call.serialized_args_for_concurrency_control on the call view: None/{} (no key filter) for DISABLED and TASK
    reg.add(Contract(
        key="CallView.serialized_args_for_concurrency_control", params={"self": T.CallRec, "concurrency_control": T.CCType}, result=OKEYS,
        cases=[Case("projection", ensures=[
            ("no-filter-for-DISABLED-and-TASK", lambda c: z3.Implies(z3.Or(c.arg("concurrency_control") == CC("DISABLED"), c.arg("concurrency_control") == CC("TASK")),
                                                                   OKEYS.is_none(c.result))),
            ("is-the-key-projection", lambda c: z3.Implies(z3.Not(z3.Or(c.arg("concurrency_control") == CC("DISABLED"), c.arg("concurrency_control") == CC("TASK"))),
                                                          c.result == T.keyproj(c.arg("self"), c.arg("concurrency_control")))),
        ])], assumed=True, effect_events=False,
        note="abstract view of Call.serialized_args_for_concurrency_control (verified per mode in C06 leaf contracts); None and {} are both 'no filter'"))
    T.CallRec.pycls = ("__view__", "CallView")
    reg.contracts["__view__:CallView.serialized_args_for_concurrency_control"] = reg.contracts["CallView.serialized_args_for_concurrency_control"]

    # ------------------------------------------------------------------ retry / reroute
    def err_to(c, target, idname="invocation_id"):
        return spec_step_error(T, z3.Select(c.old(REC), c.arg(idname)), T.S(target), rid_some(c))
    base_req = [("runner-context-has-an-id", lambda c: ctx_ok(T, c)), ("stored-owners-ok", lambda c: owners_ok(T, c.f(REC))),
                ("queue-counts-nonnegative", lambda c: bag_nonneg(c.f(QUEUE)))]
    all_fields = [REC, HIST, WAITED, EDGES, PURGE]
    C["set_invocation_retry"] = Contract(
        key=f"{BO}:BaseOrchestrator.set_invocation_retry", shape="Orchestrator",
        params={"invocation_id": ID, "exception": PAYLOAD, "runner_ctx": T.RunnerCtx}, requires=base_req,
        frame=all_fields + [RETRIES, QUEUE],
        cases=[
            Case("unknown-id", when=lambda c: OREC.is_none(z3.Select(c.old(REC), c.arg("invocation_id"))), raises="KeyError", exact=True,
                 ensures=unchanged(REC, QUEUE, RETRIES)),
            Case("refused", when=lambda c: z3.And(OREC.is_some(z3.Select(c.old(REC), c.arg("invocation_id"))), err_to(c, "RETRY")),
                 raises="InvocationStatusError", ensures=unchanged(REC, QUEUE, RETRIES)),
            Case("retry", when=lambda c: z3.And(OREC.is_some(z3.Select(c.old(REC), c.arg("invocation_id"))), z3.Not(err_to(c, "RETRY"))), ensures=[
                ("status-RETRY", lambda c: z3.And(status_of(T, c.f(REC), c.arg("invocation_id")) == T.S("RETRY"), known(T, c.f(REC), c.arg("invocation_id")),
                                                  OSTR.is_none(owner_of(T, c.f(REC), c.arg("invocation_id"))))),
                ("only-this-record", lambda c: z3.ForAll([z3.Const("o", ID.sort())], z3.Implies(
                    z3.Const("o", ID.sort()) != c.arg("invocation_id"), z3.Select(c.f(REC), z3.Const("o", ID.sort())) == z3.Select(c.old(REC), z3.Const("o", ID.sort()))))),
                ("re-queued-once", lambda c: c.f(QUEUE) == z3.Store(c.old(QUEUE), c.arg("invocation_id"), z3.Select(c.old(QUEUE), c.arg("invocation_id")) + 1)),
                ("retry-counter-plus-one", lambda c: z3.Select(c.f(RETRIES), c.arg("invocation_id")) == MapT(ID, INT).opt.some(
                    z3.If(MapT(ID, INT).opt.is_some(z3.Select(c.old(RETRIES), c.arg("invocation_id"))),
                          MapT(ID, INT).opt.val(z3.Select(c.old(RETRIES), c.arg("invocation_id"))), 0) + 1)),
                ("C03:not-stranded", lambda c: Jid(T, c.f(REC), c.f(QUEUE), c.arg("invocation_id"))),
            ]),
        ], properties=["C03", "C19"])

    def step_retry_order(eng, st, label):
        """C19: the invocation must not be deliverable again before its retry counter is written (a runner that picks it up at once would
        compare the old counter with max_retries and grant one execution too many)"""
        from pyvc.engine import Ctx
        c = Ctx(eng, st, eng.self_ref, st.ghost.get("$args", {}))
        i = c.arg("invocation_id")
        r_t = MapT(ID, INT)
        old_r = z3.If(r_t.opt.is_some(z3.Select(c.old(RETRIES), i)), r_t.opt.val(z3.Select(c.old(RETRIES), i)), 0)
        eng.oblige(st, z3.Implies(z3.Select(c.f(QUEUE), i) > z3.Select(c.old(QUEUE), i), z3.Select(c.f(RETRIES), i) == r_t.opt.some(old_r + 1)),
                   f"step:{label}:C19:re-queued-only-after-the-retry-counter-is-written", "step")
    C["set_invocation_retry"].step_hooks = [step_retry_order]

    def can_reroute(c, i):
        """REROUTED is reachable from the current status for requester ctx (edge + ownership)."""
        return z3.And(known(T, c.f(REC), i), z3.Not(spec_step_error(T, z3.Select(c.f(REC), i), T.S("REROUTED"), rid_some(c))))

    def rerouted(c, S, rec0, bag0):
        i = z3.Const(fresh_name("rr"), ID.sort())
        return z3.ForAll([i], z3.And(
            z3.Implies(z3.Select(S, i), z3.And(known(T, c.f(REC), i), status_of(T, c.f(REC), i) == T.S("REROUTED"),
                                               OSTR.is_none(owner_of(T, c.f(REC), i)), z3.Select(c.f(QUEUE), i) >= z3.Select(bag0, i) + 1)),
            z3.Implies(z3.Not(z3.Select(S, i)), z3.And(z3.Select(c.f(REC), i) == z3.Select(rec0, i), z3.Select(c.f(QUEUE), i) == z3.Select(bag0, i)))))
    C["reroute_invocations"] = Contract(
        key=f"{BO}:BaseOrchestrator.reroute_invocations", shape="Orchestrator",
        params={"invocations_to_reroute": SID, "runner_ctx": T.RunnerCtx},
        requires=base_req + [("every-listed-id-can-move-to-REROUTED", lambda c: z3.ForAll(
            [z3.Const("q", ID.sort())], z3.Implies(z3.Select(c.arg("invocations_to_reroute"), z3.Const("q", ID.sort())), can_reroute(c, z3.Const("q", ID.sort())))))],
        frame=all_fields + [QUEUE],
        loops={0: LoopSpec(inv=[
            ("processed-are-REROUTED-and-queued-others-untouched", lambda c: rerouted(c, c.x("seen"), c.old(REC), c.old(QUEUE))),
            ("owners-ok", lambda c: owners_ok(T, c.f(REC))), ("bag-nonneg", lambda c: bag_nonneg(c.f(QUEUE))),
        ])},
        cases=[Case("rerouted", ensures=[
            ("C03:every-listed-id-REROUTED-unowned-and-queued-others-untouched", lambda c: rerouted(c, c.arg("invocations_to_reroute"), c.old(REC), c.old(QUEUE))),
        ])], properties=["C03", "C04", "C11"])

    # ------------------------------------------------------------------ concurrency-control authorisation
    ST_SEQ = SeqT(T.Status)

    def blocked_by_some(c, statuses_term):
        inv = c.arg("invocation")
        rc = conf_of(T, inv, "running_concurrency")
        key = T.keyproj(T.Invocation.get(inv, "call"), rc)
        no_filter = z3.Or(rc == CC("TASK"), OKEYS.is_none(key))
        j = z3.Const(fresh_name("bj"), ID.sort())
        same_task = world.task_of(T, j) == T.TaskRec.get(T.CallRec.get(T.Invocation.get(inv, "call"), "task"), "task_id")
        return z3.Exists([j], z3.And(known(T, c.f(REC), j), same_task, z3.Contains(statuses_term, z3.Unit(status_of(T, c.f(REC), j))),
                                     z3.Or(no_filter, z3.And(z3.Select(c.f(INDEXED), j), T.key_match(j, OKEYS.val(key))))))
    C["_is_authorize_by_concurrency_control"] = Contract(
        key=f"{BO}:BaseOrchestrator._is_authorize_by_concurrency_control", shape="Orchestrator",
        params={"invocation": T.Invocation, "statuses": ST_SEQ}, result=BOOL, frame=[],
        requires=[("task-view-consistent", lambda c: T.Invocation.get(c.arg("invocation"), "task") == T.CallRec.get(T.Invocation.get(c.arg("invocation"), "call"), "task"))],
        cases=[Case("authorisation", ensures=[
            ("C06:authorised-iff-disabled-or-no-same-key-invocation-in-the-statuses", lambda c: c.result == z3.Or(
                conf_of(T, c.arg("invocation"), "running_concurrency") == CC("DISABLED"), z3.Not(blocked_by_some(c, c.arg("statuses"))))),
        ])], properties=["C06"], effect_events=False)
    T.blocked_by_some = blocked_by_some
    glue_part3(T, reg, C, base_req, all_fields)


# =========================================================================== part 3: claiming work
def queued_are_registered(T, rec, bag):
    i = z3.Const(fresh_name("qr"), ID.sort())
    return z3.ForAll([i], z3.Implies(z3.Select(bag, i) > 0, known(T, rec, i)))


def claimed_by_this_call(eng, st, inv_id_term, ctx_term, T):
    """C02 yield-time obligation: this activation's own PENDING request for the id returned normally."""
    for e in reversed([e for e in st.events if isinstance(e, dict) and e.get("ev") == "call"]):
        if e["key"].endswith("BaseOrchestrator.set_invocation_status") and e["case"] == "accepted":
            a = e["args"]
            return z3.And(a["invocation_id"].term == inv_id_term, a["status"].term == T.S("PENDING"), a["runner_ctx"].term == ctx_term)
    return z3.BoolVal(False)


def glue_part3(T: Types, reg: Registry, C: dict, base_req, all_fields):
    OSTR = Opt(RUNNER)
    INVSET = SetT(T.Invocation)

    def cc_pending_reroute(c, to_reroute):
        return lambda i: z3.And(status_of(T, c.f(REC), i) == T.S("CONCURRENCY_CONTROLLED"), z3.Select(to_reroute, i))

    def all_held(c, S):
        x = z3.Const(fresh_name("hx"), ID.sort())
        return z3.ForAll([x], z3.Implies(z3.Select(S, x), held_by(T, c.f(REC), x, c.arg("runner_ctx"))))

    def yielded_held(c):
        v = z3.Const(fresh_name("yv"), T.Invocation.sort())
        return z3.ForAll([v], z3.Implies(z3.Select(c.out_set, v), held_by(T, c.f(REC), T.Invocation.get(v, "invocation_id"), c.arg("runner_ctx"))))

    def claims_only_what_it_yields(c, by_id=False):
        """C11/C03: an id that this call moved under the runner (PENDING, owner = the runner) was handed to the caller."""
        i = z3.Const(fresh_name("ci"), ID.sort())
        if by_id:
            handed = z3.Select(c.out_set, i)
        else:
            handed = z3.Select(c.out_set, T.inv_of(i))      # the stored invocation of that id (StateBackend.get_invocation contract)
        return z3.ForAll([i], z3.Implies(z3.And(held_by(T, c.f(REC), i, c.arg("runner_ctx")), z3.Not(held_by(T, c.old(REC), i, c.arg("runner_ctx")))), handed))

    def ownership_frame(c):
        """C11/C02: a record that ends with an owner is either untouched or was claimed (PENDING) for the calling runner"""
        i = z3.Const(fresh_name("of"), ID.sort())
        return z3.ForAll([i], z3.Implies(z3.And(known(T, c.f(REC), i), OSTR.is_some(owner_of(T, c.f(REC), i))), z3.Or(
            z3.Select(c.f(REC), i) == z3.Select(c.old(REC), i),
            z3.And(owner_of(T, c.f(REC), i) == OSTR.some(T.RunnerCtx.get(c.arg("runner_ctx"), "runner_id")), status_of(T, c.f(REC), i) == T.S("PENDING")))))

    def yielded_are_stored_ones(c):
        v = z3.Const(fresh_name("ys"), T.Invocation.sort())
        return z3.ForAll([v], z3.Implies(z3.Select(c.out_set, v), v == T.inv_of(T.Invocation.get(v, "invocation_id"))))

    def reroute_only_cc(c, cur, old):
        i = z3.Const(fresh_name("rc"), ID.sort())
        return z3.ForAll([i], z3.Implies(z3.Select(cur, i), z3.Or(z3.Select(old, i), z3.And(
            known(T, c.f(REC), i), status_of(T, c.f(REC), i) == T.S("CONCURRENCY_CONTROLLED")))))

    world_req = base_req + [
        ("registered-invocations-are-stored", lambda c: registered_are_stored(T, c.f(REC), c.f(STORED))),
        ("queued-ids-are-registered", lambda c: queued_are_registered(T, c.f(REC), c.f(QUEUE))),
    ]

    # ------------------------------------------------------------------ get_additional_invocations_to_run
    def gai_inv(c, to_reroute, blocking):
        return [
            ("C03:no-id-stranded-except-those-awaiting-this-call's-reroute", lambda c: Jall(T, c.f(REC), c.f(QUEUE), cc_pending_reroute(c, to_reroute(c)))),
            ("domain-unchanged-and-stored", lambda c: z3.And(same_domain(T, c.f(REC), c.old(REC)), registered_are_stored(T, c.f(REC), c.f(STORED)),
                                                             queued_are_registered(T, c.f(REC), c.f(QUEUE)))),
            ("owners-ok-bag-nonneg", lambda c: z3.And(owners_ok(T, c.f(REC)), bag_nonneg(c.f(QUEUE)))),
            ("blocking-ids-still-held-by-this-runner", lambda c: all_held(c, blocking(c))),
            ("C02:yielded-invocations-are-PENDING-under-this-runner", yielded_held),
            ("to-reroute-grows-only-by-CONCURRENCY_CONTROLLED-ids", lambda c: reroute_only_cc(c, to_reroute(c), c.arg("invocations_to_reroute"))),
            ("C11:claims-only-what-it-yields", claims_only_what_it_yields),
            ("yielded-invocations-are-the-stored-ones-of-their-ids", yielded_are_stored_ones),
            ("C11:no-record-is-put-under-another-runner", ownership_frame),
        ]
    gai = Contract(
        key=f"{BO}:BaseOrchestrator.get_additional_invocations_to_run", shape="Orchestrator",
        params={"missing_invocations": INT, "blocking_invocation_ids": SID, "invocations_to_reroute": SID, "runner_ctx": T.RunnerCtx},
        generator=T.Invocation, frame=all_fields + [QUEUE],
        requires=world_req + [
            ("C03-at-entry", lambda c: Jall(T, c.f(REC), c.f(QUEUE), cc_pending_reroute(c, c.arg("invocations_to_reroute")))),
            ("blocking-ids-held-by-this-runner", lambda c: all_held(c, c.arg("blocking_invocation_ids"))),
        ],
        loops={0: LoopSpec(inv=[(n, f) for n, f in gai_inv(None, lambda c: c.v("invocations_to_reroute"), lambda c: c.v("blocking_invocation_ids"))] + [
            ("budget", lambda c: z3.And(c.v("missing_invocations") == c.arg("missing_invocations") - c.out_count, c.out_count >= 0,
                                        z3.Implies(c.arg("missing_invocations") > 0, c.v("missing_invocations") >= 0),
                                        z3.Implies(c.arg("missing_invocations") <= 0, c.out_count == 0))),
        ])},
        cases=[Case("claimed", ensures=[(n, f) for n, f in gai_inv(None, lambda c: c.x("post:invocations_to_reroute"), lambda c: c.arg("blocking_invocation_ids"))] + [
            ("at-most-the-missing-number", lambda c: c.out_count <= z3.If(c.arg("missing_invocations") > 0, c.arg("missing_invocations"), 0)),
        ])],
        properties=["C02", "C03", "C06"])
    gai.mutable_params = ["invocations_to_reroute"]
    gai.gen_distinct = False
    gai.yield_hook = lambda eng, st, v: eng.oblige(
        st, claimed_by_this_call(eng, st, T.Invocation.get(v.term, "invocation_id"), st.ghost["$args"]["runner_ctx"].term, T),
        "C02:yield-only-after-own-successful-PENDING-request", "ensures")
    gai.exit_splits = [("status_at_pop", lambda c: c.v("invocation_status") if c.has_local("invocation_status") else None, T.Status),
                       ("reroute_option", lambda c: conf_of(T, c.v("invocation"), "reroute_on_concurrency_control") if c.has_local("invocation") else None, BOOL)]
    C["get_additional_invocations_to_run"] = gai

    # ------------------------------------------------------------------ get_blocking_invocations (inline) + get_blocking_invocations_to_run
    reg.add(Contract(key=f"{BO}:BaseOrchestrator.get_blocking_invocations", shape="Orchestrator", params={"max_num_invocation_ids": INT},
                     generator=ID, inline=True, note="inlined from its real AST"))

    def waited_known(c):
        i = z3.Const(fresh_name("wk"), ID.sort())
        return z3.ForAll([i], z3.Implies(z3.Select(c.f(WAITED), i), known(T, c.f(REC), i)))
    gbr_common = lambda blocking: [
        ("C03:no-id-stranded", lambda c: Jall(T, c.f(REC), c.f(QUEUE))),
        ("domain-unchanged-and-stored", lambda c: z3.And(same_domain(T, c.f(REC), c.old(REC)), registered_are_stored(T, c.f(REC), c.f(STORED)),
                                                         queued_are_registered(T, c.f(REC), c.f(QUEUE)), c.f(QUEUE) == c.old(QUEUE))),
        ("owners-ok", lambda c: owners_ok(T, c.f(REC))),
        ("C02:blocking-ids-held-by-this-runner", lambda c: all_held(c, blocking(c))),
        ("yielded-are-in-the-blocking-set", lambda c: ops.set_subset(c.out_set, blocking(c), ID.sort())),
        ("wait-graph-untouched", lambda c: z3.And(c.f(WAITED) == c.old(WAITED), c.f(EDGES) == c.old(EDGES))),
        ("C11:claims-only-what-it-yields", lambda c: claims_only_what_it_yields(c, by_id=True)),
        ("C11:no-record-is-put-under-another-runner", ownership_frame),
    ]
    gbr = Contract(
        key=f"{BO}:BaseOrchestrator.get_blocking_invocations_to_run", shape="Orchestrator",
        params={"max_num_invocations": INT, "blocking_invocation_ids": SID, "runner_ctx": T.RunnerCtx},
        generator=ID, frame=all_fields,
        requires=world_req + [("C03-at-entry", lambda c: Jall(T, c.f(REC), c.f(QUEUE))), ("waited-ids-are-registered", waited_known),
                              ("blocking-ids-held-by-this-runner", lambda c: all_held(c, c.arg("blocking_invocation_ids")))],
        loops={0: LoopSpec(inv=gbr_common(lambda c: c.v("blocking_invocation_ids")) + [
            ("at-most-one-per-candidate", lambda c: z3.And(c.out_count <= c.x("n_seen"), c.out_count >= 0)),
        ])},
        cases=[Case("claimed", ensures=gbr_common(lambda c: c.x("post:blocking_invocation_ids")) + [
            ("at-most-the-limit", lambda c: c.out_count <= z3.If(c.arg("max_num_invocations") > 0, c.arg("max_num_invocations"), 0)),
        ])],
        properties=["C02", "C03", "C09"])
    gbr.mutable_params = ["blocking_invocation_ids"]
    gbr.yield_hook = lambda eng, st, v: eng.oblige(
        st, claimed_by_this_call(eng, st, v.term, st.ghost["$args"]["runner_ctx"].term, T),
        "C02:yield-only-after-own-successful-PENDING-request", "ensures")
    C["get_blocking_invocations_to_run"] = gbr

    # ------------------------------------------------------------------ get_invocations_to_run
    gir = Contract(
        key=f"{BO}:BaseOrchestrator.get_invocations_to_run", shape="Orchestrator",
        params={"max_num_invocations": INT, "runner_ctx": T.RunnerCtx}, generator=T.Invocation, frame=all_fields + [QUEUE],
        requires=world_req + [("C03-at-entry", lambda c: Jall(T, c.f(REC), c.f(QUEUE))), ("waited-ids-are-registered", waited_known)],
        loops={0: LoopSpec(modifies=[], inv=[
            ("yielded-so-far-are-in-the-blocking-set", lambda c: z3.ForAll([z3.Const("yv", T.Invocation.sort())], z3.Implies(
                z3.Select(c.out_set, z3.Const("yv", T.Invocation.sort())),
                z3.Select(c.v("blocking_invocation_ids"), T.Invocation.get(z3.Const("yv", T.Invocation.sort()), "invocation_id"))))),
            ("yielded-invocations-are-the-stored-ones-of-their-ids", yielded_are_stored_ones),
            ("C11:no-record-is-put-under-another-runner", ownership_frame),
            ("domain-unchanged", lambda c: same_domain(T, c.f(REC), c.old(REC))),
            ("C11:every-claimed-blocking-id-seen-so-far-was-yielded", lambda c: z3.ForAll([z3.Const("sy", ID.sort())], z3.Implies(
                z3.Select(c.x("seen"), z3.Const("sy", ID.sort())), z3.Select(c.out_set, T.inv_of(z3.Const("sy", ID.sort())))))),
        ])},
        cases=[Case("claimed", ensures=[
            ("C03:no-id-stranded-at-exit", lambda c: Jall(T, c.f(REC), c.f(QUEUE))),
            ("C02:every-yielded-invocation-is-PENDING-under-this-runner", yielded_held),
            ("C11:claims-only-what-it-yields", claims_only_what_it_yields),
            ("yielded-invocations-are-the-stored-ones-of-their-ids", yielded_are_stored_ones),
            ("C11:no-record-is-put-under-another-runner", ownership_frame),
            ("domain-unchanged", lambda c: same_domain(T, c.f(REC), c.old(REC))),
        ])],
        properties=["C02", "C03", "C09", "C11"])
    gir.annotations = {"set[InvocationId]": SID}
    C["get_invocations_to_run"] = gir
    glue_part4(T, reg, C, world_req, all_fields)


# =========================================================================== part 4: registration and routing
def glue_part4(T: Types, reg: Registry, C: dict, world_req, all_fields):
    from pyvc.values import NONE, OK, RAISE, ExcVal, Val, mk_fresh
    world_req = [r for r in world_req if r[0] != "runner-context-has-an-id"]
    OSTR, OKEYS = Opt(RUNNER), Opt(world.KEYS)
    INVS, CALLS = SeqT(T.Invocation), SeqT(T.CallRec)
    rec_t, hist_t, hist_get = MapT(ID, T.Record), T.hist_t, T.hist_get
    CC = lambda m: T.CCType.const(m)
    DI = "pynenc.invocation.dist_invocation"
    T.fresh_inv = z3.Function("fresh_inv", T.CallRec.sort(), z3.IntSort(), z3.IntSort(), T.Invocation.sort())
    nonce = [0]

    # ---- natives ------------------------------------------------------------------------------------------------
    def h_runner_ctx(eng, st, recv, args, kwargs):
        v = mk_fresh(T.RunnerCtx, "ctx")
        st.assume(z3.Length(T.RunnerCtx.get(v.term, "runner_id")) > 0)
        return [(OK, st, v)]
    reg.add(Contract(key="pynenc.context:get_or_create_runner_context", handler=h_runner_ctx, assumed=True,
                     note="returns the runner context of the current process/thread: its runner_id is a non-empty string"))
    reg.add(Contract(key="pynenc.context:get_dist_invocation_context", assumed=True,
                     handler=lambda eng, st, recv, args, kwargs: [(OK, st, mk_fresh(Opt(T.Invocation), "parent"))]))

    def h_from_parent(eng, st, recv, args, kwargs):
        call = args[0] if args else kwargs["call"]
        nonce[0] += 1
        k = st.ghost.get("$lc_index", z3.IntVal(0))
        inv = T.fresh_inv(call.term, z3.IntVal(nonce[0]), k)
        i = T.Invocation.get(inv, "invocation_id")
        st.assume(z3.And(T.Invocation.get(inv, "call") == call.term, T.Invocation.get(inv, "task") == T.CallRec.get(call.term, "task")))
        # uuid4: the new id is fresh (not registered, not queued) and different from every other id created by this activation
        a, b = z3.Const(fresh_name("fa"), T.CallRec.sort()), z3.Const(fresh_name("fb"), T.CallRec.sort())
        n1, n2, k1, k2 = (z3.Int(fresh_name(x)) for x in ("n1", "n2", "k1", "k2"))
        st.assume(z3.ForAll([a, b, n1, n2, k1, k2], z3.Implies(z3.Or(n1 != n2, k1 != k2), T.Invocation.get(T.fresh_inv(a, n1, k1), "invocation_id")
                                                                != T.Invocation.get(T.fresh_inv(b, n2, k2), "invocation_id"))))
        orch = eng.self_ref
        rec0 = st.ghost.setdefault("$rec_at_first_creation", eng.heap_read(st, orch, "rec"))
        kq = z3.Int(fresh_name("kq"))
        cq = z3.Const(fresh_name("cq"), T.CallRec.sort())
        st.assume(z3.ForAll([cq, kq], z3.Not(known(T, rec0.term, T.Invocation.get(T.fresh_inv(cq, z3.IntVal(nonce[0]), kq), "invocation_id")))))
        bag0 = eng.heap_read(st, eng.heap_read(st, eng.heap_read(st, orch, "app"), "broker"), "queue")
        st.assume(z3.ForAll([cq, kq], z3.Select(bag0.term, T.Invocation.get(T.fresh_inv(cq, z3.IntVal(nonce[0]), kq), "invocation_id")) == 0))
        return [(OK, st, Val(inv, T.Invocation))]
    reg.add(Contract(key=f"{DI}:DistributedInvocation.from_parent", handler=h_from_parent, assumed=True,
                     note="creates an invocation view of the call with a fresh uuid4 id (not registered, not queued, distinct from all others)"))
    reg.add(Contract(key=f"{DI}:ReusedInvocation.__init__", assumed=True,
                     handler=lambda eng, st, args, kwargs: [(OK, st, args[0])], note="a ReusedInvocation is a view of the existing invocation (same id, same call)"))
    reg.class_shapes[f"{DI}:ReusedInvocation"] = "__reused__"
    reg.add(Contract(key="pynenc.exceptions:InvocationConcurrencyWithDifferentArgumentsError.from_call_mismatch", assumed=True,
                     handler=lambda eng, st, recv, args, kwargs: [(OK, st, ExcVal("InvocationConcurrencyWithDifferentArgumentsError"))]))

    # ---- register_new_invocations -------------------------------------------------------------------------------
    def fresh_distinct(c, name="invocations"):
        i = z3.Const(fresh_name("fi"), ID.sort())
        S = world.id_set(T, c.arg(name))
        return z3.ForAll([i], z3.Implies(z3.Select(S, i), z3.And(z3.Not(known(T, c.f(REC), i)), z3.Select(c.f(QUEUE), i) == 0)))

    def newly_registered(c, seq_term, rec0, bag0, hist0):
        """every listed invocation is REGISTERED, queued, stored, with exactly one history entry; nothing else changes"""
        i = z3.Const(fresh_name("i"), ID.sort())
        S = world.id_set(T, seq_term)
        return z3.And(
            z3.ForAll([i], z3.Implies(z3.Select(S, i), z3.And(
                known(T, c.f(REC), i), status_of(T, c.f(REC), i) == T.S("REGISTERED"),
                z3.Select(c.f(QUEUE), i) >= 1, z3.Select(c.f(STORED), i),
                hist_get(c.f(HIST), i) == z3.Concat(hist_get(hist0, i), z3.Unit(rec_t.opt.val(z3.Select(c.f(REC), i))))))),
            z3.ForAll([i], z3.Implies(z3.Not(z3.Select(S, i)), z3.And(z3.Select(c.f(REC), i) == z3.Select(rec0, i), z3.Select(c.f(QUEUE), i) == z3.Select(bag0, i),
                                                                      z3.Select(c.f(HIST), i) == z3.Select(hist0, i)))),
            z3.ForAll([i], z3.Implies(z3.Select(c.old(STORED), i), z3.Select(c.f(STORED), i))))
    state_inv = [
        ("C03:no-id-stranded", lambda c: Jall(T, c.f(REC), c.f(QUEUE))),
        ("world-wellformed", lambda c: z3.And(owners_ok(T, c.f(REC)), bag_nonneg(c.f(QUEUE)), registered_are_stored(T, c.f(REC), c.f(STORED)),
                                              queued_are_registered(T, c.f(REC), c.f(QUEUE)))),
    ]
    reg_fields = all_fields + [QUEUE, STORED, RETRIES]
    C["register_new_invocations"] = Contract(
        key=f"{BO}:BaseOrchestrator.register_new_invocations", shape="Orchestrator", params={"invocations": INVS},
        requires=world_req + [("C03-at-entry", lambda c: Jall(T, c.f(REC), c.f(QUEUE))), ("ids-fresh-and-distinct", fresh_distinct)],
        frame=reg_fields, loops={0: LoopSpec(modifies=[], inv=[])},
        cases=[Case("registered", ensures=[
            ("C03/C10:each-new-invocation-REGISTERED-queued-stored-one-history-entry-nothing-else-changes",
             lambda c: newly_registered(c, c.arg("invocations"), c.old(REC), c.old(QUEUE), c.old(HIST))),
        ] + state_inv)], properties=["C03", "C10", "C01"])

    # ---- _route_new_call_invocation -------------------------------------------------------------------------------
    def cc_on(call_term):
        conf = T.TaskRec.get(T.CallRec.get(call_term, "task"), "conf")
        return z3.Or(T.TaskConf.get(conf, "registration_concurrency") != CC("DISABLED"), T.TaskConf.get(conf, "running_concurrency") != CC("DISABLED"))

    def one_new(c, inv_term, rec0, bag0, hist0, idx0):
        i = z3.Const(fresh_name("i"), ID.sort())
        nid = T.Invocation.get(inv_term, "invocation_id")
        return z3.And(
            z3.Not(known(T, rec0, nid)), known(T, c.f(REC), nid), status_of(T, c.f(REC), nid) == T.S("REGISTERED"),
            z3.Select(c.f(QUEUE), nid) >= 1, z3.Select(c.f(STORED), nid),
            z3.ForAll([i], z3.Implies(i != nid, z3.And(z3.Select(c.f(REC), i) == z3.Select(rec0, i), z3.Select(c.f(QUEUE), i) == z3.Select(bag0, i),
                                                       z3.Select(c.f(HIST), i) == z3.Select(hist0, i), z3.Select(c.f(INDEXED), i) == z3.Select(idx0, i)))))
    C["_route_new_call_invocation"] = Contract(
        key=f"{BO}:BaseOrchestrator._route_new_call_invocation", shape="Orchestrator",
        params={"call": T.CallRec, "runner_id": OSTR}, defaults={"runner_id": lambda eng, st: NONE}, result=T.Invocation,
        requires=world_req + [("C03-at-entry", lambda c: Jall(T, c.f(REC), c.f(QUEUE)))],
        frame=reg_fields + [INDEXED],
        cases=[Case("new-invocation", ensures=[
            ("is-an-invocation-of-the-call", lambda c: T.Invocation.get(c.result, "call") == c.arg("call")),
            ("C07:exactly-one-new-REGISTERED-queued-invocation-nothing-else-changes",
             lambda c: one_new(c, c.result, c.old(REC), c.old(QUEUE), c.old(HIST), c.old(INDEXED))),
            ("C06:arguments-indexed-when-any-concurrency-control-is-on", lambda c: z3.Implies(
                cc_on(c.arg("call")), z3.Select(c.f(INDEXED), T.Invocation.get(c.result, "invocation_id")))),
        ] + state_inv)], properties=["C06", "C07", "C03"])

    # ---- route_calls (batch) ------------------------------------------------------------------------------------------
    def batch_indexed(c):
        v = z3.Const(fresh_name("bv"), T.Invocation.sort())
        el = ops.seq_elems(c.result, T.Invocation.sort())
        return z3.ForAll([v], z3.Implies(z3.And(z3.Select(el, v), cc_on(T.Invocation.get(v, "call"))),
                                         z3.Select(c.f(INDEXED), T.Invocation.get(v, "invocation_id"))))

    def one_per_call(c):
        v = z3.Const(fresh_name("ov"), T.Invocation.sort())
        cl = z3.Const(fresh_name("oc"), T.CallRec.sort())
        el = ops.seq_elems(c.result, T.Invocation.sort())
        ec = ops.seq_elems(c.arg("calls"), T.CallRec.sort())
        empty_fact = z3.Implies(z3.Length(c.arg("calls")) == 0, ec == SetT(T.CallRec).empty())   # a true fact about elems()
        return z3.Implies(empty_fact, z3.And(z3.Length(c.result) == z3.Length(c.arg("calls")),
                      z3.ForAll([v], z3.Implies(z3.Select(el, v), z3.Select(ec, T.Invocation.get(v, "call")))),
                      z3.ForAll([cl], z3.Implies(z3.Select(ec, cl), z3.Exists([v], z3.And(z3.Select(el, v), T.Invocation.get(v, "call") == cl))))))
    regc0 = lambda c: T.TaskConf.get(T.TaskRec.get(T.CallRec.get(c.arg("calls")[0], "task"), "conf"), "registration_concurrency")
    # the classmethod is reached through the exception class (kind 'exc'): registered as a dropped-to-handler call
    
    def one_task(c):
        cl = z3.Const(fresh_name("otc"), T.CallRec.sort())
        ec = ops.seq_elems(c.arg("calls"), T.CallRec.sort())
        return z3.And(z3.ForAll([cl], z3.Implies(z3.Select(ec, cl), T.CallRec.get(cl, "task") == T.CallRec.get(c.arg("calls")[0], "task"))),
                      z3.Implies(z3.Length(c.arg("calls")) > 0, z3.Select(ec, c.arg("calls")[0])))
    C["route_calls"] = Contract(
        key=f"{BO}:BaseOrchestrator.route_calls", shape="Orchestrator", params={"calls": CALLS}, result=INVS,
        requires=world_req + [("C03-at-entry", lambda c: Jall(T, c.f(REC), c.f(QUEUE))),
                              ("batch-of-calls-of-one-task", one_task)],
        frame=reg_fields + [INDEXED], loops={0: LoopSpec(modifies=["indexed"], inv=[
            ("indexed-so-far", lambda c: z3.ForAll([z3.Const("lv", T.Invocation.sort())], z3.Implies(
                z3.Select(c.x("seen_elems"), z3.Const("lv", T.Invocation.sort())),
                z3.Select(c.f(INDEXED), T.Invocation.get(z3.Const("lv", T.Invocation.sort()), "invocation_id"))))),
            ("index-only-grows-by-the-new-ids", lambda c: z3.ForAll([z3.Const("li", ID.sort())], z3.Implies(
                z3.Not(z3.Select(world.id_set(T, c.v("invocations")), z3.Const("li", ID.sort()))),
                z3.Select(c.f(INDEXED), z3.Const("li", ID.sort())) == z3.Select(c.old(INDEXED), z3.Const("li", ID.sort()))))),
        ])},
        cases=[
            Case("refused", when=lambda c: z3.And(z3.Length(c.arg("calls")) > 0, regc0(c) != CC("DISABLED")), raises="TaskParallelProcessingError",
                 ensures=unchanged(REC, QUEUE, HIST, INDEXED)),
            Case("routed", when=lambda c: z3.Or(z3.Length(c.arg("calls")) == 0, regc0(c) == CC("DISABLED")), ensures=[
                ("one-invocation-per-call", one_per_call),
                ("C03/C10:each-new-invocation-REGISTERED-queued-stored-one-history-entry-nothing-else-changes",
                 lambda c: newly_registered(c, c.result, c.old(REC), c.old(QUEUE), c.old(HIST))),
                ("C06:arguments-indexed-on-the-batch-path-when-running-concurrency-is-on", batch_indexed),
            ] + state_inv),
        ], properties=["C06", "C03"])

    # ---- route_call (registration concurrency) ---------------------------------------------------------------------------
    def regc(c):
        return T.TaskConf.get(T.TaskRec.get(T.CallRec.get(c.arg("call"), "task"), "conf"), "registration_concurrency")

    def reg_match(c, j, rec):
        key = T.keyproj(c.arg("call"), regc(c))
        no_filter = z3.Or(regc(c) == CC("TASK"), OKEYS.is_none(key))
        return z3.And(known(T, rec, j), world.task_of(T, j) == T.TaskRec.get(T.CallRec.get(c.arg("call"), "task"), "task_id"),
                      status_of(T, rec, j) == T.S("REGISTERED"),
                      z3.Or(no_filter, z3.And(z3.Select(c.old(INDEXED), j), T.key_match(j, OKEYS.val(key)))))

    def some_match(c):
        j = z3.Const(fresh_name("mj"), ID.sort())
        return z3.Exists([j], reg_match(c, j, c.old(REC)))
    raise_opt = lambda c: T.TaskConf.get(T.TaskRec.get(T.CallRec.get(c.arg("call"), "task"), "conf"), "on_diff_non_key_args_raise")
    nothing = unchanged(REC, QUEUE, HIST, INDEXED, STORED, RETRIES)
    C["route_call"] = Contract(
        key=f"{BO}:BaseOrchestrator.route_call", shape="Orchestrator", params={"call": T.CallRec}, result=T.Invocation,
        requires=world_req + [("C03-at-entry", lambda c: Jall(T, c.f(REC), c.f(QUEUE)))],
        frame=reg_fields + [INDEXED],
        cases=[
            Case("different-non-key-arguments-rejected", when=lambda c: z3.And(regc(c) != CC("DISABLED"), some_match(c), raise_opt(c)),
                 raises="InvocationConcurrencyWithDifferentArgumentsError", ensures=nothing),
            Case("result", ensures=[
                ("C07:disabled-or-no-REGISTERED-match=>exactly-one-new-invocation", lambda c: z3.Implies(
                    z3.Or(regc(c) == CC("DISABLED"), z3.Not(some_match(c))),
                    z3.And(T.Invocation.get(c.result, "call") == c.arg("call"),
                           one_new(c, c.result, c.old(REC), c.old(QUEUE), c.old(HIST), c.old(INDEXED))))),
                ("C07:REGISTERED-match=>returns-one-of-them-and-changes-nothing", lambda c: z3.Implies(
                    z3.And(regc(c) != CC("DISABLED"), some_match(c)),
                    z3.And(reg_match(c, T.Invocation.get(c.result, "invocation_id"), c.old(REC)),
                           *[f(c) for _n, f in nothing]))),
                ("C07:with-the-raise-option-a-reused-invocation-has-the-same-call-identity", lambda c: z3.Implies(
                    z3.And(regc(c) != CC("DISABLED"), some_match(c), raise_opt(c)),
                    T.CallRec.get(T.Invocation.get(c.result, "call"), "call_id") == T.CallRec.get(c.arg("call"), "call_id"))),
            ] + state_inv),
        ], properties=["C07"])
