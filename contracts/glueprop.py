"""Helper: property modules made of glue contracts share one way of building their registry."""
from __future__ import annotations

from pyvc.prop import Prop, RunCtx

from . import c01, glue
from .common import Types, base_registry

GLUE_ASSUMPTIONS = [
    "component contracts of contracts/world.py (orchestrator storage = the C01 contract, broker = multiset abstraction of the C08 contract, "
    "state backend, blocking control = the C09 contract, trigger reports) are assumed at glue level; the Mem implementations are proved "
    "against them in C01/C08/C09, the SQLite ones are only enumerated (bounded stand-ins)",
    "no threads: a glue function runs atomically; a concurrent observer / crash point sees exactly the states between two component calls",
    "generators are drained by their consumer (effects of a generator body are taken at the call)",
    "runner ids are non-empty strings; uuid4 invocation ids are fresh",
    "trigger.report_* only writes the trigger store",
]
GLUE_TRUSTED = ["pyvc VC generator (/verif/pyvc)", "z3 5.1", "cvc5 1.0.3"]


def setup(ctx: RunCtx):
    T = Types(ctx.src)
    reg = base_registry(ctx.src, T)
    reg.T = T
    for c in c01.status_contracts(T, reg, ctx.repo, pid="C01"):
        reg.add(c)
    from .common import CALL, ID, TASK
    reg.ann_types = dict(getattr(reg, "ann_types", {}), InvocationId=ID, CallId=CALL, TaskId=TASK)
    G = glue.glue_contracts(T, reg)
    return T, reg, G
