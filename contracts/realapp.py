"""Real applications (in-memory and SQLite) for replays and bounded stand-ins."""
from __future__ import annotations

import contextlib
import itertools
import os
import shutil
import tempfile
import uuid

_n = itertools.count()


def quiet_logging():
    import logging
    logging.disable(logging.CRITICAL)


@contextlib.contextmanager
def real_app(backend: str, app_id: str | None = None, db_path: str | None = None, **custom):
    """Yield a fresh real Pynenc app on the chosen backend ('mem' | 'sqlite')."""
    quiet_logging()
    from pynenc.builder import PynencBuilder
    app_id = app_id or f"verif_{next(_n)}_{uuid.uuid4().hex[:6]}"
    tmp = None
    try:
        b = PynencBuilder().app_id(app_id)
        if backend == "mem":
            b = b.memory()
        else:
            if db_path is None:
                tmp = tempfile.mkdtemp(prefix="pyvc_db_")
                db_path = os.path.join(tmp, "db.sqlite")
            b = b.sqlite(db_path)
        ser = custom.pop("serializer", None)
        if ser:
            b = {"json": b.serializer_json, "pickle": b.serializer_pickle, "jsonpickle": b.serializer_json_pickle}[ser]()
        if custom:
            b = b.custom_config(**custom)
        app = b.build()
        yield app
        with contextlib.suppress(Exception):
            app.state_backend.wait_for_all_async_operations()
    finally:
        if tmp:
            shutil.rmtree(tmp, ignore_errors=True)


def runner_ctx(runner_id, parent_id=None):
    """A runner context; with parent_id it is a worker context nested under a parent runner (its root_runner_id differs)."""
    from pynenc.runner.runner_context import RunnerContext
    parent = RunnerContext(runner_cls="VerifParentRunner", runner_id=parent_id) if parent_id else None
    return RunnerContext(runner_cls="VerifRunner", runner_id=runner_id, parent_ctx=parent)


def force_status(app, inv_id: str, status, owner, ts=None):
    """Put an invocation directly into (status, owner) on the real backend, bypassing the state machine."""
    from datetime import UTC, datetime
    from pynenc.invocation.status import InvocationStatusRecord
    orch = app.orchestrator
    ts = ts or datetime.now(UTC)
    if type(orch).__name__ == "MemOrchestrator":
        prev = orch.invocation_status_record.get(inv_id)
        if prev is not None:
            orch.status_index[prev.status].discard(inv_id)
        orch.invocation_status_record[inv_id] = InvocationStatusRecord(status, owner, ts)
        orch.status_index[status].add(inv_id)
        orch.invocation_retries.setdefault(inv_id, 0)
    else:
        from pynenc.util.sqlite_utils import create_sqlite_connection as sqlite_conn
        with sqlite_conn(orch.sqlite_db_path) as conn:
            cur = conn.execute(f"UPDATE {orch.tables.INVOCATIONS} SET status = ?, status_runner_id = ?, status_timestamp = ? WHERE invocation_id = ?",
                               (status.value, owner, ts.timestamp(), inv_id))          # an existing row keeps its task / call keys
            if cur.rowcount == 0:
                conn.execute(
                    f"INSERT OR REPLACE INTO {orch.tables.INVOCATIONS} (invocation_id, task_id_key, call_id_key, status, status_runner_id, status_timestamp) VALUES (?,?,?,?,?,?)",
                    (inv_id, "mod.task", "mod.task:no_args", status.value, owner, ts.timestamp()))
            conn.commit()


def read_record(app, inv_id: str):
    try:
        r = app.orchestrator.get_invocation_status_record(inv_id)
        return (r.status.name, r.runner_id, round(r.timestamp.timestamp(), 6))
    except KeyError:
        return None


def new_invocation(app, func=None, **kwargs):
    """Create and register (REGISTERED + queued) a real invocation of a verif task."""
    from pynenc.arguments import Arguments
    from pynenc.call import Call
    from pynenc.invocation.dist_invocation import DistributedInvocation
    from . import verif_tasks
    task = app.task(func or verif_tasks.noop)
    inv = DistributedInvocation.from_parent(Call(task, Arguments(kwargs)), None)
    app.orchestrator.register_new_invocations([inv])
    return inv


def stored_invocation(app, func=None, **kwargs):
    """A real invocation known to the state backend only (unknown to the orchestrator)."""
    from pynenc.arguments import Arguments
    from pynenc.call import Call
    from pynenc.invocation.dist_invocation import DistributedInvocation
    from . import verif_tasks
    task = app.task(func or verif_tasks.noop)
    inv = DistributedInvocation.from_parent(Call(task, Arguments(kwargs)), None)
    app.state_backend.upsert_invocations([inv])
    return inv
