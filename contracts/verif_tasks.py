"""Plain module-level functions turned into tasks of the app under test (bounded stand-ins / replays)."""


def add(x: int, y: int = 0) -> int:
    return x + y


def key_task(key: str, other: str = "") -> str:
    return f"{key}:{other}"


def sp_h_key(key: str, other: str = "") -> str:
    """a second task with the same parameters as key_task"""
    return f"{other}:{key}"


def noop() -> None:
    return None


class Retriable(Exception):
    pass


class Other(Exception):
    pass


SCRIPT: list = []      # per-execution script: 'o' return, 'r' raise Retriable, 'k' raise Other
CALLS = [0]


def scripted(x: int) -> int:
    i = CALLS[0]
    CALLS[0] += 1
    step = SCRIPT[i] if i < len(SCRIPT) else "o"
    if step == "r":
        raise Retriable("again", i)
    if step == "k":
        raise Other("boom", i)
    return x * 10 + i


WF_TASK = [None]


def wf_randoms(n: int) -> list:
    """a workflow body that asks for n deterministic random numbers"""
    task = WF_TASK[0]
    return [task.wf.random() for _ in range(n)]


def event_args(ctx) -> dict:
    """argument provider for event-triggered launches: x of the occurrence's payload"""
    payload = getattr(ctx, "payload", None) or {}
    return {"x": payload.get("x")}


# ---- C11: task bodies that stop at a gate and then behave as scripted
import threading as _threading

GATES: dict = {}       # name -> threading.Event
MODES: dict = {}       # name -> 'ok' | 'retry' | 'pause' | 'child'
CHILD_TASK = [None]
GATED_TASK = [None]
ENTERED: dict = {}     # name -> threading.Event set when the body has started


def gated(name: str) -> str:
    ENTERED.setdefault(name, _threading.Event()).set()
    GATES.setdefault(name, _threading.Event()).wait(30)
    mode = MODES.get(name, "ok")
    if mode == "retry":
        MODES[name] = "ok"
        raise Retriable("again", name)
    if mode == "pause":
        from pynenc.workflow import WorkflowPauseError
        raise WorkflowPauseError("pause requested by the body")
    if mode == "child":
        return "child:" + str(CHILD_TASK[0](name + ".child").result)
    if mode == "child-gated":       # the child is an invocation of this same gated task: it starts, then blocks on its own gate
        return "child:" + str(GATED_TASK[0](name + ".child").result)
    return "done:" + name


def child_of(name: str) -> str:
    return "c:" + name


RETRY_ONCE = [True]


def wf_randoms_retry(n: int) -> list:
    """asks for n deterministic random numbers, fails retriably on its first execution, returns them on the second"""
    task = WF_TASK[0]
    vals = [task.wf.random() for _ in range(n)]
    if RETRY_ONCE[0]:
        RETRY_ONCE[0] = False
        raise Retriable("first execution fails", vals)
    return vals


# ---- call spellings (C07 / C15): one logical call, many ways to write it
def sp_f(a: int, b: int = 0) -> int:
    return a + b


def sp_g(a: int, b: int = 0, *, c: int = 1) -> int:
    return a + b + c


def sp_h(x: str, y: str = "d") -> str:
    return x + y


# ---- enum values for serializer round trips (C15)
import enum as _enum


class Priority(_enum.IntEnum):
    LOW = 1
    HIGH = 10


class Level(_enum.StrEnum):
    INFO = "info"
    ERROR = "error"


class Color(_enum.Enum):
    RED = "r"
    BLUE = "b"


# ---- C19: group / nested / direct-task programs; every body execution records the arguments it was really called with
G_LOCK = _threading.Lock()
G_CALLS: dict = {}      # tag -> list of (i, scale, base)
G_ATTEMPTS: dict = {}   # (tag, i) -> executions so far
G_SCRIPT: dict = {}     # i -> per-execution script ('r' retriable, 'k' other, 'o' ok), default ok
G_LEAF = [None]


def g_leaf(tag: str, i: int, scale: int = 1, base: list | None = None) -> int:
    with G_LOCK:
        G_CALLS.setdefault(tag, []).append((i, scale, tuple(base or ())))
        a = G_ATTEMPTS.get((tag, i), 0)
        G_ATTEMPTS[(tag, i)] = a + 1
    script = G_SCRIPT.get(i, "")
    step = script[a] if a < len(script) else "o"
    if step == "r":
        raise Retriable("again", i, a)
    if step == "k":
        raise Other("boom", i, a)
    return (sum(base or ()) + i) * scale


def g_parent_single(tag: str, x: int) -> int:
    leaf = G_LEAF[0]
    return leaf(tag, x + 1).result + leaf(tag, x + 2, 3).result


def g_parent_group(tag: str, n: int) -> list:
    leaf = G_LEAF[0]
    return sorted(leaf.parallelize([(tag, i) for i in range(n)]).results)


def g_direct(tag: str, i: int = 0, scale: int = 1, base: list | None = None, n: int = 0) -> int:
    return g_leaf(tag, i, scale, base)


def g_fan_tuples(args: dict) -> list:
    return [(args["tag"], i, i + 1) for i in range(args["n"])]


def g_fan_common(args: dict) -> tuple:
    return {"tag": args["tag"], "base": [1, 2, 3]}, [({"i": i, "scale": 10} if i % 3 == 0 else {"i": i}) for i in range(args["n"])]


def g_blob(tag: str, blob: str) -> str:
    """returns what distinguishes two large arguments that differ only in the middle"""
    with G_LOCK:
        G_CALLS.setdefault(tag, []).append((len(blob), blob[len(blob) // 2], ()))
    return blob[len(blob) // 2]


# ---- C09: nested waits (a chain: each level waits on one sub-task; a tree: each level waits on a group of two)
NEST_TASK = [None]


def nest(kind: str, depth: int) -> int:
    if depth <= 0:
        return 0 if kind == "chain" else 1
    t = NEST_TASK[0]
    if kind == "chain":
        return 1 + t(kind, depth - 1).result
    return sum(t.parallelize([(kind, depth - 1), (kind, depth - 1)]).results)
