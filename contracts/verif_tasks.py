"""Plain module-level functions turned into tasks of the app under test (bounded stand-ins / replays)."""


def add(x: int, y: int = 0) -> int:
    return x + y


def key_task(key: str, other: str = "") -> str:
    return f"{key}:{other}"


def noop() -> None:
    return None
