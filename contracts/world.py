"""The abstract world seen through `self.app` (DESIGN appendix A.0): component shapes with
abstract fields and the component contracts used by orchestration-glue obligations.

Each abstract contract here is *assumed* at glue level; it is the same statement that the
Mem implementation is proved against (C01/C08/C09 leaf contracts) and the SQLite
implementation is checked against by the bounded stand-ins (C16)."""
from __future__ import annotations

import z3

from pyvc.contract import Case, Contract, Registry, Shape
from pyvc.types import BOOL, DATETIME, INT, REAL, STR, Atom, MapT, ObjT, Opt, Record, SeqT, SetT
from pyvc.values import fresh_name

from .common import CALL, ID, RUNNER, TASK, Types, spec_new_owner, spec_step_error

BO = "pynenc.orchestrator.base_orchestrator"


def add_world(T: Types, reg: Registry, orch_cls=None):
    """Register App / Orchestrator / Broker / StateBackend / Trigger abstract shapes."""
    if "Orchestrator" in reg.shapes:
        return
    rec_t = MapT(ID, T.Record)
    reg.add_shape(Shape("AppConf", fields={}))
    reg.add_shape(Shape("OrchConf", fields={"blocking_control": BOOL}))
    reg.shapes["App"] = Shape("App", fields={
        "orchestrator": ObjT("Orchestrator"), "broker": ObjT("Broker"), "state_backend": ObjT("StateBackend"),
        "trigger": ObjT("Trigger"), "conf": ObjT("AppConf"),
    })
    reg.add_shape(Shape("Orchestrator", fields={
        "rec": rec_t,                       # id -> (status, owner, timestamp); dom = registered ids
        "app": ObjT("App"),
        "conf": ObjT("OrchConf"),
    }, cls=orch_cls or (BO, "BaseOrchestrator"), abstract_methods={
        "get_invocation_status": "Orchestrator.get_invocation_status",
    }))
    reg.add_shape(Shape("Broker", fields={"app": ObjT("App")}))
    reg.add_shape(Shape("StateBackend", fields={"app": ObjT("App")}))
    reg.add_shape(Shape("Trigger", fields={"app": ObjT("App")}))
    OREC = Opt(T.Record)

    def cell(c):
        return z3.Select(c.old("rec"), c.arg("invocation_id"))
    reg.add(Contract(
        key="Orchestrator.get_invocation_status", shape="Orchestrator", params={"invocation_id": ID}, result=T.Status, frame=[],
        cases=[
            Case("unknown-id", when=lambda c: OREC.is_none(cell(c)), raises="KeyError", exact=True),
            Case("known", when=lambda c: OREC.is_some(cell(c)), ensures=[
                ("is-stored-status", lambda c: c.result == T.Record.get(OREC.val(cell(c)), "status"))]),
        ], assumed=True, check_invariants=False, effect_events=False,
        note="abstract view of get_invocation_status: proved for MemOrchestrator.get_invocation_status_record (C01), bounded for SQLite"))


def status_of(T: Types, rec_term, i):
    rec_t = MapT(ID, T.Record)
    return T.Record.get(rec_t.opt.val(z3.Select(rec_term, i)), "status")


def known(T: Types, rec_term, i):
    return MapT(ID, T.Record).opt.is_some(z3.Select(rec_term, i))
