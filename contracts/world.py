"""The abstract world seen through `self.app` (DESIGN appendix A.0): component shapes with
abstract fields and the component contracts used by orchestration-glue obligations.

Each abstract contract here is *assumed* at glue level; it is the same statement that the
Mem implementation is proved against (C01/C08/C09 leaf contracts) and the SQLite
implementation is checked against by the bounded stand-ins (C16)."""
from __future__ import annotations

import z3

from pyvc import ops
from pyvc.contract import Case, Contract, Registry, Shape
from pyvc.types import BOOL, DATETIME, INT, REAL, STR, Atom, BagT, MapT, ObjT, Opt, Record, SeqT, SetT
from pyvc.values import NONE, OK, RAISE, ExcVal, Val, fresh_name

from .common import CALL, ID, RUNNER, SPEC, TASK, Types, runner_id_ok, spec_new_owner, spec_step_error

BO = "pynenc.orchestrator.base_orchestrator"
KEYS = Atom("KeyArgs")          # the projection of a call's serialized arguments under a concurrency mode


def view_types(T: Types):
    """Invocation / call / task objects as records of the attributes the glue reads."""
    if hasattr(T, "InvocationV"):
        return
    T.TaskConf = Record("TaskConf", [("running_concurrency", T.CCType), ("registration_concurrency", T.CCType),
                                     ("reroute_on_concurrency_control", BOOL), ("on_diff_non_key_args_raise", BOOL),
                                     ("max_retries", INT)])
    T.TaskRec = Record("TaskView", [("task_id", TASK), ("conf", T.TaskConf)])
    T.CallRec = Record("CallView", [("task", T.TaskRec), ("call_id", CALL)])
    T.Invocation = Record("InvocationView", [("invocation_id", ID), ("call", T.CallRec), ("task", T.TaskRec), ("parent_invocation_id", Opt(ID))])
    T.InvocationV = T.Invocation
    # runner_id identifies the context that makes a request; root_runner_id is the top of its parent chain (a worker's runner)
    T.RunnerCtx = Record("RunnerContext", [("runner_id", STR), ("root_runner_id", STR)])
    T.inv_of = z3.Function("inv_of", ID.sort(), T.Invocation.sort())          # immutable id -> invocation view
    T.key_of = z3.Function("key_of", ID.sort(), T.CCType.sort(), KEYS.sort())  # key projection per mode
    T.hist_t = MapT(ID, SeqT(T.Record))


def inv_axioms(T: Types, i):
    v = T.inv_of(i)
    return z3.And(T.Invocation.get(v, "invocation_id") == i,
                  T.Invocation.get(v, "task") == T.CallRec.get(T.Invocation.get(v, "call"), "task"))


def task_of(T: Types, i):
    return T.TaskRec.get(T.Invocation.get(T.inv_of(i), "task"), "task_id")


def conf_of(T: Types, inv_term, field):
    return T.TaskConf.get(T.TaskRec.get(T.Invocation.get(inv_term, "task"), "conf"), field)


def status_of(T: Types, rec_term, i):
    rec_t = MapT(ID, T.Record)
    return T.Record.get(rec_t.opt.val(z3.Select(rec_term, i)), "status")


def owner_of(T: Types, rec_term, i):
    rec_t = MapT(ID, T.Record)
    return T.Record.get(rec_t.opt.val(z3.Select(rec_term, i)), "runner_id")


def known(T: Types, rec_term, i):
    return MapT(ID, T.Record).opt.is_some(z3.Select(rec_term, i))


def id_set(T: Types, invs_term):
    """{v.invocation_id | v in the list} as a set term (explicit for literal lists)."""
    lit = ops._literal_elems(invs_term)
    if lit is not None:
        s = SetT(ID).empty()
        for v in lit:
            s = z3.Store(s, T.Invocation.get(v, "invocation_id"), True)
        return s
    i = z3.Const(fresh_name("isi"), ID.sort())
    v = z3.Const(fresh_name("isv"), T.Invocation.sort())
    el = ops.seq_elems(invs_term, T.Invocation.sort())
    return z3.Lambda([i], z3.Exists([v], z3.And(z3.Select(el, v), T.Invocation.get(v, "invocation_id") == i)))


def add_world(T: Types, reg: Registry, orch_cls=None):
    """Register App / Orchestrator / Broker / StateBackend / Trigger / BlockingControl abstract shapes and contracts."""
    if "Orchestrator" in reg.shapes:
        return
    view_types(T)
    rec_t = MapT(ID, T.Record)
    OREC, OSTR, OID = Opt(T.Record), Opt(RUNNER), Opt(ID)
    SID = SetT(ID)
    QT = SeqT(ID)
    reg.records["pynenc.runner.runner_context:RunnerContext"] = T.RunnerCtx
    reg.add_shape(Shape("AppConf", fields={"max_pending_seconds": REAL, "runner_considered_dead_after_minutes": REAL}))
    reg.add_shape(Shape("OrchConf", fields={"blocking_control": BOOL}))
    reg.shapes["App"] = Shape("App", fields={
        "orchestrator": ObjT("Orchestrator"), "broker": ObjT("Broker"), "state_backend": ObjT("StateBackend"),
        "trigger": ObjT("Trigger"), "conf": ObjT("AppConf"), "app_id": STR,
    })
    reg.add_shape(Shape("Orchestrator", fields={
        "rec": rec_t,                       # id -> (status, owner, timestamp); dom = registered ids
        "retries": MapT(ID, INT),
        "indexed": SID,                     # ids whose argument pairs are in the concurrency index
        "purge_set": SID,                   # ids scheduled for auto purge
        "blocking_control": ObjT("BlockingControl"),
        "app": ObjT("App"),
        "conf": ObjT("OrchConf"),
    }, cls=orch_cls or (BO, "BaseOrchestrator"), abstract_methods={
        "_atomic_status_transition": "Orchestrator._atomic_status_transition",
        "get_invocation_status_record": "Orchestrator.get_invocation_status_record",
        "_register_new_invocations": "Orchestrator._register_new_invocations",
        "index_arguments_for_concurrency_control": "Orchestrator.index_arguments_for_concurrency_control",
        "set_up_invocation_auto_purge": "Orchestrator.set_up_invocation_auto_purge",
        "increment_invocation_retries": "Orchestrator.increment_invocation_retries",
        "get_invocation_retries": "Orchestrator.get_invocation_retries",
        "get_existing_invocations": "Orchestrator.get_existing_invocations",
    }))
    reg.add_shape(Shape("BlockingControl", fields={"waited": SID, "edges_to": MapT(ID, SID)}, abstract_methods={
        "release_waiters": "BlockingControl.release_waiters",
        "waiting_for_results": "BlockingControl.waiting_for_results",
        "get_blocking_invocations": "BlockingControl.get_blocking_invocations",
    }))
    reg.add_shape(Shape("Broker", fields={"queue": BagT(ID), "app": ObjT("App")}, abstract_methods={
        "route_invocation": "Broker.route_invocation", "route_invocations": "Broker.route_invocations",
        "retrieve_invocation": "Broker.retrieve_invocation", "count_invocations": "Broker.count_invocations",
    }))
    reg.add_shape(Shape("StateBackend", fields={
        "stored": SID, "res": SID, "exc": SID, "hist": T.hist_t, "app": ObjT("App"),
    }, abstract_methods={
        "add_history": "StateBackend.add_history", "add_histories": "StateBackend.add_histories",
        "set_result": "StateBackend.set_result", "set_exception": "StateBackend.set_exception",
        "get_invocation": "StateBackend.get_invocation", "upsert_invocations": "StateBackend.upsert_invocations",
    }))
    reg.add_shape(Shape("Trigger", fields={"app": ObjT("App")}, abstract_methods={
        "report_tasks_status": "Trigger.report", "report_invocation_result": "Trigger.report2",
        "report_invocation_failure": "Trigger.report2",
    }))

    A = dict(assumed=True, check_invariants=False)

    # ------------------------------------------------------------------ orchestrator storage (same statements as C01 leaf contracts)
    def cell(c):
        return z3.Select(c.old("rec"), c.arg("invocation_id"))

    def err(c):
        return spec_step_error(T, cell(c), c.arg("status"), c.arg("runner_id"))

    def no_edge(c):
        from .common import spec_edge
        ost = Opt(T.Status)
        return z3.Not(spec_edge(T, ost.some(T.Record.get(OREC.val(cell(c)), "status")), c.arg("status")))
    reg.add(Contract(
        key="Orchestrator._atomic_status_transition", shape="Orchestrator",
        params={"invocation_id": ID, "status": T.Status, "runner_id": OSTR}, result=T.Record, frame=["rec"],
        defaults={"runner_id": lambda eng, st: NONE},
        requires=[("runner-id-none-or-nonempty", lambda c: runner_id_ok(c.arg("runner_id")))],
        cases=[
            Case("unknown-id", when=lambda c: OREC.is_none(cell(c)), raises="KeyError", exact=True,
                 ensures=[("unchanged", lambda c: c.f("rec") == c.old("rec"))]),
            Case("refused-no-such-edge", when=lambda c: z3.And(OREC.is_some(cell(c)), err(c), no_edge(c)), raises="InvocationStatusTransitionError", exact=True,
                 ensures=[("unchanged", lambda c: c.f("rec") == c.old("rec"))],
                 exc_fields={"from_status": lambda c: Val(Opt(T.Status).some(T.Record.get(OREC.val(cell(c)), "status")), Opt(T.Status))}),
            Case("refused-not-the-owner", when=lambda c: z3.And(OREC.is_some(cell(c)), err(c), z3.Not(no_edge(c))), raises="InvocationStatusOwnershipError", exact=True,
                 ensures=[("unchanged", lambda c: c.f("rec") == c.old("rec"))]),
            Case("accepted", when=lambda c: z3.And(OREC.is_some(cell(c)), z3.Not(err(c))), ensures=[
                ("only-this-record", lambda c: c.f("rec") == z3.Store(c.old("rec"), c.arg("invocation_id"), rec_t.opt.some(c.result))),
                ("status", lambda c: T.Record.get(c.result, "status") == c.arg("status")),
                ("owner", lambda c: T.Record.get(c.result, "runner_id") == spec_new_owner(T, cell(c), c.arg("status"), c.arg("runner_id"))),
                ("owner-ok", lambda c: runner_id_ok(T.Record.get(c.result, "runner_id"))),
            ]),
        ], note="C01 contract of _atomic_status_transition (proved for Mem, glue+bounded for SQLite)", **A))
    reg.add(Contract(
        key="Orchestrator.get_invocation_status_record", shape="Orchestrator", params={"invocation_id": ID}, result=T.Record, frame=[],
        cases=[
            Case("unknown-id", when=lambda c: OREC.is_none(cell(c)), raises="KeyError", exact=True),
            Case("known", when=lambda c: OREC.is_some(cell(c)), ensures=[("stored", lambda c: c.result == OREC.val(cell(c)))]),
        ], effect_events=False, **A))
    invs_t = SeqT(T.Invocation)
    reg.add(Contract(
        key="Orchestrator._register_new_invocations", shape="Orchestrator",
        params={"invocations": invs_t, "runner_id": OSTR}, result=T.Record, frame=["rec", "retries"],
        defaults={"runner_id": lambda eng, st: NONE},
        cases=[Case("registered", ensures=[
            ("REGISTERED", lambda c: T.Record.get(c.result, "status") == T.S("REGISTERED")),
            ("registered-by", lambda c: T.Record.get(c.result, "runner_id") == c.arg("runner_id")),
            ("exactly-these", lambda c: _registered(T, c)),
        ])], **A))
    reg.add(Contract(
        key="Orchestrator.index_arguments_for_concurrency_control", shape="Orchestrator", params={"invocation": T.Invocation},
        frame=["indexed"],
        cases=[Case("indexed", ensures=[("adds-the-id", lambda c: c.f("indexed") == z3.Store(
            c.old("indexed"), T.Invocation.get(c.arg("invocation"), "invocation_id"), True))])], **A))
    reg.add(Contract(
        key="Orchestrator.set_up_invocation_auto_purge", shape="Orchestrator", params={"invocation_id": ID}, frame=["purge_set"],
        cases=[Case("scheduled", ensures=[("adds", lambda c: c.f("purge_set") == z3.Store(c.old("purge_set"), c.arg("invocation_id"), True))])], **A))
    ret_t = MapT(ID, INT)
    reg.add(Contract(
        key="Orchestrator.increment_invocation_retries", shape="Orchestrator", params={"invocation_id": ID}, frame=["retries"],
        cases=[Case("incremented", ensures=[("plus-one", lambda c: c.f("retries") == z3.Store(
            c.old("retries"), c.arg("invocation_id"),
            ret_t.opt.some(z3.If(ret_t.opt.is_some(z3.Select(c.old("retries"), c.arg("invocation_id"))),
                                 ret_t.opt.val(z3.Select(c.old("retries"), c.arg("invocation_id"))), 0) + 1)))])], **A))
    reg.add(Contract(
        key="Orchestrator.get_invocation_retries", shape="Orchestrator", params={"invocation_id": ID}, result=INT, frame=[],
        cases=[Case("count", ensures=[("stored-or-zero", lambda c: c.result == z3.If(
            ret_t.opt.is_some(z3.Select(c.old("retries"), c.arg("invocation_id"))),
            ret_t.opt.val(z3.Select(c.old("retries"), c.arg("invocation_id"))), 0))])], effect_events=False, **A))

    # existing invocations: same task, status in the list, and (no key filter, or indexed with an equal key)
    OKEYS = Opt(KEYS)
    ST_SEQ = SeqT(T.Status)

    def existing(c):
        j = z3.Const(fresh_name("j"), ID.sort())
        rec = c.old("rec")
        task_ok = task_of(T, j) == T.TaskRec.get(c.arg("task"), "task_id")
        st_ok = z3.Contains(c.arg("statuses"), z3.Unit(status_of(T, rec, j)))
        keyf = c.arg("key_serialized_arguments")
        key_ok = z3.Or(OKEYS.is_none(keyf), z3.And(z3.Select(c.old("indexed"), j), T.key_match(j, OKEYS.val(keyf))))
        return z3.ForAll([j], z3.Select(c.out_set_call, j) == z3.And(known(T, rec, j), task_ok, st_ok, key_ok))
    T.key_match = z3.Function("key_match", ID.sort(), KEYS.sort(), z3.BoolSort())   # all key pairs of the filter are indexed for id
    reg.add(Contract(
        key="Orchestrator.get_existing_invocations", shape="Orchestrator",
        params={"task": T.TaskRec, "key_serialized_arguments": OKEYS, "statuses": ST_SEQ}, generator=ID, frame=[],
        defaults={"key_serialized_arguments": lambda eng, st: NONE},
        cases=[Case("matches", ensures=[("exactly-the-matching-ids", existing)])], effect_events=False, **A))

    # ------------------------------------------------------------------ blocking control
    reg.add(Contract(
        key="BlockingControl.release_waiters", shape="BlockingControl", params={"waited_invocation_id": ID}, frame=["waited", "edges_to"],
        cases=[Case("released", ensures=[
            ("nothing-waits-on-it", lambda c: c.f("waited") == z3.Store(c.old("waited"), c.arg("waited_invocation_id"), False)),
            ("edges-into-it-removed", lambda c: c.f("edges_to") == z3.Store(c.old("edges_to"), c.arg("waited_invocation_id"),
                                                                         MapT(ID, SID).opt.none())),
        ])], note="C09 contract of release_waiters (proved for MemBlockingControl)", **A))
    reg.add(Contract(
        key="BlockingControl.waiting_for_results", shape="BlockingControl",
        params={"caller_invocation_id": ID, "result_invocation_ids": SID}, frame=["waited", "edges_to"],
        cases=[Case("edges", ensures=[("awaited-become-waited", lambda c: c.f("waited") == ops.set_union(c.old("waited"), c.arg("result_invocation_ids")))])],
        **A))
    reg.add(Contract(
        key="BlockingControl.get_blocking_invocations", shape="BlockingControl", params={"max_num_invocations": INT}, generator=ID, frame=[],
        cases=[Case("ready", ensures=[
            ("subset-of-waited", lambda c: ops.set_subset(c.out_set_call, c.old("waited"), ID.sort())),
            ("at-most-n", lambda c: z3.And(c.out_count_call <= z3.If(c.arg("max_num_invocations") > 0, c.arg("max_num_invocations"), 0),
                                            c.out_count_call >= 0)),
        ])], effect_events=False, **A))

    # ------------------------------------------------------------------ broker: multiset abstraction of the C08 sequence contracts
    # (order is C08's business; the glue only needs "is a message for this id deliverable")
    def bag_all_zero(b):
        i = z3.Const(fresh_name("bi"), ID.sort())
        return z3.ForAll([i], z3.Select(b, i) == 0)
    reg.add(Contract(key="Broker.route_invocation", shape="Broker", params={"invocation_id": ID}, frame=["queue"],
                     cases=[Case("append", ensures=[("one-more-message-for-the-id", lambda c: c.f("queue") == z3.Store(
                         c.old("queue"), c.arg("invocation_id"), z3.Select(c.old("queue"), c.arg("invocation_id")) + 1))])], **A))

    def route_many(c):
        i = z3.Const(fresh_name("ri"), ID.sort())
        S = ops.seq_elems(c.arg("invocation_ids"), ID.sort())
        return z3.ForAll([i], z3.If(z3.Select(S, i), z3.Select(c.f("queue"), i) >= z3.Select(c.old("queue"), i) + 1,
                                    z3.Select(c.f("queue"), i) == z3.Select(c.old("queue"), i)))
    reg.add(Contract(key="Broker.route_invocations", shape="Broker", params={"invocation_ids": QT}, frame=["queue"],
                     cases=[Case("append-all", ensures=[("at-least-one-more-message-per-listed-id-others-unchanged", route_many)])], **A))
    reg.add(Contract(key="Broker.retrieve_invocation", shape="Broker", params={}, result=OID, frame=["queue"], cases=[
        Case("empty", when=lambda c: bag_all_zero(c.old("queue")), ensures=[
            ("none", lambda c: OID.is_none(c.result)), ("same", lambda c: c.f("queue") == c.old("queue"))]),
        Case("head", when=lambda c: z3.Not(bag_all_zero(c.old("queue"))), ensures=[
            ("a-queued-id", lambda c: z3.And(OID.is_some(c.result), z3.Select(c.old("queue"), OID.val(c.result)) > 0)),
            ("one-message-less", lambda c: c.f("queue") == z3.Store(c.old("queue"), OID.val(c.result), z3.Select(c.old("queue"), OID.val(c.result)) - 1))]),
    ], **A))
    reg.add(Contract(key="Broker.count_invocations", shape="Broker", params={}, result=INT, frame=[], effect_events=False,
                     cases=[Case("len", ensures=[("nonneg", lambda c: c.result >= 0)])], **A))

    # ------------------------------------------------------------------ state backend
    hist_t = T.hist_t

    def hist_get(h, i):
        cellh = z3.Select(h, i)
        return z3.If(hist_t.opt.is_some(cellh), hist_t.opt.val(cellh), SeqT(T.Record).empty())
    T.hist_get = hist_get
    reg.add(Contract(
        key="StateBackend.add_history", shape="StateBackend",
        params={"invocation_id": ID, "status_record": T.Record, "runner_context": T.RunnerCtx}, frame=["hist"],
        cases=[Case("appended", ensures=[("one-entry-appended-for-this-id", lambda c: c.f("hist") == z3.Store(
            c.old("hist"), c.arg("invocation_id"),
            hist_t.opt.some(z3.Concat(hist_get(c.old("hist"), c.arg("invocation_id")), z3.Unit(c.arg("status_record"))))))])], **A))
    reg.add(Contract(
        key="StateBackend.add_histories", shape="StateBackend",
        params={"invocations": invs_t, "status_record": T.Record, "runner_context": T.RunnerCtx}, frame=["hist"],
        cases=[Case("appended", ensures=[("one-entry-per-invocation", lambda c: _hist_many(T, c, hist_get))])], **A))
    # a storage write may fail (serialisation error, I/O fault): then nothing is stored and the fault propagates
    reg.add(Contract(key="StateBackend.set_result", shape="StateBackend", params={"invocation_id": ID, "result": Atom("Payload")},
                     frame=["res"], cases=[Case("stored", ensures=[("res", lambda c: c.f("res") == z3.Store(c.old("res"), c.arg("invocation_id"), True))]),
                                           Case("storage-fault", raises="Exception", ensures=[("nothing-stored", lambda c: c.f("res") == c.old("res"))])], **A))
    reg.add(Contract(key="StateBackend.set_exception", shape="StateBackend", params={"invocation_id": ID, "exception": Atom("Payload")},
                     frame=["exc"], cases=[Case("stored", ensures=[("exc", lambda c: c.f("exc") == z3.Store(c.old("exc"), c.arg("invocation_id"), True))]),
                                           Case("storage-fault", raises="Exception", ensures=[("nothing-stored", lambda c: c.f("exc") == c.old("exc"))])], **A))
    reg.add(Contract(
        key="StateBackend.get_invocation", shape="StateBackend", params={"invocation_id": ID}, result=T.Invocation, frame=[],
        cases=[
            Case("missing", when=lambda c: z3.Not(z3.Select(c.old("stored"), c.arg("invocation_id"))), raises="InvocationNotFoundError", exact=True),
            Case("stored", when=lambda c: z3.Select(c.old("stored"), c.arg("invocation_id")), ensures=[
                ("the-invocation-of-that-id", lambda c: z3.And(c.result == T.inv_of(c.arg("invocation_id")), inv_axioms(T, c.arg("invocation_id"))))]),
        ], effect_events=False, **A))
    reg.add(Contract(
        key="StateBackend.upsert_invocations", shape="StateBackend", params={"invocations": invs_t}, frame=["stored"],
        cases=[Case("stored", ensures=[("all-stored", lambda c: _stored_many(T, c))])], **A))
    # ------------------------------------------------------------------ trigger: reports only write the trigger store
    reg.add(Contract(key="Trigger.report", shape="Trigger", params={"invocation_ids": Atom("Any1"), "status": T.Status}, frame=[],
                     cases=[Case("reported")], effect_events=False, handler=lambda eng, st, recv, args, kwargs: [(OK, st, NONE)], **A))
    reg.add(Contract(key="Trigger.report2", shape="Trigger", params={}, frame=[], cases=[Case("reported")], effect_events=False,
                     handler=lambda eng, st, recv, args, kwargs: [(OK, st, NONE)], **A))


def _registered(T, c):
    i = z3.Const(fresh_name("i"), ID.sort())
    rec_t = MapT(ID, T.Record)
    S = id_set(T, c.arg("invocations"))
    return z3.ForAll([i], z3.Select(c.f("rec"), i) == z3.If(
        z3.And(z3.Select(S, i), z3.Not(rec_t.opt.is_some(z3.Select(c.old("rec"), i)))), rec_t.opt.some(c.result), z3.Select(c.old("rec"), i)))


def _hist_many(T, c, hist_get):
    hist_t = T.hist_t
    i = z3.Const(fresh_name("i"), ID.sort())
    S = id_set(T, c.arg("invocations"))
    return z3.ForAll([i], z3.Select(c.f("hist"), i) == z3.If(
        z3.Select(S, i), hist_t.opt.some(z3.Concat(hist_get(c.old("hist"), i), z3.Unit(c.arg("status_record")))), z3.Select(c.old("hist"), i)))


def _stored_many(T, c):
    i = z3.Const(fresh_name("i"), ID.sort())
    S = id_set(T, c.arg("invocations"))
    return z3.ForAll([i], z3.Select(c.f("stored"), i) == z3.Or(z3.Select(c.old("stored"), i), z3.Select(S, i)))
