"""Call resolution: builtins, collection methods, contracts (modular), inlining."""
from __future__ import annotations

import ast

import z3

from . import ops
from .contract import Contract
from .engine import BUILTIN_EXC, LOGGER_RE, Ctx, Engine, _const_int
from .ops import Unsupported, coerce, contains, truthy, values_equal
from .source import loop_nodes
from .stmts import MUTATORS
from .types import BOOL, DATETIME, INT, REAL, STR, Atom, Enum, MapT, ObjT, Opt, OpaqueT, Record, SeqT, SetT, Ty
from .values import (BRK, CONT, NONE, OK, RAISE, RET, BoundMeth, BuiltinVal, ExcVal, FuncVal, GenVal, LambdaVal, ListVal,
                     ModVal, Native, NoneVal, ObjRef, State, TupleVal, Val, bind, boolval, fresh_name, mk_fresh)


def e_Call(self: Engine, node: ast.Call, st: State):
    d = self.dotted(node.func)
    if d and LOGGER_RE.search(d):
        self.dropped.add("logger call")
        return [(OK, st, NONE)]
    if d and any(r.search(d) for r in self.reg.dropped_calls):
        self.dropped.add(d)
        return [(OK, st, NONE)]
    if d == "warnings.warn":
        self.dropped.add("warnings.warn")
        return [(OK, st, NONE)]
    star = [a for a in node.args if isinstance(a, ast.Starred)]
    if star and (len(star) > 1 or node.args[-1] is not star[0]):
        raise Unsupported("star-args in call (only one, in last position)")
    # `*seq` (last positional) and `**mapping` are only handed through to callees with an assumed handler (it arrives under the key "**")

    # special forms that must see the AST
    if isinstance(node.func, ast.Name) and node.func.id in ("next", "any", "all", "list", "set", "sorted", "sum", "frozenset", "tuple", "max", "min") \
            and node.args and isinstance(node.args[0], (ast.GeneratorExp, ast.ListComp, ast.SetComp)) and node.func.id not in st.env:
        return self.call_on_comprehension(node, st)

    def with_func(s, fv):
        def with_args(s2, argvals):
            n = len(node.args)
            args = argvals[:n]
            kwargs = {(k.arg if k.arg is not None else "**"): v for k, v in zip(node.keywords, argvals[n:])}
            if star:
                kwargs["*"] = args[-1]
                args = args[:-1]
            # which arguments are plain local names (needed when a contract says the callee mutates that argument)
            self._arg_locals = ([a.id if isinstance(a, ast.Name) else None for a in node.args],
                                {k.arg: (k.value.id if isinstance(k.value, ast.Name) else None) for k in node.keywords})
            return self.call_value(s2, fv, args, kwargs, node)
        return bind(self.eval_many([(a.value if isinstance(a, ast.Starred) else a) for a in node.args] + [k.value for k in node.keywords], s), with_args)

    if isinstance(node.func, ast.Attribute):
        def with_recv(s, recv):
            fv = self.getattr(s, recv, node.func.attr, node.func)
            if isinstance(fv, BoundMeth) and isinstance(recv, Val) and fv.lv is None:
                fv.lv = recv.origin
                if fv.lv is None and isinstance(node.func.value, ast.Name) and node.func.value.id in s.env:
                    fv.lv = ("local", node.func.value.id)
            return with_func(s, fv)
        return bind(self.eval(node.func.value, st), with_recv)
    return bind(self.eval(node.func, st), with_func)


def call_value(self: Engine, st, fv, args, kwargs, node=None):
    if isinstance(fv, ObjRef):          # calling an object: its shape names the contract of __call__
        ckey = getattr(self.reg.shapes.get(fv.shape), "callable", None)
        if ckey and ckey in self.reg.contracts and self.reg.contracts[ckey].handler:
            return self.reg.contracts[ckey].handler(self, st, fv, args, kwargs)
        raise Unsupported(f"call of an object of shape {fv.shape}")
    if isinstance(fv, BuiltinVal):
        return self.builtin_call(st, fv.name, args, kwargs, node)
    if isinstance(fv, Native):
        return fv.vc_call(self, st, "__call__", args, kwargs)
    if isinstance(fv, LambdaVal):
        raise Unsupported("call of lambda")
    if isinstance(fv, FuncVal):
        if fv.kind == "exc":
            fields = dict(kwargs)
            for i, a in enumerate(args):
                fields[f"arg{i}"] = a
            return [(OK, st, ExcVal(fv.name, fields=fields))]
        if fv.kind == "class":
            return self.construct(st, fv, args, kwargs)
        return self.call_function(st, fv.key, None, args, kwargs)
    if isinstance(fv, BoundMeth):
        recv = fv.recv
        if isinstance(recv, Native):
            return recv.vc_call(self, st, fv.name, args, kwargs)
        if isinstance(recv, ObjRef):
            return self.call_method(st, recv, fv.name, args, kwargs)
        if isinstance(recv, FuncVal) and recv.kind in ("class", "exc"):
            return self.call_classmethod(st, recv, fv.name, args, kwargs)
        if isinstance(recv, (Val, ListVal, TupleVal, GenVal)):
            return self.value_method(st, recv, fv.name, args, kwargs, fv.lv)
    raise Unsupported(f"call of {fv!r}")


# ---------------------------------------------------------------------- construction
def construct(self, st, fv: FuncVal, args, kwargs):
    key = fv.key
    if key in self.reg.records:
        ty = self.reg.records[key]
        terms = []
        for i, (fname, fty) in enumerate(ty.fields):
            if i < len(args):
                v = args[i]
            elif fname in kwargs:
                v = kwargs[fname]
            else:
                dflt = getattr(ty, "defaults", {}).get(fname)
                if dflt is None:
                    if isinstance(fty, Opt):
                        terms.append(fty.none())      # an optional field left out: its Python default is None (checked against the class by the record declaration)
                        continue
                    raise Unsupported(f"missing field {fname} constructing {ty.name}")
                v = dflt(self, st)
            terms.append(coerce(v, fty).term)
        return [(OK, st, Val(ty.make(*terms), ty))]
    if key in self.reg.enums:
        ety = self.reg.enums[key]
        if len(args) == 1 and isinstance(args[0], Val) and args[0].ty == STR:
            # Enum(value): ValueError when no member has that value
            s = args[0].term
            res = mk_fresh(ety, "enumof")
            conds = [z3.And(s == z3.StringVal(str(ety.values.get(m, m))), res.term == ety.const(m)) for m in ety.members]
            valid = z3.Or([s == z3.StringVal(str(ety.values.get(m, m))) for m in ety.members])
            out = []
            for s2, ok in self.branch(st, valid, "enum-value"):
                if ok:
                    s2.assume(z3.Or(conds))
                    out.append((OK, s2, res))
                else:
                    out.append((RAISE, s2, ExcVal("ValueError")))
            return out
        raise Unsupported(f"enum construction {key}")
    ckey = f"{key}.__init__"
    if ckey in self.reg.contracts and self.reg.contracts[ckey].handler:
        return self.reg.contracts[ckey].handler(self, st, args, kwargs)
    if key in self.reg.class_shapes:
        raise Unsupported(f"construction of {key} (no constructor contract)")
    # plain helper classes listed as opaque constructors
    if key in getattr(self.reg, "opaque_ctors", {}):
        return self.reg.opaque_ctors[key](self, st, args, kwargs)
    raise Unsupported(f"construction of {key}")


# ---------------------------------------------------------------------- functions / methods
def find_contract_for_method(self, recv: ObjRef, meth: str):
    """Contract of a method on an object: abstract component contract, or the real
    class' contract looked up along its bases."""
    shape = self.reg.shapes[recv.shape]
    if meth in shape.abstract_methods:
        return self.reg.contracts[shape.abstract_methods[meth]], None
    if shape.cls:
        seen, todo = set(), [shape.cls]
        while todo:
            m, c = todo.pop(0)
            if (m, c) in seen:
                continue
            seen.add((m, c))
            key = f"{m}:{c}.{meth}"
            if key in self.reg.contracts:
                return self.reg.contracts[key], key
            if self.src.has_module(m):
                if self.src.has_function(key):
                    return None, key  # real method without contract
                try:
                    todo.extend(self.src.class_bases(m, c))
                except Exception:
                    pass
    return None, None


def call_method(self, st, recv: ObjRef, meth: str, args, kwargs):
    contract, key = self.find_contract_for_method(recv, meth)
    top = getattr(self, "top_contract", None)
    if top is not None and self.call_depth == 0 and meth in getattr(top, "call_overrides", {}):
        contract, key = self.reg.contracts[top.call_overrides[meth]], None   # the function under verification sees this callee contract
    if contract is not None:
        if contract.handler:
            self.note_assumed(contract)
            return contract.handler(self, st, recv, args, kwargs)
        if contract.inline:
            return self.inline_call(st, key or contract.key, recv, args, kwargs, contract)
        return self.apply_contract(st, contract, recv, args, kwargs)
    if key is not None:
        return self.inline_call(st, key, recv, args, kwargs, None)
    raise Unsupported(f"method {recv.shape}.{meth} has neither contract nor source")


def call_function(self, st, key: str, recv, args, kwargs):
    contract = self.reg.contracts.get(key)
    if contract is not None:
        if contract.handler:
            self.note_assumed(contract)
            return contract.handler(self, st, recv, args, kwargs)
        if not contract.inline:
            return self.apply_contract(st, contract, recv, args, kwargs)
    modname = key.split(":")[0]
    if self.src.has_module(modname) and self.src.has_function(key):
        return self.inline_call(st, key, recv, args, kwargs, contract)
    raise Unsupported(f"call to {key}: no contract and not a repository function")


def call_classmethod(self, st, cls: FuncVal, meth: str, args, kwargs):
    key = f"{cls.key}.{meth}"
    contract = self.reg.contracts.get(key)
    if contract is not None and contract.handler:
        self.note_assumed(contract)
        return contract.handler(self, st, cls, args, kwargs)
    if contract is not None and not contract.inline:
        return self.apply_contract(st, contract, None, args, kwargs)
    if self.src.has_function(key):
        return self.inline_call(st, key, cls, args, kwargs, contract)
    raise Unsupported(f"classmethod {key}")


def bind_params(self, fn_node, recv, args, kwargs, contract, st, key):
    """Python argument binding for the real signature (defaults evaluated in the callee's module)."""
    a = fn_node.args
    names = [x.arg for x in a.posonlyargs + a.args]
    env = {}
    is_static = any(isinstance(d, ast.Name) and d.id == "staticmethod" for d in fn_node.decorator_list)
    pos = list(args)
    if recv is not None and names and not is_static and names[0] in ("self", "cls"):
        env[names[0]] = recv
        names = names[1:]
    if len(pos) > len(names):
        raise Unsupported(f"too many positional args for {key}")
    for n, v in zip(names, pos):
        env[n] = v
    for k, v in kwargs.items():
        env[k] = v
    defaults = a.defaults
    dnames = names[len(names) - len(defaults):] if defaults else []
    for n, dnode in zip(dnames, defaults):
        if n not in env:
            env[n] = ("default", dnode)
    for kw, dnode in zip(a.kwonlyargs, a.kw_defaults):
        if kw.arg not in env and dnode is not None:
            env[kw.arg] = ("default", dnode)
    return env


def inline_call(self, st, key: str, recv, args, kwargs, contract):
    if self.call_depth > 6:
        raise Unsupported(f"inline depth exceeded at {key}")
    fi = self.src.function(key)
    self.inlined.add(key)
    env = self.bind_params(fi.node, recv, args, kwargs, contract, st, key)
    saved_env, saved_fn, saved_contract = st.env, self.cur_fn, self.cur_contract
    saved_ord = self.loop_ordinals
    saved_gen = {g: st.ghost.get(g) for g in ("$out_set", "$out_count", "$out_seq", "$yield_hook", "$yield_conv")}
    self.module_stack.append(fi.module.name)
    self.cur_fn = fi
    self.cur_contract = contract
    self.loop_ordinals = {id(n): i for i, n in enumerate(loop_nodes(fi.node))}
    self.call_depth += 1
    is_gen = any(isinstance(n, (ast.Yield, ast.YieldFrom)) for n in ast.walk(fi.node))
    try:
        st.env = {}
        for n, v in env.items():
            if isinstance(v, tuple) and len(v) == 2 and v[0] == "default":
                res = self.eval(v[1], st)
                if len(res) != 1 or res[0][0] != OK:
                    raise Unsupported("complex default")
                st.env[n] = res[0][2]
            else:
                st.env[n] = v
        if contract is None:
            # an uncontracted helper: a parameter annotated with a plain non-Optional type receives the inner value of an Optional
            # argument (the caller established that it is not None; otherwise this is the obligation that says so)
            for prm in fi.node.args.args:
                pv = st.env.get(prm.arg)
                if prm.annotation is not None and isinstance(pv, Val) and isinstance(pv.ty, Opt):
                    try:
                        aty = self._ann_type(prm.annotation)
                    except Exception:
                        aty = None
                    if aty is not None and not isinstance(aty, Opt):
                        st.env[prm.arg] = self.need(st, pv, aty)
        if contract is not None:
            for pn, pty in contract.params.items():
                if pn in st.env and isinstance(st.env[pn], (NoneVal, ListVal)) or (pn in st.env and isinstance(st.env[pn], Val) and st.env[pn].ty != pty):
                    try:
                        st.env[pn] = coerce(st.env[pn], pty)
                    except Unsupported:
                        pass
        if is_gen:
            ety = contract.generator if contract is not None and contract.generator else None
            if ety is None:
                raise Unsupported(f"inlined generator {key} needs a contract with generator type")
            st.ghost["$out_set"] = Val(SetT(ety).empty(), SetT(ety))
            st.ghost["$out_count"] = Val(z3.IntVal(0), INT)
            st.ghost.pop("$out_seq", None)
            st.ghost.pop("$yield_hook", None)
            st.ghost.pop("$yield_conv", None)
        out = []
        for kind, s, v in self.exec_block(fi.node.body, st):
            s.env = saved_env if s is st else dict(saved_env)
            if is_gen and kind in (OK, RET):
                v = GenVal(ety, s.ghost["$out_set"].term, s.ghost["$out_count"].term)
            if is_gen:
                for g, gv in saved_gen.items():
                    if gv is None:
                        s.ghost.pop(g, None)
                    else:
                        s.ghost[g] = gv
            if kind == RET:
                out.append((OK, s, v))
            elif kind == OK:
                out.append((OK, s, v if is_gen else NONE))
            elif kind == RAISE:
                out.append((RAISE, s, v))
            else:
                raise Unsupported("break/continue escaping function")
        return out
    finally:
        self.call_depth -= 1
        self.module_stack.pop()
        self.cur_fn, self.cur_contract, self.loop_ordinals = saved_fn, saved_contract, saved_ord
        st.env = saved_env


def contract_args(self, contract: Contract, key, recv, args, kwargs, st):
    """Bind call-site arguments to the contract's parameter names (order from the real signature if present)."""
    names = list(contract.params.keys())
    order = names
    modname = contract.key.split(":")[0]
    if ":" in contract.key and self.src.has_module(modname) and self.src.has_function(contract.key):
        node = self.src.function(contract.key).node
        order = [x.arg for x in node.args.posonlyargs + node.args.args if x.arg not in ("self", "cls")]
        order += [x.arg for x in node.args.kwonlyargs]
    if recv is None and "self" in contract.params and "self" not in order:
        order = ["self"] + order
    bound = {}
    for n, v in zip(order, args):
        bound[n] = v
    bound.update(kwargs)
    out = {}
    for n in names:
        if n in bound:
            v = bound[n]
        elif n in contract.defaults:
            v = contract.defaults[n](self, st)
        else:
            raise Unsupported(f"missing argument {n} for {contract.key}")
        ty = contract.params[n]
        so = getattr(self.reg, "str_of", {}).get(getattr(getattr(v, "ty", None), "name", None)) if isinstance(v, Val) else None
        if so is not None and ty == STR:
            v = Val(so(v), STR)
        if isinstance(v, ExcVal) and isinstance(ty, Atom):
            v = v.fields["payload"] if "payload" in v.fields and isinstance(v.fields["payload"], Val) and v.fields["payload"].ty == ty else mk_fresh(ty, "excobj")
        if isinstance(v, ObjRef) and not isinstance(ty, ObjT) and self.has_field(v, "view"):
            v = self.heap_read(st, v, "view")    # an object passed where the contract speaks about its record view
        if isinstance(ty, ObjT):
            out[n] = v
        else:
            if isinstance(v, Val) and isinstance(v.ty, Opt) and not isinstance(ty, Opt):
                v = self.unwrap_opt(st, v, f"argument {n} of {_short(contract.key)}")
            out[n] = coerce(v, ty)
    for n in bound:
        if n not in out:
            extra_ok = getattr(contract, "ignore_params", ())
            if n not in extra_ok:
                raise Unsupported(f"argument {n} not covered by contract {contract.key}")
    return out


def _param_order(self, contract: Contract):
    names = list(contract.params.keys())
    modname = contract.key.split(":")[0]
    if ":" in contract.key and self.src.has_module(modname) and self.src.has_function(contract.key):
        node = self.src.function(contract.key).node
        return [x.arg for x in node.args.posonlyargs + node.args.args if x.arg not in ("self", "cls")] + [x.arg for x in node.args.kwonlyargs]
    return names


def frame_cells(self, st, recv, contract: Contract):
    cells = []
    for path in contract.frame:
        ref = recv
        parts = path.split(".")
        for p in parts[:-1]:
            ref = self.heap_read(st, ref, p)
        self.heap_read(st, ref, parts[-1])
        cells.append((ref.oid, parts[-1], ref))
    return cells


def apply_contract(self, st, contract: Contract, recv, args, kwargs):
    """Modular call: assert requires, havoc the frame, assume one case's ensures."""
    self.note_assumed(contract)
    arg_locals = getattr(self, "_arg_locals", ([], {}))
    self._arg_locals = ([], {})
    bound = self.contract_args(contract, contract.key, recv, args, kwargs, st)
    top = getattr(self, "top_contract", None)
    if top is contract and getattr(contract, "decreases", None) is not None:
        # recursive call: the measure is non-negative at entry and strictly smaller at the call (termination + well-founded use of the contract)
        m_now = contract.decreases(Ctx(self, st, recv, bound))
        m_entry = st.ghost["$measure0"]
        self.oblige(st, z3.And(m_entry >= 0, m_now < m_entry, m_now >= 0), f"call:{_short(contract.key)}:decreases", "requires")
    mutable = list(getattr(contract, "mutable_params", ()))
    local_of = {}
    if mutable:
        order = self._param_order(contract)
        for i, nm in enumerate(arg_locals[0]):
            if i < len(order) and nm:
                local_of[order[i]] = nm
        for pn, nm in arg_locals[1].items():
            if nm:
                local_of[pn] = nm
    pre_heap = dict(st.heap)
    ctx0 = Ctx(self, st, recv, bound, pre_heap=pre_heap)
    for name, f in contract.requires:
        self.oblige(st, f(ctx0), f"call:{_short(contract.key)}:requires:{name}", "requires")
    inv_shape = None
    if recv is not None and contract.shape and contract.check_invariants and isinstance(recv, ObjRef) and not contract.assumed:
        # the callee assumes the representation invariant of its receiver at entry and re-establishes it at exit
        inv_shape = self.reg.shapes.get(recv.shape)
        if inv_shape is not None and inv_shape.invariants:
            for name, f in inv_shape.invariants:
                self.oblige(st, f(Ctx(self, st, recv, bound)), f"call:{_short(contract.key)}:inv-before:{name}", "requires")
    out = []
    cells = self.frame_cells(st, recv, contract) if recv is not None else []
    for case in contract.cases:
        s = st.fork()
        cpre = Ctx(self, s, recv, bound, pre_heap=pre_heap)
        if case.when is not None:
            s.assume(case.when(cpre))
            if not quick_sat(s.pc):
                self.infeasible_paths += 1
                continue
        s.trail.append(f"{_short(contract.key)}:{case.name}")
        for oid, fld, ref in cells:
            cur = s.heap[(oid, fld)]
            if isinstance(cur, Val):
                s.heap[(oid, fld)] = mk_fresh(cur.ty, f"post.{fld}")
        result = NONE
        extra = {}
        if case.raises is None:
            if contract.generator is not None:
                ety = contract.generator
                gs = z3.Const(fresh_name("gen_set"), SetT(ety).sort())
                gc = z3.Int(fresh_name("gen_count"))
                sq = z3.Const(fresh_name("gen_seq"), SeqT(ety).sort()) if contract.gen_seq else None
                result = GenVal(ety, gs, gc, sq)
                s.assume(gc >= 0)
                extra = {"$out_set": gs, "$out_count": gc, "$out_seq": sq}
            elif contract.result is not None:
                if isinstance(contract.result, ObjT):
                    result = self.new_obj(contract.result.shape)
                elif isinstance(contract.result, list):
                    result = TupleVal([mk_fresh(t, "res") for t in contract.result])
                else:
                    result = mk_fresh(contract.result, "res")
        for pn in mutable:
            pv = mk_fresh(contract.params[pn], f"post.{pn}")
            extra[f"post:{pn}"] = pv.term
            if pn in local_of and local_of[pn] in s.env:
                s.env[local_of[pn]] = pv
            elif isinstance(bound.get(pn), Val) and bound[pn].origin is not None:
                self.write_lv(s, bound[pn].origin, pv)
        cpost = Ctx(self, s, recv, bound, result=result, pre_heap=pre_heap, extra=extra)
        for name, f in case.ensures:
            s.assume(f(cpost))
        if inv_shape is not None:
            for name, f in inv_shape.invariants:
                s.assume(f(Ctx(self, s, recv, bound)))
        if contract.effect_events and (contract.frame or getattr(contract, "event", None) or case.raises):
            s.events.append({"ev": "call", "key": contract.key, "case": case.name, "args": bound, "result": result,
                             "perms": tuple(s.perms)})
            for h in self.step_hooks:
                h(self, s, f"after:{_short(contract.key)}:{case.name}")
        if case.raises is None:
            out.append((OK, s, result))
        else:
            out.append((RAISE, s, ExcVal(case.raises, exact=case.exact, fields={k: f(cpost) for k, f in case.exc_fields.items()})))
    if not out:
        self.infeasible_paths += 1
    return out


def _short(key: str) -> str:
    return key.split(":")[-1]


from .solve import quick_sat  # noqa: E402


# ---------------------------------------------------------------------- comprehension special forms
def call_on_comprehension(self, node: ast.Call, st):
    fn = node.func.id
    comp = node.args[0]
    if len(comp.generators) != 1 or comp.generators[0].is_async:
        raise Unsupported("nested comprehension")
    g = comp.generators[0]

    def with_iter(s, it):
        # next(i for i, r in enumerate(seq) if cond)  -> first matching index / element
        if fn == "next":
            return self.next_on_genexp(node, comp, g, s, it)
        if isinstance(it, (ListVal, TupleVal)):
            vals = []
            states = [(OK, s, [])]
            for item in it.items:
                def step(s2, acc, item=item):
                    outs = []
                    for _k, s3, _v in self.assign_target(g.target, item, s2):
                        conds = [(OK, s3, [])]
                        res = bind(self.eval_many(list(g.ifs) + [comp.elt], s3),
                                   lambda s4, vs: [(OK, s4, acc + [(vs[:-1], vs[-1])])])
                        outs.extend(res)
                    return outs
                states = bind(states, step)
            def fin(s2, pairs):
                if fn in ("any", "all"):
                    terms = []
                    for conds, elt in pairs:
                        c = z3.And([truthy(x) for x in conds] or [z3.BoolVal(True)])
                        terms.append(z3.And(c, truthy(elt)) if fn == "any" else z3.Implies(c, truthy(elt)))
                    t = (z3.Or if fn == "any" else z3.And)(terms or [z3.BoolVal(fn == "all")])
                    return [(OK, s2, Val(t, BOOL))]
                if any(conds for conds, _ in pairs):
                    raise Unsupported("filtered comprehension over concrete list")
                return [(OK, s2, ListVal([e for _, e in pairs]))]
            return bind(states, fin)
        if isinstance(it, Val) and isinstance(it.ty, (SetT, SeqT)) and fn in ("any", "all", "set", "list", "frozenset"):
            ety = it.ty.elem
            x = z3.Const(fresh_name("cx"), ety.sort())
            s2 = s.fork()
            res = bind(self.assign_target(g.target, Val(x, ety), s2), lambda s3, _v: self.eval_many(list(g.ifs) + [comp.elt], s3))
            if len(res) != 1 or res[0][0] != OK:
                raise Unsupported("branching comprehension body")
            vs = res[0][2]
            member = z3.Select(it.term, x) if isinstance(it.ty, SetT) else z3.Contains(it.term, z3.Unit(x))
            cond = z3.And([member] + [truthy(c) for c in vs[:-1]])
            if fn in ("any", "all"):
                body = z3.And(cond, truthy(vs[-1])) if fn == "any" else z3.Implies(cond, truthy(vs[-1]))
                q = z3.Exists([x], body) if fn == "any" else z3.ForAll([x], body)
                return [(OK, s, Val(q, BOOL))]
            elt = vs[-1]
            if isinstance(elt, Val) and z3.eq(elt.term, x):
                return [(OK, s, Val(z3.Lambda([x], cond), SetT(ety)))] if fn != "list" else (_ for _ in ()).throw(Unsupported("list of filtered set"))
            raise Unsupported("mapping comprehension over symbolic collection")
        raise Unsupported(f"{fn}(comprehension) over {it!r}")
    return bind(self.eval(g.iter, st), with_iter)


def next_on_genexp(self, node, comp, g, st, it):
    default = node.args[1] if len(node.args) > 1 else None
    # enumerate(seq)
    if isinstance(it, TupleVal) and getattr(it, "enumerate_of", None) is not None:
        seq = it.enumerate_of
        ety = seq.ty.elem
        i = z3.Int(fresh_name("idx"))
        j = z3.Int(fresh_name("j"))
        n = z3.Length(seq.term)

        def cond_at(s, idx):
            s2 = s.fork()
            res = bind(self.assign_target(g.target, TupleVal([Val(idx, INT), Val(seq.term[idx], ety)]), s2),
                       lambda s3, _v: self.eval_many(list(g.ifs) + [comp.elt], s3))
            if len(res) != 1 or res[0][0] != OK:
                raise Unsupported("branching genexp")
            vs = res[0][2]
            return z3.And([truthy(c) for c in vs[:-1]] or [z3.BoolVal(True)]), vs[-1]
        ci, elt_i = cond_at(st, i)
        cj, _ = cond_at(st, j)
        found = st.fork()
        found.assume(z3.And(i >= 0, i < n, ci, z3.ForAll([j], z3.Implies(z3.And(j >= 0, j < i), z3.Not(cj)))))
        found.trail.append("next=found")
        missing = st.fork()
        missing.assume(z3.ForAll([j], z3.Implies(z3.And(j >= 0, j < n), z3.Not(cj))))
        missing.trail.append("next=exhausted")
        out = []
        if quick_sat(found.pc):
            out.append((OK, found, elt_i))
        if quick_sat(missing.pc):
            if default is None:
                out.append((RAISE, missing, ExcVal("StopIteration")))
            else:
                out.extend(self.eval(default, missing))
        return out
    # next(f(x) for x in <set-like> if cond(x)) : some element that satisfies the filter, or the default
    if isinstance(it, GenVal) or (isinstance(it, Val) and isinstance(it.ty, SetT)):
        ety = it.elem_ty if isinstance(it, GenVal) else it.ty.elem
        member = (lambda t: z3.Select(it.out_set, t)) if isinstance(it, GenVal) else (lambda t: z3.Select(it.term, t))
        out = []
        # (a) an element passing the filter exists: pick one (the filter is evaluated path by path)
        x0 = mk_fresh(ety, "pick")
        s_found = st.fork()
        s_found.assume(member(x0.term))
        s_found.trail.append("next=found")
        for kind, s1, vs in bind(self.assign_target(g.target, x0, s_found), lambda s3, _v: self.eval_many(list(g.ifs) + [comp.elt], s3)):
            if kind != OK:
                out.append((kind, s1, vs))
                continue
            s1.assume(z3.And([truthy(c) for c in vs[:-1]] or [z3.BoolVal(True)]))
            if quick_sat(s1.pc):
                out.append((OK, s1, vs[-1]))
        # (b) no element passes the filter: the merged filter condition is false for every member
        xq = z3.Const(fresh_name("nx"), ety.sort())
        scratch = st.fork()
        base = len(scratch.pc)
        alts, raising = [], []
        for kind, s1, vs in bind(self.assign_target(g.target, Val(xq, ety), scratch), lambda s3, _v: self.eval_many(list(g.ifs), s3)):
            if kind != OK:
                raising.append((z3.And(list(s1.pc[base:]) or [z3.BoolVal(True)]), vs))
                continue
            alts.append(z3.And(list(s1.pc[base:]) + [truthy(c) for c in vs] or [z3.BoolVal(True)]))
        passes = z3.Or(alts) if alts else z3.BoolVal(True)
        for rcond, exc in raising:   # (c) the filter raises for some member
            s_r = st.fork()
            s_r.assume(z3.Exists([xq], z3.And(member(xq), rcond)))
            if quick_sat(s_r.pc):
                out.append((RAISE, s_r, exc))
        s_none = st.fork()
        s_none.assume(z3.ForAll([xq], z3.Implies(member(xq), z3.And(z3.Not(passes), *[z3.Not(rc) for rc, _e in raising]))))
        s_none.trail.append("next=exhausted")
        if quick_sat(s_none.pc):
            if default is None:
                out.append((RAISE, s_none, ExcVal("StopIteration")))
            else:
                out.extend(self.eval(default, s_none))
        return out
    raise Unsupported("next(genexp) over this iterable")


# ---------------------------------------------------------------------- builtins
def builtin_call(self, st, name, args, kwargs, node=None):
    a = args
    if name == "len":
        v = a[0]
        if isinstance(v, (ListVal, TupleVal)):
            return [(OK, st, Val(z3.IntVal(len(v.items)), INT))]
        if isinstance(v, GenVal):
            return [(OK, st, Val(v.count, INT))]
        if isinstance(v, Val) and isinstance(v.ty, SeqT):
            return [(OK, st, Val(z3.Length(v.term), INT))]
        if isinstance(v, Val) and v.ty == STR:
            return [(OK, st, Val(z3.Length(v.term), INT))]
        if isinstance(v, Val) and isinstance(v.ty, SetT):
            c = ops.card(v.term, v.ty.elem.sort())
            st.assume(c >= 0)
            st.assume((c == 0) == (v.term == v.ty.empty()))
            return [(OK, st, Val(c, INT))]
        if isinstance(v, Val) and isinstance(v.ty, MapT):
            ks = ops.set_keys(v)
            c = ops.card(ks.term, v.ty.key.sort())
            st.assume(c >= 0)
            st.assume((c == 0) == (v.term == v.ty.empty()))
            return [(OK, st, Val(c, INT))]
        raise Unsupported(f"len of {v!r}")
    if name in ("list", "tuple"):
        if not a:
            return [(OK, st, ListVal([]))]
        v = a[0]
        if isinstance(v, (ListVal, TupleVal)):
            if getattr(v, "items_of", None) is not None:
                return [(OK, st, v)]        # list(d.items()) / list(d.values()): a snapshot; iteration uses the (key, value) view of the map
            return [(OK, st, ListVal(list(v.items)))]
        if isinstance(v, GenVal):
            return [(OK, st, v)]
        if isinstance(v, Val) and isinstance(v.ty, SeqT):
            return [(OK, st, Val(v.term, v.ty))]
        if isinstance(v, Val) and isinstance(v.ty, SetT):
            # a duplicate-free enumeration of the set in arbitrary order: iteration uses the set view
            return [(OK, st, Val(v.term, v.ty))]
        if isinstance(v, Val) and isinstance(v.ty, MapT):
            return [(OK, st, ops.set_keys(v))]
        raise Unsupported(f"list({v!r})")
    if name in ("set", "frozenset"):
        if not a:
            return [(OK, st, ListVal([]))]
        v = a[0]
        if isinstance(v, ListVal):
            return [(OK, st, v)]
        if isinstance(v, GenVal):
            return [(OK, st, Val(v.out_set, SetT(v.elem_ty)))]
        if isinstance(v, Val) and isinstance(v.ty, SetT):
            return [(OK, st, Val(v.term, v.ty))]
        if isinstance(v, Val) and isinstance(v.ty, SeqT):
            return [(OK, st, coerce(v, SetT(v.ty.elem)))]
        if isinstance(v, Val) and isinstance(v.ty, MapT):
            return [(OK, st, ops.set_keys(v))]
        raise Unsupported(f"set({v!r})")
    if name == "dict":
        if not a:
            return [(OK, st, ListVal([]))]
        if len(a) == 1 and isinstance(a[0], Val) and isinstance(a[0].ty, MapT):
            return [(OK, st, Val(a[0].term, a[0].ty.plain()))]         # a copy: maps are values here
        if len(a) == 1 and isinstance(a[0], Val) and isinstance(a[0].ty, Opt) and isinstance(a[0].ty.inner, MapT):
            self.implicit(st, a[0].ty.is_some(a[0].term), "TypeError", "dict(None)")
            return [(OK, st, Val(a[0].ty.val(a[0].term), a[0].ty.inner.plain()))]
        raise Unsupported("dict(...)")
    if name == "time" or name == "time.time":
        return [(OK, st, self.now(st))]
    if name == "isinstance":
        return self.do_isinstance(st, a[0], a[1])
    if name == "type" and len(a) == 1 and isinstance(a[0], ExcVal):
        from .values import ExcType
        return [(OK, st, ExcType(a[0].cls))]
    if name in ("min", "max") and len(a) >= 2 and all(isinstance(x, Val) and x.ty in (INT, REAL) for x in a):
        real = REAL in [x.ty for x in a]
        terms = [coerce(x, REAL).term if real else x.term for x in a]
        acc = terms[0]
        for y in terms[1:]:
            acc = z3.If((acc <= y) if name == "min" else (acc >= y), acc, y)
        return [(OK, st, Val(acc, REAL if real else INT))]
    if name == "abs" and isinstance(a[0], Val) and a[0].ty in (INT, REAL):
        return [(OK, st, Val(z3.If(a[0].term >= 0, a[0].term, -a[0].term), a[0].ty))]
    if name == "enumerate":
        v = a[0]
        if isinstance(v, Val) and isinstance(v.ty, SeqT):
            t = TupleVal([])
            t.enumerate_of = v
            return [(OK, st, t)]
        if isinstance(v, ListVal):
            return [(OK, st, ListVal([TupleVal([Val(z3.IntVal(i), INT), x]) for i, x in enumerate(v.items)]))]
        raise Unsupported("enumerate")
    if name == "range" and len(a) == 1 and isinstance(a[0], Val) and a[0].ty == INT and _const_int(a[0]) is not None and _const_int(a[0]) <= 8:
        return [(OK, st, ListVal([Val(z3.IntVal(i), INT) for i in range(_const_int(a[0]))]))]   # literal bound: unrolled completely
    if name == "range" and len(a) == 1 and isinstance(a[0], Val) and a[0].ty == INT:
        n = a[0].term
        r = z3.Const(fresh_name("range"), SeqT(INT).sort())
        k = z3.Int(fresh_name("rk"))
        st.assume(z3.Length(r) == z3.If(n > 0, n, 0))
        st.assume(z3.ForAll([k], z3.Implies(z3.And(k >= 0, k < z3.Length(r)), r[k] == k)))
        return [(OK, st, Val(r, SeqT(INT)))]
    if name == "range" and len(a) in (2, 3) and all(isinstance(x, Val) and x.ty == INT for x in a):
        from .values import RangeVal
        return [(OK, st, RangeVal(a[0].term, a[1].term, a[2].term if len(a) == 3 else z3.IntVal(1)))]
    if name == "next":
        return self.do_next(st, a[0], a[1] if len(a) > 1 else None)
    if name == "getattr" and len(a) >= 2 and isinstance(a[1], Val) and a[1].template is not None:
        obj, attr = a[0], a[1].template
        if isinstance(obj, ObjRef) and self.has_field(obj, attr):
            return [(OK, st, self.heap_read(st, obj, attr))]     # Optional field: None models "attribute not set"
        if len(a) > 2:
            raise Unsupported(f"getattr(.., {attr!r}, default) on an object without that declared field")
        return [(OK, st, self.getattr(st, obj, attr))]
    if name == "iter":
        return [(OK, st, a[0])]
    if name == "str":
        v = a[0]
        if isinstance(v, Val) and v.ty == STR:
            return [(OK, st, v)]
        if isinstance(v, Val) and isinstance(v.ty, Enum):
            return [(OK, st, ops.enum_value(v))]
        return [(OK, st, Val(z3.String(fresh_name("str")), STR))]
    if name == "bool":
        return [(OK, st, Val(truthy(a[0]), BOOL))]
    if name == "float" and isinstance(a[0], Val) and a[0].ty in (INT, REAL):
        return [(OK, st, coerce(a[0], REAL))]
    if name == "int" and isinstance(a[0], Val) and a[0].ty == INT:
        return [(OK, st, a[0])]
    if name == "sorted":
        v = a[0]
        if isinstance(v, Val) and isinstance(v.ty, (SetT, SeqT)):
            h = getattr(self.reg, "sorted_model", None)
            if h:
                return h(self, st, v, kwargs)
        raise Unsupported("sorted")
    if name == "datetime.datetime.now" or name == "datetime.now":
        return [(OK, st, Val(self.now(st).term, DATETIME))]
    if name in ("datetime.datetime.fromtimestamp", "datetime.fromtimestamp"):
        return [(OK, st, Val(coerce(a[0], REAL).term, DATETIME))]
    if name in ("datetime.timedelta", "timedelta") and not a and set(kwargs) <= {"seconds"}:
        return [(OK, st, coerce(kwargs.get("seconds", Val(z3.IntVal(0), INT)), REAL))]     # a duration in seconds
    if name in ("datetime.datetime.fromisoformat", "datetime.fromisoformat"):
        inv = getattr(self.reg, "fromisoformat_fn", None)
        if inv is None:
            raise Unsupported("datetime.fromisoformat without a model")
        return [(OK, st, Val(inv(self.need(st, a[0], STR).term), DATETIME))]
    if name == "hash":
        return [(OK, st, Val(z3.Int(fresh_name("hash")), INT))]
    if name == "repr":
        return [(OK, st, Val(z3.String(fresh_name("repr")), STR))]
    raise Unsupported(f"builtin {name}")


def now(self, st) -> Val:
    """time()/datetime.now(): a fresh real, non-decreasing along the path."""
    t = z3.Real(fresh_name("now"))
    prev = st.ghost.get("$clock")
    if prev is not None:
        st.assume(t >= prev.term)
    st.ghost["$clock"] = Val(t, REAL)
    st.ghost.setdefault("$clock0", Val(t, REAL))
    return Val(t, REAL)


def do_isinstance(self, st, v, cls):
    names = []
    for c in (cls.items if isinstance(cls, TupleVal) else [cls]):
        names.append(c.name if isinstance(c, (FuncVal, BuiltinVal)) else str(c))
    if isinstance(v, ExcVal):
        if any(self.exc_is_subclass(v.cls, n) for n in names):
            return [(OK, st, boolval(True))]
        if not v.exact and any(self.exc_is_subclass(n, v.cls) for n in names):
            b = z3.Bool(fresh_name("isinst"))
            return [(OK, st, Val(b, BOOL))]
        return [(OK, st, boolval(False))]
    if isinstance(v, Val):
        hook = getattr(self.reg, "isinstance_hooks", {}).get(getattr(v.ty, "name", None))
        if hook is not None:
            t = hook(v, names)
            if t is not None:
                return [(OK, st, Val(t, BOOL))]
        pyname = {STR: "str", INT: "int", REAL: "float", BOOL: "bool"}.get(v.ty)
        if pyname is None and isinstance(v.ty, (Record, Enum)):
            pyname = v.ty.name
        if isinstance(v.ty, Atom):
            pyname = "str"
        if pyname:
            return [(OK, st, boolval(pyname in names or (pyname == "bool" and "int" in names)))]
        if isinstance(v.ty, Opt):
            inner = Val(v.ty.val(v.term), v.ty.inner)
            res = self.do_isinstance(st, inner, cls)
            return [(OK, st, Val(z3.And(v.ty.is_some(v.term), res[0][2].term), BOOL))]
    if isinstance(v, ObjRef):
        h = getattr(self.reg, "isinstance_model", None)
        if h:
            return h(self, st, v, names)
    raise Unsupported(f"isinstance({v!r}, {names})")


def do_next(self, st, it, default):
    if isinstance(it, GenVal):
        ety = it.elem_ty
        sset = SetT(ety)
        out = []
        for s2, nonempty in self.branch(st, it.out_set != sset.empty(), "next"):
            if nonempty:
                x = mk_fresh(ety, "next")
                s2.assume(z3.Select(it.out_set, x.term))
                if it.seq is not None:
                    s2.assume(x.term == it.seq[0])
                out.append((OK, s2, x))
            elif default is None:
                out.append((RAISE, s2, ExcVal("StopIteration")))
            else:
                out.append((OK, s2, default))
        return out
    raise Unsupported(f"next({it!r})")


def need(self, st, v, ty):
    """coerce v to ty, unwrapping an Optional value under a no-None obligation when ty is not Optional"""
    if isinstance(v, Val) and isinstance(v.ty, Opt) and not isinstance(ty, Opt):
        v = self.unwrap_opt(st, v, f"value used as {ty}")
    return coerce(v, ty)


# ---------------------------------------------------------------------- methods on values
def value_method(self, st, recv, name, args, kwargs, lv):
    a = args
    if isinstance(recv, GenVal):
        raise Unsupported(f"method {name} on generator")
    if isinstance(recv, ListVal):
        if name == "append":
            if lv and lv[0] == "local":
                st.env[lv[1]] = ListVal(recv.items + [a[0]])
                return [(OK, st, NONE)]
            raise Unsupported("append on non-local concrete list")
        if name == "copy":
            return [(OK, st, ListVal(list(recv.items)))]
        raise Unsupported(f"list.{name} on concrete list")
    if not isinstance(recv, Val):
        raise Unsupported(f"method {name} on {recv!r}")
    ty = recv.ty
    if isinstance(ty, Opt):
        recv = self.unwrap_opt(st, recv, f".{name}()")
        ty = recv.ty
    str_of = getattr(self.reg, "str_of", {}).get(getattr(ty, "name", None))
    if str_of is not None and name in ("startswith", "endswith", "encode", "isdigit"):
        recv = Val(str_of(recv), STR)     # an object that is used as a string: its text
        ty = STR

    def store(newterm):
        if lv is None:
            return  # mutation of a temporary
        self.write_lv(st, lv, Val(newterm, ty))

    custom = getattr(self.reg, "value_methods", {}).get((getattr(ty, "name", None), name))
    if custom is not None:
        return custom(self, st, recv, a, kwargs)

    if isinstance(ty, SetT):
        es = ty.elem.sort()
        if name == "add":
            x = self.need(st, a[0], ty.elem).term
            new = z3.Store(recv.term, x, True)
            st.assume(ops.card(new, es) == ops.card(recv.term, es) + z3.If(z3.Select(recv.term, x), 0, 1))
            store(new)
            return [(OK, st, NONE)]
        if name in ("discard", "remove"):
            x = self.need(st, a[0], ty.elem).term
            if name == "remove":
                self.implicit(st, z3.Select(recv.term, x), "KeyError", "set.remove")
            new = z3.Store(recv.term, x, False)
            st.assume(ops.card(new, es) == ops.card(recv.term, es) - z3.If(z3.Select(recv.term, x), 1, 0))
            store(new)
            return [(OK, st, NONE)]
        if name == "clear":
            store(ty.empty())
            return [(OK, st, NONE)]
        if name == "copy":
            return [(OK, st, Val(recv.term, ty))]
        if name in ("update", "union", "intersection", "intersection_update", "difference", "difference_update"):
            other = a[0]
            if isinstance(other, GenVal):
                oterm = other.out_set
            else:
                oterm = coerce(other, ty).term
            if name in ("update", "union"):
                new = ops.set_union(recv.term, oterm)
            elif name.startswith("intersection"):
                new = ops.set_inter(recv.term, oterm)
            else:
                new = ops.set_diff(recv.term, oterm)
            if name.endswith("update"):
                store(new)
                return [(OK, st, NONE)]
            return [(OK, st, Val(new, ty))]
        if name == "issubset":
            return [(OK, st, Val(ops.set_subset(recv.term, coerce(a[0], ty).term, es), BOOL))]
        raise Unsupported(f"set.{name}")

    if isinstance(ty, MapT):
        if name == "get":
            k = coerce(a[0], ty.key).term
            cell = z3.Select(recv.term, k)
            if len(a) > 1 and not isinstance(a[1], NoneVal):
                d = a[1]
                if isinstance(d, ListVal) and not d.items and isinstance(ty.val, (SetT, SeqT)):
                    d = Val(ty.val.empty(), ty.val)
                d = coerce(d, ty.val)
                return [(OK, st, Val(z3.If(ty.opt.is_some(cell), ty.opt.val(cell), d.term), ty.val))]
            return [(OK, st, Val(cell, ty.opt))]
        if name == "pop":
            k = coerce(a[0], ty.key).term
            cell = z3.Select(recv.term, k)
            new = z3.Store(recv.term, k, ty.opt.none())
            # len(dict) bookkeeping: removing a key shrinks the key set by one exactly when the key was present
            st.assume(ops.card(ops.set_keys(Val(new, ty)).term, ty.key.sort()) ==
                      ops.card(ops.set_keys(recv).term, ty.key.sort()) - z3.If(ty.opt.is_some(cell), 1, 0))
            if len(a) > 1:
                store(new)
                if isinstance(a[1], NoneVal):
                    return [(OK, st, Val(cell, ty.opt))]
                d = coerce(a[1], ty.val)
                return [(OK, st, Val(z3.If(ty.opt.is_some(cell), ty.opt.val(cell), d.term), ty.val))]
            if self.declares_exc("KeyError"):
                out = []
                for s2, present in self.branch(st, ty.opt.is_some(cell), "pop"):
                    if present:
                        if lv is not None:
                            self.write_lv(s2, lv, Val(new, ty))
                        out.append((OK, s2, Val(ty.opt.val(cell), ty.val)))
                    else:
                        out.append((RAISE, s2, ExcVal("KeyError")))
                return out
            self.implicit(st, ty.opt.is_some(cell), "KeyError", "dict.pop")
            store(new)
            return [(OK, st, Val(ty.opt.val(cell), ty.val))]
        if name == "setdefault":
            k = coerce(a[0], ty.key).term
            cell = z3.Select(recv.term, k)
            d = a[1]
            if isinstance(d, ListVal) and not d.items:
                d = Val(ty.val.empty(), ty.val)
            d = coerce(d, ty.val)
            new = z3.If(ty.opt.is_some(cell), recv.term, z3.Store(recv.term, k, ty.opt.some(d.term)))
            store(new)
            return [(OK, st, Val(z3.If(ty.opt.is_some(cell), ty.opt.val(cell), d.term), ty.val,
                                 origin=("sub", lv, Val(k, ty.key)) if lv else None))]
        if name == "clear":
            store(ty.empty())
            return [(OK, st, NONE)]
        if name == "move_to_end":
            return [(OK, st, NONE)]     # order of an OrderedDict is not part of the map view
        if name == "keys":
            return [(OK, st, ops.set_keys(recv))]
        if name == "items":
            t = TupleVal([])
            t.items_of = recv
            return [(OK, st, t)]
        if name == "values":
            t = TupleVal([])
            t.items_of = recv
            t.values_only = True
            return [(OK, st, t)]
        if name == "copy":
            return [(OK, st, Val(recv.term, ty.plain()))]
        if name == "update" and len(a) == 1 and isinstance(a[0], Val):
            other = a[0]
            view = getattr(self.reg, "dict_views", {}).get(getattr(other.ty, "name", None))
            if view is not None:
                other = view(other)          # an opaque value known to be a dict: its mapping view
            if isinstance(other.ty, MapT) and other.ty.key == ty.key and other.ty.val == ty.val:
                st.assume(ops.map_override_axiom(ty))
                store(ops.map_override(recv.term, other.term, ty))
                return [(OK, st, NONE)]
        raise Unsupported(f"dict.{name}")

    if isinstance(ty, SeqT):
        n = z3.Length(recv.term)
        if name == "append":
            store(z3.Concat(recv.term, z3.Unit(coerce(a[0], ty.elem).term)))
            return [(OK, st, NONE)]
        if name == "appendleft":
            store(z3.Concat(z3.Unit(coerce(a[0], ty.elem).term), recv.term))
            return [(OK, st, NONE)]
        if name == "extend":
            other = coerce(a[0], ty).term
            if getattr(self.reg, "seq_pointwise_hints", False):
                nw = z3.Const(fresh_name("ext"), ty.sort())
                st.assume(nw == z3.Concat(recv.term, other))
                ops.concat_hints(st, nw, recv.term, other)
                store(nw)
            else:
                store(z3.Concat(recv.term, other))
            return [(OK, st, NONE)]
        if name == "popleft" or (name == "pop" and a and _const_int(a[0]) == 0):
            self.implicit(st, n > 0, "IndexError", "pop from empty")
            head = recv.term[0]
            store(z3.SubSeq(recv.term, 1, n - 1))
            return [(OK, st, Val(head, ty.elem))]
        if name == "pop" and not a:
            self.implicit(st, n > 0, "IndexError", "pop from empty")
            last = recv.term[n - 1]
            store(z3.SubSeq(recv.term, 0, n - 1))
            return [(OK, st, Val(last, ty.elem))]
        if name == "clear":
            store(ty.empty())
            return [(OK, st, NONE)]
        if name == "copy":
            return [(OK, st, Val(recv.term, ty))]
        raise Unsupported(f"list.{name}")

    if ty in (REAL, DATETIME):
        if name in ("timestamp", "total_seconds"):
            return [(OK, st, Val(recv.term, REAL))]
        if name == "isoformat":
            f = getattr(self.reg, "isoformat_fn", None)
            if f is not None:
                return [(OK, st, Val(f(recv.term), STR))]
            return [(OK, st, Val(z3.String(fresh_name("iso")), STR))]
        if name == "replace":
            return [(OK, st, recv)]
        raise Unsupported(f"float/datetime.{name}")

    if ty == STR:
        h = getattr(self.reg, "str_methods", {}).get(name)
        if h:
            return h(self, st, recv, a, kwargs)
        if name == "isdigit":
            digit = z3.Range("0", "9")
            return [(OK, st, Val(z3.And(z3.Length(recv.term) > 0, z3.InRe(recv.term, z3.Plus(digit))), BOOL))]
        if name == "encode":
            return [(OK, st, recv)]   # bytes of a str: modelled as the string itself (UTF-8 encoding is injective)
        if name == "startswith":
            return [(OK, st, Val(z3.PrefixOf(coerce(a[0], STR).term, recv.term), BOOL))]
        if name == "endswith":
            return [(OK, st, Val(z3.SuffixOf(coerce(a[0], STR).term, recv.term), BOOL))]
        raise Unsupported(f"str.{name}")

    if isinstance(ty, (Record, Enum)):
        pycls = getattr(ty, "pycls", None)
        if pycls:
            key = f"{pycls[0]}:{pycls[1]}.{name}"
            contract = self.reg.contracts.get(key)
            if contract is not None and contract.handler:
                self.note_assumed(contract)
                return contract.handler(self, st, recv, args, kwargs)
            if contract is not None and not contract.inline:
                return self.apply_contract(st, contract, None, [recv] + list(args), kwargs)
            if self.src.has_function(key):
                return self.inline_call(st, key, recv, args, kwargs, contract)
        raise Unsupported(f"method {name} on {ty}")
    raise Unsupported(f"method {name} on type {ty}")


for _name in ("e_Call", "call_value", "construct", "find_contract_for_method", "call_method", "call_function",
              "call_classmethod", "bind_params", "inline_call", "contract_args", "frame_cells", "_param_order", "apply_contract",
              "call_on_comprehension", "next_on_genexp", "builtin_call", "now", "do_isinstance", "do_next", "value_method", "need"):
    setattr(Engine, _name, globals()[_name])
