"""Counter-model -> plain Python values (for replay on the real code)."""
from __future__ import annotations

from fractions import Fraction

import z3

from .types import BOOL, INT, REAL, STR, Atom, Enum, MapT, Opt, Record, SeqT, SetT, Ty
from .values import GenVal, ListVal, NoneVal, ObjRef, TupleVal, Val


def universe(model, sort):
    try:
        u = model.get_universe(sort)
        return list(u) if u is not None else []
    except Exception:
        return []


def atom_name(t) -> str:
    return str(t).replace("!val!", "_")


def to_py(model, term, ty: Ty, depth=0):
    t = model.eval(term, model_completion=True)
    if ty == BOOL:
        return z3.is_true(t)
    if ty == INT:
        return t.as_long() if z3.is_int_value(t) else str(t)
    if ty == REAL:
        if z3.is_rational_value(t):
            return float(Fraction(t.numerator_as_long(), t.denominator_as_long()))
        if z3.is_algebraic_value(t):
            return float(t.approx(20).as_fraction())
        return str(t)
    if ty == STR:
        return t.as_string() if z3.is_string_value(t) else str(t)
    if isinstance(ty, Atom):
        return atom_name(t)
    if isinstance(ty, Enum):
        return str(t)
    if isinstance(ty, Opt):
        if z3.is_true(model.eval(ty.is_none(t), model_completion=True)):
            return None
        return to_py(model, ty.val(t), ty.inner, depth + 1)
    if isinstance(ty, Record):
        return {f: to_py(model, ty.get(t, f), fty, depth + 1) for f, fty in ty.fields}
    if isinstance(ty, SetT):
        elems = _domain(model, ty.elem)
        return [to_py(model, e, ty.elem) for e in elems if z3.is_true(model.eval(z3.Select(t, e), model_completion=True))]
    if isinstance(ty, MapT):
        out = {}
        for k in _domain(model, ty.key):
            cell = model.eval(z3.Select(t, k), model_completion=True)
            if z3.is_true(model.eval(ty.opt.is_some(cell), model_completion=True)):
                kk = to_py(model, k, ty.key)
                out[kk if not isinstance(kk, (dict, list)) else str(kk)] = to_py(model, ty.opt.val(cell), ty.val, depth + 1)
        return out
    if isinstance(ty, SeqT):
        n = model.eval(z3.Length(t), model_completion=True)
        if z3.is_int_value(n) and n.as_long() <= 64:
            return [to_py(model, t[i], ty.elem, depth + 1) for i in range(n.as_long())]
        return str(t)
    return str(t)


def _domain(model, ty: Ty):
    if isinstance(ty, Enum):
        return [ty.const(m) for m in ty.members]
    if isinstance(ty, Atom):
        return universe(model, ty.sort())
    if ty == BOOL:
        return [z3.BoolVal(True), z3.BoolVal(False)]
    return []


def value_to_py(model, v):
    if isinstance(v, Val):
        return to_py(model, v.term, v.ty)
    if isinstance(v, NoneVal):
        return None
    if isinstance(v, TupleVal):
        return [value_to_py(model, x) for x in v.items]
    if isinstance(v, ListVal):
        return [value_to_py(model, x) for x in v.items]
    if isinstance(v, ObjRef):
        return f"<{v.shape}>"
    return str(v)


# ---------------------------------------------------------------------------- Python value -> constant term (witness pre-states)
_atoms: dict = {}


def atom_const(ty, name):
    key = (ty.name, name)
    if key not in _atoms:
        _atoms[key] = z3.Const(f"w_{ty.name}_{name}", ty.sort())
    return _atoms[key]


def atoms_distinct():
    by = {}
    for (tn, _n), c in _atoms.items():
        by.setdefault(tn, []).append(c)
    return [z3.Distinct(*cs) for cs in by.values() if len(cs) > 1]


def from_py(value, ty: Ty):
    from .types import DATETIME
    if ty == BOOL:
        return z3.BoolVal(bool(value))
    if ty == INT:
        return z3.IntVal(int(value))
    if ty in (REAL, DATETIME):
        return z3.RealVal(repr(float(value)))
    if ty == STR:
        return z3.StringVal(value)
    if isinstance(ty, Atom):
        return atom_const(ty, str(value))
    if isinstance(ty, Enum):
        return ty.const(value)
    if isinstance(ty, Opt):
        return ty.none() if value is None else ty.some(from_py(value, ty.inner))
    if isinstance(ty, Record):
        return ty.make(*[from_py(value[f], fty) for f, fty in ty.fields])
    if isinstance(ty, SetT):
        t = ty.empty()
        for e in value:
            t = z3.Store(t, from_py(e, ty.elem), True)
        return t
    if isinstance(ty, MapT):
        t = ty.empty()
        for k, v in value.items():
            t = z3.Store(t, from_py(k, ty.key), ty.opt.some(from_py(v, ty.val)))
        return t
    if isinstance(ty, SeqT):
        t = ty.empty()
        for e in value:
            t = z3.Concat(t, z3.Unit(from_py(e, ty.elem)))
        return t
    raise ValueError(f"from_py: {ty}")
