"""Sidecar contract language: shapes, contracts, cases, loop invariants, registry."""
from __future__ import annotations

from dataclasses import dataclass, field
from typing import Callable

from .types import Ty


@dataclass
class Shape:
    name: str
    fields: dict            # field -> Ty
    cls: tuple | None = None  # (module, class) of the real class: method lookup for inlining
    invariants: list = field(default_factory=list)  # [(name, lambda ctx: Bool)] representation invariant
    abstract_methods: dict = field(default_factory=dict)  # meth -> contract key (for abstract component shapes)
    doc: str = ""


@dataclass
class Case:
    name: str
    when: Callable | None = None         # lambda ctx(pre) -> Bool ; None = True
    raises: str | None = None            # exception class name, None = normal exit
    ensures: list = field(default_factory=list)  # [(name, lambda ctx -> Bool)]
    exact: bool = False                  # raised class is exactly `raises`
    exc_fields: dict = field(default_factory=dict)  # attribute of the raised exception -> lambda ctx -> Val


@dataclass
class LoopSpec:
    inv: list                            # [(name, lambda ctx -> Bool)]
    note: str = ""
    extra_havoc: list = field(default_factory=list)
    modifies: list | None = None         # heap fields (last path component) the body may change; None = the whole function frame


@dataclass
class Contract:
    key: str                             # "module:Class.method" of the real code, or abstract "Shape.method"
    shape: str | None = None             # shape of self (None for plain functions)
    params: dict = field(default_factory=dict)   # name -> Ty (excluding self)
    defaults: dict = field(default_factory=dict)  # name -> lambda -> value for omitted args
    result: Ty | None = None
    requires: list = field(default_factory=list)
    cases: list = field(default_factory=list)
    frame: list = field(default_factory=list)    # fields of self (dotted paths allowed) that may change
    loops: dict = field(default_factory=dict)    # ordinal -> LoopSpec
    inline: bool = False
    assumed: bool = False                # dependency contract: used at call sites, never verified
    generator: Ty | None = None          # element type when the function is a generator
    gen_seq: bool = False                # track generator output as a sequence too
    check_invariants: bool = True        # assume/assert the shape invariants
    witnesses: list = field(default_factory=list)  # concrete pre-states (vacuity guard + replay seeds)
    note: str = ""
    properties: list = field(default_factory=list)
    handler: Callable | None = None      # custom call-site semantics (natives)
    effect_events: bool = True           # record a trace event at call sites

    def normal_cases(self):
        return [c for c in self.cases if c.raises is None]

    def raising_cases(self):
        return [c for c in self.cases if c.raises is not None]


class Registry:
    def __init__(self):
        self.shapes: dict[str, Shape] = {}
        self.contracts: dict[str, Contract] = {}
        self.natives: dict[str, object] = {}       # "module:name" -> Native
        self.records: dict[str, Ty] = {}           # "module:Class" -> Record type
        self.enums: dict[str, Ty] = {}             # "module:Class" -> Enum type
        self.exceptions: dict[str, list[str]] = {}  # class -> bases (names)
        self.class_shapes: dict[str, str] = {}     # "module:Class" -> shape name (constructor => ObjRef)
        self.dropped_calls: list = []              # dotted-name regexes of calls dropped as effect-free

    def add_shape(self, s: Shape):
        self.shapes[s.name] = s
        if s.cls:
            self.class_shapes[f"{s.cls[0]}:{s.cls[1]}"] = s.name
        return s

    def add(self, c: Contract):
        self.contracts[c.key] = c
        return c

    def merge(self, other: "Registry"):
        self.shapes.update(other.shapes)
        self.contracts.update(other.contracts)
        self.natives.update(other.natives)
        self.records.update(other.records)
        self.enums.update(other.enums)
        self.exceptions.update(other.exceptions)
        self.class_shapes.update(other.class_shapes)
        self.dropped_calls.extend(other.dropped_calls)
