"""Effect / frame analysis over the real ASTs (obligation kind 3b).

For every public method of the backend components an effect class is computed from the code:
`reads` (assigns no view field, calls no mutator, executes only SELECT) or `writes`.  Callers
marked `reads` (the monitor's GET handlers) may reach only `reads` methods.  The analysis is
syntactic and conservative: anything it cannot classify is `writes`.
"""
from __future__ import annotations

import ast
import os
import re

MUTATORS = {"add", "discard", "remove", "pop", "append", "appendleft", "popleft", "clear", "update", "setdefault",
            "intersection_update", "difference_update", "extend", "insert", "popitem", "sort", "move_to_end", "rotate"}
WRITE_SQL = re.compile(r"^\s*(INSERT|UPDATE|DELETE|REPLACE|DROP|ALTER|BEGIN|VACUUM)", re.I)
NEUTRAL_SQL = re.compile(r"^\s*(CREATE\s+(TABLE|INDEX|UNIQUE\s+INDEX)\s+IF\s+NOT\s+EXISTS|PRAGMA|SELECT|WITH)", re.I)


def _sql_text(node, fn=None, depth=0):
    """Text of a SQL statement expression: literals, f-strings, concatenations and local names assigned from those
    (placeholders `{}` for formatted values).  None when the expression is anything else."""
    if isinstance(node, ast.Constant) and isinstance(node.value, str):
        return node.value
    if isinstance(node, ast.JoinedStr):
        return "".join(p.value if isinstance(p, ast.Constant) else "{}" for p in node.values)
    if isinstance(node, ast.BinOp) and isinstance(node.op, ast.Add):
        a, b = _sql_text(node.left, fn, depth), _sql_text(node.right, fn, depth)
        return None if a is None or b is None else a + b
    if isinstance(node, ast.Call) and isinstance(node.func, ast.Attribute) and node.func.attr in ("join", "format", "strip"):
        base = _sql_text(node.func.value, fn, depth)
        return "{}" if base is not None or node.func.attr == "join" else None
    if isinstance(node, ast.IfExp):
        a, b = _sql_text(node.body, fn, depth), _sql_text(node.orelse, fn, depth)
        return None if a is None or b is None else a + " " + b
    if isinstance(node, ast.Name) and fn is not None and depth < 3:
        parts = []
        for sub in ast.walk(fn):
            if isinstance(sub, ast.Assign) and any(isinstance(t, ast.Name) and t.id == node.id for t in sub.targets):
                parts.append(_sql_text(sub.value, fn, depth + 1))
            elif isinstance(sub, ast.AugAssign) and isinstance(sub.target, ast.Name) and sub.target.id == node.id:
                parts.append(_sql_text(sub.value, fn, depth + 1))
            elif isinstance(sub, ast.AnnAssign) and isinstance(sub.target, ast.Name) and sub.target.id == node.id and sub.value is not None:
                parts.append(_sql_text(sub.value, fn, depth + 1))
        if parts and all(p is not None for p in parts):
            return " ".join(parts)
    return None


class ClassEffects:
    """Effect classes of the methods of one class hierarchy (real class + repo bases)."""

    def __init__(self, src, modname, clsname, cache_fields=()):
        self.src, self.modname, self.clsname = src, modname, clsname
        self.cache_fields = set(cache_fields)
        self.methods = {}       # name -> FunctionDef (first found along the bases)
        self._collect(modname, clsname, set())
        self.direct = {}        # name -> list of reasons (direct writes)
        self.calls = {}         # name -> set of self-method names called
        for n, fn in self.methods.items():
            self.direct[n], self.calls[n] = self._scan(fn)
        self.effect = {}
        for n in self.methods:
            self._classify(n, set())

    def _collect(self, m, c, seen):
        if (m, c) in seen or not self.src.has_module(m):
            return
        seen.add((m, c))
        try:
            cls = self.src.klass(m, c)
        except Exception:
            return
        for node in cls.body:
            if isinstance(node, (ast.FunctionDef, ast.AsyncFunctionDef)) and node.name not in self.methods:
                self.methods[node.name] = node
        for bm, bc in self.src.class_bases(m, c):
            self._collect(bm, bc, seen)

    def _self_field(self, node):
        """self.<field>[...]... -> field name"""
        while isinstance(node, ast.Subscript):
            node = node.value
        if isinstance(node, ast.Attribute) and isinstance(node.value, ast.Name) and node.value.id == "self":
            return node.attr
        return None

    def _scan(self, fn):
        reasons, calls = [], set()
        for node in ast.walk(fn):
            if isinstance(node, (ast.Assign, ast.AugAssign, ast.AnnAssign, ast.Delete)):
                targets = node.targets if isinstance(node, (ast.Assign, ast.Delete)) else [node.target]
                for t in targets:
                    f = self._self_field(t)
                    if f and f not in self.cache_fields and fn.name not in ("__init__",):
                        reasons.append(f"assigns self.{f}")
            elif isinstance(node, ast.Call):
                if isinstance(node.func, ast.Attribute):
                    f = self._self_field(node.func.value)
                    if f and node.func.attr in MUTATORS and f not in self.cache_fields:
                        reasons.append(f"self.{f}.{node.func.attr}()")
                    if isinstance(node.func.value, ast.Name) and node.func.value.id == "self":
                        calls.add(node.func.attr)
                    if node.func.attr == "execute" and node.args:
                        sql = _sql_text(node.args[0], fn)
                        if sql is None:
                            reasons.append("executes a statement that is not a literal")
                        elif WRITE_SQL.match(sql) and not sql.strip().upper().startswith("BEGIN"):
                            reasons.append("SQL " + " ".join(sql.split())[:40])
                        elif not NEUTRAL_SQL.match(sql) and not sql.strip().upper().startswith("BEGIN"):
                            reasons.append("SQL(unclassified) " + " ".join(sql.split())[:40])
                    if node.func.attr in ("start",) and isinstance(node.func.value, ast.Name) and node.func.value.id in ("thread", "t"):
                        reasons.append("starts a writer thread")
                elif isinstance(node.func, ast.Name) and node.func.id in ("delete_tables_with_prefix",):
                    reasons.append("delete_tables_with_prefix()")
        return reasons, calls

    def _classify(self, name, stack):
        if name in self.effect:
            return self.effect[name]
        if name in stack:
            return ("reads", [])
        stack = stack | {name}
        reasons = list(self.direct.get(name, []))
        for callee in self.calls.get(name, ()):
            if callee in self.methods:
                eff, why = self._classify(callee, stack)
                if eff == "writes":
                    reasons.append(f"calls self.{callee}() [{why[0] if why else ''}]")
        self.effect[name] = ("writes" if reasons else "reads", reasons)
        return self.effect[name]


def component_effects(src, components: dict, cache_fields: dict):
    """components: role -> [(module, class), ...] implementations.  Returns role -> {method: (effect, reasons)} where a method
    is `reads` only if it is `reads` in every implementation."""
    out = {}
    for role, impls in components.items():
        merged = {}
        for (m, c) in impls:
            ce = ClassEffects(src, m, c, cache_fields.get(role, ()))
            for meth, (eff, why) in ce.effect.items():
                cur = merged.get(meth)
                if cur is None or (eff == "writes" and cur[0] == "reads"):
                    merged[meth] = (eff, [f"{c}: {w}" for w in why])
        out[role] = merged
    return out


class Handlers:
    """GET handlers of the monitor and the component methods they can reach through pynmon helper functions."""

    def __init__(self, src, package="pynmon"):
        self.src = src
        self.package = package
        self.funcs = {}     # (module, name) -> FunctionDef
        self.modules = []
        root = os.path.join(src.root, package)
        for dirpath, _dirs, files in os.walk(root):
            for f in files:
                if f.endswith(".py"):
                    rel = os.path.relpath(os.path.join(dirpath, f), src.root)[:-3].replace(os.sep, ".")
                    if rel.endswith(".__init__"):
                        rel = rel[:-9]
                    self.modules.append(rel)
        for m in self.modules:
            mod = src.module(m)
            for node in mod.tree.body:
                if isinstance(node, (ast.FunctionDef, ast.AsyncFunctionDef)):
                    self.funcs[(m, node.name)] = node

    def routes(self, verb="get"):
        out = []
        for (m, name), fn in self.funcs.items():
            for d in fn.decorator_list:
                if isinstance(d, ast.Call) and isinstance(d.func, ast.Attribute) and d.func.attr == verb:
                    path = d.args[0].value if d.args and isinstance(d.args[0], ast.Constant) else "?"
                    out.append((m, name, path))
        return sorted(out)

    def reachable(self, m, name):
        """all pynmon functions reachable from (m, name) by direct calls to names resolvable inside the package"""
        seen, todo = set(), [(m, name)]
        while todo:
            cur = todo.pop()
            if cur in seen or cur not in self.funcs:
                continue
            seen.add(cur)
            mod = self.src.module(cur[0])
            for node in ast.walk(self.funcs[cur]):
                # every *reference* to a package function counts, not only direct calls: helpers are handed to
                # asyncio.to_thread / run_in_executor / partial as values and run all the same
                if isinstance(node, ast.Name) and isinstance(node.ctx, ast.Load):
                    if (cur[0], node.id) in self.funcs:
                        todo.append((cur[0], node.id))
                    elif node.id in mod.imports:
                        im, iname = mod.imports[node.id]
                        if iname and (im, iname) in self.funcs:
                            todo.append((im, iname))
                elif isinstance(node, ast.Attribute) and isinstance(node.value, ast.Name) and node.value.id in mod.imports:
                    im, iname = mod.imports[node.value.id]
                    target = f"{im}.{iname}" if iname else im
                    if (target, node.attr) in self.funcs:
                        todo.append((target, node.attr))
        return seen

    def component_calls(self, fn, roles):
        """(role, method, lineno) for every call <...>.<role>.<method>(...) in fn"""
        out = []
        for node in ast.walk(fn):
            if isinstance(node, ast.Call) and isinstance(node.func, ast.Attribute):
                chain = []
                cur = node.func
                while isinstance(cur, ast.Attribute):
                    chain.append(cur.attr)
                    cur = cur.value
                chain = list(reversed(chain))
                for i, part in enumerate(chain[:-1]):
                    if part in roles:
                        out.append((part, chain[i + 1], node.lineno))
                        break
        return out


def object_member_calls(src, classes, roles):
    """member name -> {(role, method)} for properties / methods of domain objects (invocations, calls, tasks) that reach a
    backend component through `self.app.<role>.<method>(...)`, transitively through other members of the same class."""
    out = {}
    for modname, clsname in classes:
        try:
            members = dict(ClassEffects(src, modname, clsname).methods)   # first definition along the bases wins (overrides)
        except Exception:
            continue
        direct, uses = {}, {}
        for name, fn in members.items():
            d, u = set(), set()
            for node in ast.walk(fn):
                if isinstance(node, ast.Call) and isinstance(node.func, ast.Attribute):
                    chain, cur = [], node.func
                    while isinstance(cur, ast.Attribute):
                        chain.append(cur.attr)
                        cur = cur.value
                    chain = list(reversed(chain))
                    for i, part in enumerate(chain[:-1]):
                        if part in roles:
                            d.add((part, chain[i + 1]))
                            break
                if isinstance(node, ast.Attribute) and isinstance(node.value, ast.Name) and node.value.id == "self" and node.attr in members:
                    u.add(node.attr)
            direct[name], uses[name] = d, u
        for name in members:
            seen, todo, acc = set(), [name], set()
            while todo:
                x = todo.pop()
                if x in seen:
                    continue
                seen.add(x)
                acc |= direct.get(x, set())
                todo.extend(uses.get(x, ()))
            if acc:
                out.setdefault(name, set()).update(acc)
    return out
