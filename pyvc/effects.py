"""Effect / frame analysis over the real ASTs (obligation kind 3b).

For every public method of the backend components an effect class is computed from the code:
`reads` (assigns no view field, calls no mutator, executes only SELECT) or `writes`.  Callers
marked `reads` (the monitor's GET handlers) may reach only `reads` methods.  The analysis is
syntactic and conservative: anything it cannot classify is `writes`.
"""
from __future__ import annotations

import ast
import os
import re

MUTATORS = {"add", "discard", "remove", "pop", "append", "appendleft", "popleft", "clear", "update", "setdefault",
            "intersection_update", "difference_update", "extend", "insert", "popitem", "sort", "move_to_end", "rotate"}
WRITE_SQL = re.compile(r"^\s*(INSERT|UPDATE|DELETE|REPLACE|DROP|ALTER|BEGIN|VACUUM)", re.I)
NEUTRAL_SQL = re.compile(r"^\s*(CREATE\s+(TABLE|INDEX|UNIQUE\s+INDEX)\s+IF\s+NOT\s+EXISTS|PRAGMA|SELECT|WITH)", re.I)


def _sql_text(node, fn=None, depth=0):
    """Text of a SQL statement expression: literals, f-strings, concatenations and local names assigned from those
    (placeholders `{}` for formatted values).  None when the expression is anything else."""
    if isinstance(node, ast.Constant) and isinstance(node.value, str):
        return node.value
    if isinstance(node, ast.JoinedStr):
        return "".join(p.value if isinstance(p, ast.Constant) else "{}" for p in node.values)
    if isinstance(node, ast.BinOp) and isinstance(node.op, ast.Add):
        a, b = _sql_text(node.left, fn, depth), _sql_text(node.right, fn, depth)
        return None if a is None or b is None else a + b
    if isinstance(node, ast.Call) and isinstance(node.func, ast.Attribute) and node.func.attr in ("join", "format", "strip"):
        base = _sql_text(node.func.value, fn, depth)
        return "{}" if base is not None or node.func.attr == "join" else None
    if isinstance(node, ast.IfExp):
        a, b = _sql_text(node.body, fn, depth), _sql_text(node.orelse, fn, depth)
        return None if a is None or b is None else a + " " + b
    if isinstance(node, ast.Name) and fn is not None and depth < 3:
        parts = []
        for sub in ast.walk(fn):
            if isinstance(sub, ast.Assign) and any(isinstance(t, ast.Name) and t.id == node.id for t in sub.targets):
                parts.append(_sql_text(sub.value, fn, depth + 1))
            elif isinstance(sub, ast.AugAssign) and isinstance(sub.target, ast.Name) and sub.target.id == node.id:
                parts.append(_sql_text(sub.value, fn, depth + 1))
            elif isinstance(sub, ast.AnnAssign) and isinstance(sub.target, ast.Name) and sub.target.id == node.id and sub.value is not None:
                parts.append(_sql_text(sub.value, fn, depth + 1))
        if parts and all(p is not None for p in parts):
            return " ".join(parts)
    return None


class ClassEffects:
    """Effect classes of the methods of one class hierarchy (real class + repo bases)."""

    def __init__(self, src, modname, clsname, cache_fields=(), graph=None):
        self.src, self.modname, self.clsname = src, modname, clsname
        self.graph = graph
        self.cache_fields = set(cache_fields)
        self.methods = {}       # name -> FunctionDef (first found along the bases)
        self._collect(modname, clsname, set())
        self.container_fields = set()
        for fn in self.methods.values():
            if fn.name in ("__init__", "_init", "__post_init__"):
                for node in ast.walk(fn):
                    if isinstance(node, (ast.Assign, ast.AnnAssign)):
                        for t in (node.targets if isinstance(node, ast.Assign) else [node.target]):
                            f = self._self_field(t)
                            v = node.value
                            if f and f not in self.cache_fields and isinstance(v, (ast.Dict, ast.Set, ast.List, ast.DictComp, ast.SetComp, ast.ListComp)) or \
                                    (f and f not in self.cache_fields and isinstance(v, ast.Call) and isinstance(v.func, ast.Name) and
                                     v.func.id in ("dict", "set", "list", "defaultdict", "OrderedDict", "deque", "Counter")):
                                self.container_fields.add(f)
        self.direct = {}        # name -> list of reasons (direct writes)
        self.calls = {}         # name -> set of self-method names called
        for n, fn in self.methods.items():
            self.direct[n], self.calls[n] = self._scan(fn)
        self.effect = {}
        for n in self.methods:
            self._classify(n, set())

    def _collect(self, m, c, seen):
        if (m, c) in seen or not self.src.has_module(m):
            return
        seen.add((m, c))
        try:
            cls = self.src.klass(m, c)
        except Exception:
            return
        local = {}
        for node in cls.body:
            if isinstance(node, (ast.FunctionDef, ast.AsyncFunctionDef)):
                local[node.name] = node          # the last definition in a class body wins (@overload stubs come first)
        for n, node in local.items():
            self.methods.setdefault(n, node)
        for bm, bc in self.src.class_bases(m, c):
            self._collect(bm, bc, seen)

    def _self_field(self, node):
        """self.<field>[...]... -> field name"""
        while isinstance(node, ast.Subscript):
            node = node.value
        if isinstance(node, ast.Attribute) and isinstance(node.value, ast.Name) and node.value.id == "self":
            return node.attr
        return None

    # ---- aliases of view fields: `x = self.f.get(k, set())` hands out the stored container itself, `x &= ...` then edits the field
    FRESH_CALLS = {"copy", "intersection", "union", "difference", "symmetric_difference", "keys", "items", "values", "sorted", "list", "set",
                   "dict", "tuple", "frozenset", "len", "deepcopy"}
    INPLACE_ALWAYS = (ast.BitAnd, ast.BitOr, ast.BitXor)
    INPLACE_CONTAINER = (ast.Sub, ast.Add)

    def _field_rooted(self, node, env):
        """field name when `node` evaluates to (a part of) the container stored in self.<field>, without a copy"""
        if isinstance(node, ast.Name):
            return env.get(node.id)
        if isinstance(node, ast.Subscript):
            return self._field_rooted(node.value, env)
        if isinstance(node, ast.Attribute):
            if isinstance(node.value, ast.Name) and node.value.id == "self":
                return node.attr if node.attr in self.container_fields else None
            return None
        if isinstance(node, ast.Call) and isinstance(node.func, ast.Attribute) and node.func.attr in ("get", "setdefault", "pop", "popitem"):
            return self._field_rooted(node.func.value, env)      # an element of the stored mapping (the default, when taken, is fresh: may-alias)
        if isinstance(node, ast.IfExp):
            return self._field_rooted(node.body, env) or self._field_rooted(node.orelse, env)
        if isinstance(node, ast.BoolOp):
            for v in node.values:
                f = self._field_rooted(v, env)
                if f:
                    return f
        return None

    def _alias_writes(self, fn):
        reasons = []

        def assign(target, value, env):
            if isinstance(target, ast.Name):
                f = self._field_rooted(value, env) if value is not None else None
                if f:
                    env[target.id] = f
                else:
                    env.pop(target.id, None)
            elif isinstance(target, (ast.Tuple, ast.List)):
                for t in target.elts:
                    assign(t, None, env)

        def expr_effects(node, env):
            for sub in ast.walk(node):
                if isinstance(sub, ast.Call) and isinstance(sub.func, ast.Attribute) and isinstance(sub.func.value, ast.Name) \
                        and sub.func.value.id in env and sub.func.attr in MUTATORS:
                    reasons.append(f"{sub.func.value.id}.{sub.func.attr}() on an alias of self.{env[sub.func.value.id]} (line {sub.lineno})")

        def block(stmts, env):
            for st in stmts:
                if isinstance(st, ast.Assign):
                    expr_effects(st.value, env)
                    for t in st.targets:
                        if isinstance(t, ast.Subscript) and isinstance(t.value, ast.Name) and t.value.id in env:
                            reasons.append(f"item assignment on {t.value.id}, an alias of self.{env[t.value.id]} (line {st.lineno})")
                        assign(t, st.value, env)
                elif isinstance(st, ast.AnnAssign):
                    if st.value is not None:
                        expr_effects(st.value, env)
                    assign(st.target, st.value, env)
                elif isinstance(st, ast.AugAssign):
                    expr_effects(st.value, env)
                    if isinstance(st.target, ast.Name) and st.target.id in env and \
                            (isinstance(st.op, self.INPLACE_ALWAYS) or isinstance(st.op, self.INPLACE_CONTAINER)):
                        reasons.append(f"in-place {type(st.op).__name__} on {st.target.id}, an alias of self.{env[st.target.id]} (line {st.lineno})")
                elif isinstance(st, ast.Delete):
                    for t in st.targets:
                        if isinstance(t, ast.Subscript) and isinstance(t.value, ast.Name) and t.value.id in env:
                            reasons.append(f"del on {t.value.id}, an alias of self.{env[t.value.id]} (line {st.lineno})")
                elif isinstance(st, ast.If):
                    expr_effects(st.test, env)
                    e1, e2 = dict(env), dict(env)
                    block(st.body, e1)
                    block(st.orelse, e2)
                    env.clear()
                    env.update({**e1, **e2})          # may-alias after the join
                elif isinstance(st, (ast.For, ast.AsyncFor)):
                    expr_effects(st.iter, env)
                    it = st.iter
                    if isinstance(it, ast.Call) and isinstance(it.func, ast.Attribute) and it.func.attr in ("values", "items"):
                        f = self._field_rooted(it.func.value, env)
                        if f:       # the elements of a stored mapping are the stored inner containers
                            for t in ([st.target] if isinstance(st.target, ast.Name) else getattr(st.target, "elts", [])[-1:]):
                                if isinstance(t, ast.Name):
                                    env[t.id] = f
                    else:
                        assign(st.target, None, env)
                    for _ in range(2):
                        block(st.body, env)
                    block(st.orelse, env)
                elif isinstance(st, ast.While):
                    for _ in range(2):
                        expr_effects(st.test, env)
                        block(st.body, env)
                elif isinstance(st, (ast.With, ast.AsyncWith)):
                    block(st.body, env)
                elif isinstance(st, ast.Try):
                    block(st.body, env)
                    for h in st.handlers:
                        block(h.body, dict(env))
                    block(st.orelse, env)
                    block(st.finalbody, env)
                elif isinstance(st, (ast.Expr, ast.Return)):
                    if st.value is not None:
                        expr_effects(st.value, env)
                elif isinstance(st, (ast.FunctionDef, ast.AsyncFunctionDef, ast.ClassDef)):
                    continue
        block(fn.body, {})
        return sorted(set(reasons))

    def _scan(self, fn):
        reasons, calls = [], set()
        if fn.name != "__init__":
            reasons.extend(self._alias_writes(fn))
        for node in ast.walk(fn):
            if isinstance(node, (ast.Assign, ast.AugAssign, ast.AnnAssign, ast.Delete)):
                targets = node.targets if isinstance(node, (ast.Assign, ast.Delete)) else [node.target]
                for t in targets:
                    f = self._self_field(t)
                    if f and f not in self.cache_fields and fn.name not in ("__init__",):
                        reasons.append(f"assigns self.{f}")
            elif isinstance(node, ast.Call):
                if isinstance(node.func, ast.Attribute):
                    f = self._self_field(node.func.value)
                    if f and node.func.attr in MUTATORS and f not in self.cache_fields:
                        reasons.append(f"self.{f}.{node.func.attr}()")
                    if isinstance(node.func.value, ast.Name) and node.func.value.id == "self":
                        calls.add(node.func.attr)
                    if node.func.attr == "execute" and node.args:
                        sql = _sql_text(node.args[0], fn)
                        if sql is None:
                            reasons.append("executes a statement that is not a literal")
                        elif WRITE_SQL.match(sql) and not sql.strip().upper().startswith("BEGIN"):
                            reasons.append("SQL " + " ".join(sql.split())[:40])
                        elif not NEUTRAL_SQL.match(sql) and not sql.strip().upper().startswith("BEGIN"):
                            reasons.append("SQL(unclassified) " + " ".join(sql.split())[:40])
                    if node.func.attr in ("start",) and isinstance(node.func.value, ast.Name) and node.func.value.id in ("thread", "t"):
                        reasons.append("starts a writer thread")
                elif isinstance(node.func, ast.Name) and node.func.id in ("delete_tables_with_prefix",):
                    reasons.append("delete_tables_with_prefix()")
                g = getattr(self, "graph", None)
                if g is not None:
                    chain = g._chain(node.func) if isinstance(node.func, ast.Attribute) else None
                    tgt = None
                    if isinstance(node.func, ast.Name) and node.func.id in g.methods and node.func.id[0].isupper():
                        tgt = (node.func.id, "__init__")
                    elif chain is not None and chain[:-1] != ["self"] and not any(p.lstrip("_") in g.roles for p in chain[1:-1]):
                        tgt = g.resolve(None, chain)
                    if tgt and tgt[1] in g.methods.get(tgt[0], {}):
                        why = g.writes(tgt[0], tgt[1])
                        if why:
                            reasons.append(f"calls {tgt[0]}.{tgt[1]}() which reaches a backend write [{why[0]}]")
        return reasons, calls

    def _classify(self, name, stack):
        if name in self.effect:
            return self.effect[name]
        if name in stack:
            return ("reads", [])
        stack = stack | {name}
        reasons = list(self.direct.get(name, []))
        for callee in self.calls.get(name, ()):
            if callee in self.methods:
                eff, why = self._classify(callee, stack)
                if eff == "writes":
                    reasons.append(f"calls self.{callee}() [{why[0] if why else ''}]")
        self.effect[name] = ("writes" if reasons else "reads", reasons)
        return self.effect[name]


def component_effects(src, components: dict, cache_fields: dict, graph=None):
    """components: role -> [(module, class), ...] implementations.  Returns role -> {method: (effect, reasons)} where a method
    is `reads` only if it is `reads` in every implementation."""
    out = {}
    for role, impls in components.items():
        merged = {}
        for (m, c) in impls:
            ce = ClassEffects(src, m, c, cache_fields.get(role, ()), graph=graph)
            for meth, (eff, why) in ce.effect.items():
                cur = merged.get(meth)
                if cur is None or (eff == "writes" and cur[0] == "reads"):
                    merged[meth] = (eff, [f"{c}: {w}" for w in why])
        out[role] = merged
    return out


class Handlers:
    """GET handlers of the monitor and the component methods they can reach through pynmon helper functions."""

    def __init__(self, src, package="pynmon"):
        self.src = src
        self.package = package
        self.funcs = {}     # (module, name) -> FunctionDef
        self.modules = []
        root = os.path.join(src.root, package)
        for dirpath, _dirs, files in os.walk(root):
            for f in files:
                if f.endswith(".py"):
                    rel = os.path.relpath(os.path.join(dirpath, f), src.root)[:-3].replace(os.sep, ".")
                    if rel.endswith(".__init__"):
                        rel = rel[:-9]
                    self.modules.append(rel)
        for m in self.modules:
            mod = src.module(m)
            for node in mod.tree.body:
                if isinstance(node, (ast.FunctionDef, ast.AsyncFunctionDef)):
                    self.funcs[(m, node.name)] = node

    def routes(self, verb="get"):
        out = []
        for (m, name), fn in self.funcs.items():
            for d in fn.decorator_list:
                if isinstance(d, ast.Call) and isinstance(d.func, ast.Attribute) and d.func.attr == verb:
                    path = d.args[0].value if d.args and isinstance(d.args[0], ast.Constant) else "?"
                    out.append((m, name, path))
        return sorted(out)

    def reachable(self, m, name):
        """all pynmon functions reachable from (m, name) by direct calls to names resolvable inside the package"""
        seen, todo = set(), [(m, name)]
        while todo:
            cur = todo.pop()
            if cur in seen or cur not in self.funcs:
                continue
            seen.add(cur)
            mod = self.src.module(cur[0])
            for node in ast.walk(self.funcs[cur]):
                # every *reference* to a package function counts, not only direct calls: helpers are handed to
                # asyncio.to_thread / run_in_executor / partial as values and run all the same
                if isinstance(node, ast.Name) and isinstance(node.ctx, ast.Load):
                    if (cur[0], node.id) in self.funcs:
                        todo.append((cur[0], node.id))
                    elif node.id in mod.imports:
                        im, iname = mod.imports[node.id]
                        if iname and (im, iname) in self.funcs:
                            todo.append((im, iname))
                elif isinstance(node, ast.Attribute) and isinstance(node.value, ast.Name) and node.value.id in mod.imports:
                    im, iname = mod.imports[node.value.id]
                    target = f"{im}.{iname}" if iname else im
                    if (target, node.attr) in self.funcs:
                        todo.append((target, node.attr))
        return seen

    def component_calls(self, fn, roles, known_methods=None):
        """(role, method, lineno) for every call <...>.<role>.<method>(...) in fn, and - when `known_methods` (role -> method names) is given -
        for every mere reference <...>.<role>.<method> to a known method: bound methods are handed to asyncio.to_thread / run_in_executor /
        partial as values and run all the same"""
        out = []
        called = set()
        for node in ast.walk(fn):
            if isinstance(node, ast.Call) and isinstance(node.func, ast.Attribute):
                called.add(id(node.func))
                chain = []
                cur = node.func
                while isinstance(cur, ast.Attribute):
                    chain.append(cur.attr)
                    cur = cur.value
                chain = list(reversed(chain))
                for i, part in enumerate(chain[:-1]):
                    if part in roles:
                        out.append((part, chain[i + 1], node.lineno))
                        break
        if known_methods:
            for node in ast.walk(fn):
                if isinstance(node, ast.Attribute) and isinstance(node.ctx, ast.Load) and id(node) not in called and isinstance(node.value, ast.Attribute) \
                        and node.value.attr in roles and node.attr in known_methods.get(node.value.attr, ()):
                    out.append((node.value.attr, node.attr, node.lineno))
        return out

    # ---- values handed out by a backend read must not be edited by a view (they may be the stored or cached object itself)
    def mutated_params(self, fn):
        """names of the parameters that fn edits in place (del p[..], p[..] = .., p.append(..), p += ..)"""
        params = {a.arg for a in fn.args.args + fn.args.kwonlyargs}
        out = set()
        for node in ast.walk(fn):
            tgt = None
            if isinstance(node, ast.Delete):
                for t in node.targets:
                    if isinstance(t, ast.Subscript) and isinstance(t.value, ast.Name):
                        out.add(t.value.id)
            elif isinstance(node, ast.Assign):
                for t in node.targets:
                    if isinstance(t, ast.Subscript) and isinstance(t.value, ast.Name):
                        out.add(t.value.id)
            elif isinstance(node, ast.AugAssign) and isinstance(node.target, ast.Name):
                tgt = node.target.id
            elif isinstance(node, ast.Call) and isinstance(node.func, ast.Attribute) and isinstance(node.func.value, ast.Name) and node.func.attr in MUTATORS:
                tgt = node.func.value.id
            if tgt:
                out.add(tgt)
        return out & params, out

    def edits_of_backend_values(self, fn, module, roles):
        """[(description, lineno)] where fn edits, or hands to a package function that edits its parameter, a value it got from a backend read"""
        def role_chain(node):
            while isinstance(node, ast.Attribute):
                if isinstance(node.value, ast.Attribute) and node.value.attr in roles:
                    return f"{node.value.attr}.{node.attr}"
                node = node.value
            return None

        def from_backend(value):
            """source name when the expression IS what a backend read returned (not a copy made by list(..), a slice, a comprehension, ...)"""
            if isinstance(value, ast.Await):
                value = value.value
            if isinstance(value, ast.Call):
                if isinstance(value.func, ast.Attribute):
                    src = role_chain(value.func)
                    if src:
                        return src
                    if value.func.attr in ("to_thread", "run_in_executor") and value.args:
                        for a in value.args[:2]:
                            src = role_chain(a) if isinstance(a, ast.Attribute) else None
                            if src:
                                return src
                return None
            if isinstance(value, ast.Attribute) and value.attr in ("result",) and not (isinstance(value.value, ast.Name) and value.value.id == "self"):
                return f".{value.attr}"
            return None
        tainted = {}
        for node in ast.walk(fn):
            if isinstance(node, (ast.Assign, ast.AnnAssign)) and getattr(node, "value", None) is not None:
                src = from_backend(node.value)
                if src:
                    for t in (node.targets if isinstance(node, ast.Assign) else [node.target]):
                        if isinstance(t, ast.Name):
                            tainted[t.id] = src
        out = []
        _own, edited_here = self.mutated_params(fn)
        for name in sorted(set(tainted) & edited_here):
            out.append((f"edits `{name}`, a value handed out by {tainted[name]}", fn.lineno))
        mod = self.src.module(module)
        for node in ast.walk(fn):
            if isinstance(node, ast.Call):
                target = None
                if isinstance(node.func, ast.Name):
                    if (module, node.func.id) in self.funcs:
                        target = (module, node.func.id)
                    elif node.func.id in mod.imports and mod.imports[node.func.id][1] and tuple(mod.imports[node.func.id]) in self.funcs:
                        target = tuple(mod.imports[node.func.id])
                if target is None:
                    continue
                callee = self.funcs[target]
                mp, _ = self.mutated_params(callee)
                names = [a.arg for a in callee.args.args]
                for i, a in enumerate(node.args):
                    if isinstance(a, ast.Name) and a.id in tainted and i < len(names) and names[i] in mp:
                        out.append((f"passes `{a.id}` (handed out by {tainted[a.id]}) to {target[1]}(), which edits its parameter `{names[i]}` in place", node.lineno))
        return out


def object_member_calls(src, classes, roles):
    """member name -> {(role, method)} for properties / methods of domain objects (invocations, calls, tasks) that reach a
    backend component through `self.app.<role>.<method>(...)`, transitively through other members of the same class."""
    out = {}
    for modname, clsname in classes:
        try:
            members = dict(ClassEffects(src, modname, clsname).methods)   # first definition along the bases wins (overrides)
        except Exception:
            continue
        direct, uses = {}, {}
        for name, fn in members.items():
            d, u = set(), set()
            for node in ast.walk(fn):
                if isinstance(node, ast.Call) and isinstance(node.func, ast.Attribute):
                    chain, cur = [], node.func
                    while isinstance(cur, ast.Attribute):
                        chain.append(cur.attr)
                        cur = cur.value
                    chain = list(reversed(chain))
                    for i, part in enumerate(chain[:-1]):
                        if part in roles:
                            d.add((part, chain[i + 1]))
                            break
                if isinstance(node, ast.Attribute) and isinstance(node.value, ast.Name) and node.value.id == "self" and node.attr in members:
                    u.add(node.attr)
            direct[name], uses[name] = d, u
        for name in members:
            seen, todo, acc = set(), [name], set()
            while todo:
                x = todo.pop()
                if x in seen:
                    continue
                seen.add(x)
                acc |= direct.get(x, set())
                todo.extend(uses.get(x, ()))
            if acc:
                out.setdefault(name, set()).update(acc)
    return out


class ObjectGraph:
    """Which methods of the domain objects (the app, tasks, calls, invocations) can end in a `writes` method of a backend component.

    Calls are resolved by receiver shape: `self.m()` stays in the class, a receiver ending in `app` is the application object,
    `Task.from_id(..)` / `Task(..)` name a class, receivers ending in `task` / `call` / `invocation` are those objects.  Calls on
    receivers the shape does not identify are not followed (stated in the evidence as a limit of the analysis)."""

    RECEIVER_HINTS = {"app": "Pynenc", "task": "Task", "call": "Call", "invocation": "DistributedInvocation", "inv": "DistributedInvocation"}

    def __init__(self, src, classes: dict, role_effects: dict, roles):
        self.src, self.roles, self.eff = src, set(roles), role_effects
        self.methods = {}      # alias -> {name: FunctionDef}
        for alias, (m, c) in classes.items():
            try:
                self.methods[alias] = dict(ClassEffects(src, m, c).methods)
            except Exception:      # noqa: BLE001
                self.methods[alias] = {}
        self.direct, self.edges = {}, {}
        for alias, meths in self.methods.items():
            for name, fn in meths.items():
                self.direct[(alias, name)], self.edges[(alias, name)] = self._scan(alias, fn)
        self.memo = {}

    @staticmethod
    def _chain(node):
        chain, cur = [], node
        while isinstance(cur, ast.Attribute):
            chain.append(cur.attr)
            cur = cur.value
        if isinstance(cur, ast.Name):
            chain.append(cur.id)
            return list(reversed(chain))
        if isinstance(cur, ast.Call):      # e.g. get_pynenc_instance().get_task(...)
            return ["<call>"] + list(reversed(chain))
        return None

    def resolve(self, alias, chain):
        """(target alias, method) for a call whose callee is the attribute chain, or None"""
        if chain is None or len(chain) < 2:
            return None
        recv, meth = chain[:-1], chain[-1]
        if recv == ["self"] or recv == ["cls"]:
            return (alias, meth) if alias else None
        if len(recv) == 1 and recv[0] in self.methods and recv[0][0].isupper():
            return (recv[0], meth)
        hint = self.RECEIVER_HINTS.get(recv[-1].lstrip("_"))
        if hint and hint in self.methods:
            return (hint, meth)
        return None

    def _scan(self, alias, fn):
        direct, edges = [], set()
        for node in ast.walk(fn):
            if isinstance(node, ast.Call):
                if isinstance(node.func, ast.Name) and node.func.id in self.methods and node.func.id[0].isupper():
                    edges.add((node.func.id, "__init__"))
                    continue
                chain = self._chain(node.func)
                if chain is None:
                    continue
                hit = False
                for i, part in enumerate(chain[:-1]):
                    role = part.lstrip("_")
                    if role in self.roles and i >= 1:
                        e = self.eff.get(role, {}).get(chain[i + 1])
                        if e is not None and e[0] == "writes":
                            direct.append(f"{'.'.join(chain)}() writes (line {node.lineno})")
                        hit = True
                        break
                if not hit:
                    tgt = self.resolve(alias, chain)
                    if tgt and tgt[1] in self.methods.get(tgt[0], {}):
                        edges.add(tgt)
            elif isinstance(node, ast.Attribute) and isinstance(node.value, ast.Name) and node.value.id == "self" and alias and \
                    node.attr in self.methods.get(alias, {}) and isinstance(node.ctx, ast.Load):
                edges.add((alias, node.attr))          # property access (or a bound method taken as a value)
        return direct, edges

    def writes(self, alias, name, stack=frozenset()):
        """list of reasons (empty: no backend write reachable)"""
        key = (alias, name)
        if key in self.memo:
            return self.memo[key]
        if key in stack or key not in self.direct:
            return []
        reasons = list(self.direct[key])
        for tgt in sorted(self.edges[key]):
            sub = self.writes(tgt[0], tgt[1], stack | {key})
            if sub:
                reasons.append(f"{tgt[0]}.{tgt[1]} -> {sub[0]}")
        if not stack:
            self.memo[key] = reasons
        return reasons

    def calls_in(self, fn, alias=None):
        """(target alias, method, lineno) for the object-level calls in a function outside the classes (a monitor view)"""
        out = []
        for node in ast.walk(fn):
            if isinstance(node, ast.Call):
                chain = self._chain(node.func)
                if chain is None or any(p.lstrip("_") in self.roles for p in chain[1:-1]):
                    continue
                tgt = self.resolve(alias, chain)
                if tgt and tgt[1] in self.methods.get(tgt[0], {}):
                    out.append((tgt[0], tgt[1], node.lineno))
        return out
