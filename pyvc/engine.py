"""pyvc: path-wise symbolic execution of real Python function ASTs against sidecar contracts.

The engine never sees a hand-written copy of repository code: every function body
it executes is the `ast` of the file under the repository root as it is now.
"""
from __future__ import annotations

import ast
import re

import z3

from . import ops
from .contract import Case, Contract, LoopSpec, Registry, Shape
from .ops import Unsupported, coerce, contains, ite, truthy, values_equal
from .solve import Obligation, discharge, quick_sat
from .source import FuncInfo, Source, loop_nodes
from .types import BOOL, DATETIME, INT, REAL, STR, Atom, Enum, MapT, ObjT, Opt, OpaqueT, Record, SeqT, SetT, TupleT, Ty
from .values import (BRK, CONT, NONE, OK, RAISE, RET, BoundMeth, BuiltinVal, ExcVal, FuncVal, GenVal, LambdaVal, ListVal,
                     ModVal, Native, NoneVal, ObjRef, State, TupleVal, Val, bind, boolval, fresh_name, mk_fresh)

LOGGER_RE = re.compile(r"(^|\.)(logger|_logger|log)\.(debug|info|warning|error|exception|critical)$")
BUILTIN_NAMES = {
    "len", "list", "set", "frozenset", "dict", "tuple", "sorted", "next", "min", "max", "isinstance", "str", "int",
    "float", "bool", "enumerate", "range", "any", "all", "time", "abs", "iter", "hash", "repr", "sum", "zip", "id",
    "getattr", "hasattr", "print", "type", "reversed", "round", "super", "callable", "issubclass", "object",
}
BUILTIN_EXC = {
    "Exception", "KeyError", "ValueError", "RuntimeError", "TypeError", "StopIteration", "IndexError",
    "AttributeError", "NotImplementedError", "BaseException", "LookupError", "AssertionError", "OSError",
    "KeyboardInterrupt", "TimeoutError", "ImportError", "ModuleNotFoundError", "ArithmeticError", "ZeroDivisionError",
}


def _free_consts(t):
    """uninterpreted constants occurring in a term"""
    out, seen, todo = [], set(), [t]
    while todo:
        x = todo.pop()
        if x.get_id() in seen:
            continue
        seen.add(x.get_id())
        if z3.is_quantifier(x):
            todo.append(x.body())
        elif z3.is_app(x):
            if x.num_args() == 0 and x.decl().kind() == z3.Z3_OP_UNINTERPRETED:
                out.append(x)
            todo.extend(x.children())
    return out


def _per_element_subs(terms, q, mark):
    """constants generated (after name index `mark`) while a comprehension body was evaluated for the arbitrary element q are per-element
    values: each becomes a function of q"""
    per = {}
    for t in terms:
        for cst in _free_consts(t):
            nm = cst.decl().name()
            if "!" in nm and nm.rsplit("!", 1)[1].isdigit() and int(nm.rsplit("!", 1)[1]) > mark and not z3.eq(cst, q):
                per[nm] = cst
    return [(cst, z3.Function(nm + "@elem", q.sort(), cst.sort())(q)) for nm, cst in sorted(per.items())]


class Ctx:
    """What a contract clause sees: parameters, fields (now and at entry), result, ghosts."""

    def __init__(self, eng, st: State, self_ref=None, args=None, result=None, exc=None, pre_heap=None, extra=None):
        self.eng = eng
        self.st = st
        self.self_ref = self_ref
        self.args = args or {}
        self.result_val = result
        self.exc = exc
        self.pre_heap = pre_heap if pre_heap is not None else st.old_heap
        self.extra = extra or {}

    # ---- parameters / locals
    def arg(self, name):
        v = self.args[name]
        return v.term if isinstance(v, Val) else v

    def argv(self, name):
        return self.args[name]

    def v(self, name):
        if name not in self.st.env:
            # a loop invariant / clause of the sidecar names a local variable that the function (no longer) has at this point:
            # the contract cannot be evaluated on this tree - undecided, not a checker crash
            raise Unsupported(f"the contract refers to the local variable '{name}', which the function does not define here")
        val = self.st.env[name]
        return val.term if isinstance(val, Val) else val

    def has_local(self, name):
        return name in self.st.env

    def has_extra(self, name):
        return name in self.extra

    def g(self, name):
        val = self.st.ghost[name]
        return val.term if isinstance(val, Val) else val

    def x(self, name):
        return self.extra[name]

    # ---- heap
    def _resolve(self, path, heap):
        ref = self.self_ref if self.self_ref is not None else self.st.ghost.get("$root")
        parts = path.split(".")
        for p in parts[:-1]:
            ref = self.eng.heap_read(self.st, ref, p, heap=heap)
        return ref, parts[-1]

    def _untraced(self, fn):
        """contract clauses read fields without leaving heap-access events (those describe the code, not the spec)"""
        saved, self.eng.trace_fields = self.eng.trace_fields, ()
        try:
            return fn()
        finally:
            self.eng.trace_fields = saved

    def f(self, path):
        def go():
            ref, fld = self._resolve(path, None)
            val = self.eng.heap_read(self.st, ref, fld)
            return val.term if isinstance(val, Val) else val
        return self._untraced(go)

    def old(self, path):
        def go():
            ref, fld = self._resolve(path, None)
            self.eng.heap_read(self.st, ref, fld)  # make sure it exists (lazily created => also in pre heap)
            val = self.pre_heap.get((ref.oid, fld))
            if val is None:
                val = self.st.old_heap[(ref.oid, fld)]
            return val.term if isinstance(val, Val) else val
        return self._untraced(go)

    def fval(self, path):
        def go():
            ref, fld = self._resolve(path, None)
            return self.eng.heap_read(self.st, ref, fld)
        return self._untraced(go)

    @property
    def result(self):
        r = self.result_val
        return r.term if isinstance(r, Val) else r

    # generator output: of the called generator at a call site, else of the function under verification
    @property
    def out_set(self):
        if self.extra.get("$out_set") is not None:
            return self.extra["$out_set"]
        return self.st.ghost["$out_set"].term

    @property
    def out_count(self):
        if self.extra.get("$out_count") is not None:
            return self.extra["$out_count"]
        return self.st.ghost["$out_count"].term

    out_set_call = out_set
    out_count_call = out_count

    @property
    def out_seq(self):
        return self.st.ghost["$out_seq"].term


class Engine:
    def __init__(self, source: Source, registry: Registry):
        self.src = source
        self.reg = registry
        self.obligations: list[Obligation] = []
        self.cur_fn: FuncInfo | None = None
        self.cur_contract: Contract | None = None
        self.cur_prefix = ""
        self.inlined: set[str] = set()
        self.dropped: set[str] = set()
        self.infeasible_paths = 0
        self.paths = 0
        self.oid_counter = 0
        self.loop_ordinals: dict = {}
        self.call_depth = 0
        self.step_hooks: list = []   # callables (eng, st, label) run after every effectful call
        self.self_ref = None
        self.module_stack: list[str] = []
        self.trace_fields = ()

    # ------------------------------------------------------------------ obligations
    def oblige(self, st: State, goal, name: str, kind: str, detail="", extra=None):
        if goal is True or z3.is_true(goal):
            goal = z3.BoolVal(True)
        ob = Obligation(name=f"{self.cur_prefix}/{name}", kind=kind, pc=list(st.pc), goal=goal,
                        function=self.cur_fn.key if self.cur_fn else "", detail=detail, extra=extra or {})
        ob.extra.setdefault("trail", list(st.trail))
        self.obligations.append(ob)
        st.assume(goal)  # standard: after an assertion the rest of the path may rely on it
        return ob

    # ------------------------------------------------------------------ heap
    def new_obj(self, shape: str) -> ObjRef:
        self.oid_counter += 1
        return ObjRef(self.oid_counter, shape)

    def heap_read(self, st: State, ref: ObjRef, field: str, heap=None):
        if not isinstance(ref, ObjRef):
            raise Unsupported(f"field {field} of non-object {ref!r}")
        key = (ref.oid, field)
        if heap is None and field in self.trace_fields:
            st.events.append({"ev": "heap", "op": "read", "field": field, "oid": ref.oid, "perms": tuple(st.perms)})
        if key in st.heap:
            return st.heap[key]
        if key in st.old_heap:   # initial value already materialised on another path: initial values are path-independent
            st.heap[key] = st.old_heap[key]
            return st.heap[key]
        shape = self.reg.shapes.get(ref.shape)
        if shape is None or field not in shape.fields:
            raise Unsupported(f"shape {ref.shape} has no field {field}")
        fty = shape.fields[field]
        if isinstance(fty, ObjT):
            val = self.new_obj(fty.shape)
        elif isinstance(fty, Ty):
            val = mk_fresh(fty, f"{ref.shape}.{field}")
        else:  # a callable producing a value (constants)
            val = fty(self, st)
        st.heap[key] = val
        st.old_heap.setdefault(key, val)
        return val

    def heap_write(self, st: State, ref: ObjRef, field: str, val):
        shape = self.reg.shapes.get(ref.shape)
        if shape is None or field not in shape.fields:
            if shape is None or not self._auto_field(shape, field):
                raise Unsupported(f"write to undeclared field {ref.shape}.{field}")
        saved, self.trace_fields = self.trace_fields, ()
        self.heap_read(st, ref, field)  # materialise initial value for old()
        self.trace_fields = saved
        if field in self.trace_fields:
            st.events.append({"ev": "heap", "op": "write", "field": field, "oid": ref.oid, "perms": tuple(st.perms)})
        fty = shape.fields[field]
        if isinstance(fty, Ty) and not isinstance(fty, ObjT):
            val = coerce(val, fty)
        st.heap[(ref.oid, field)] = val

    def has_field(self, ref: ObjRef, field: str) -> bool:
        shape = self.reg.shapes.get(ref.shape)
        if shape is None:
            return False
        if field in shape.fields:
            return True
        return self._auto_field(shape, field)

    def note_assumed(self, contract):
        """every assumed (unchecked) contract that a verified function actually relied on is listed in the evidence"""
        if getattr(contract, "assumed", False):
            if not hasattr(self, "used_assumed"):
                self.used_assumed = {}
            self.used_assumed[contract.key] = (contract.note or "")[:200]
        else:
            if not hasattr(self, "used_contracts"):
                self.used_contracts = set()
            self.used_contracts.add(contract.key)

    def dont_care_fields(self):
        out = set()
        for sh in self.reg.shapes.values():
            out |= getattr(sh, "dont_care", set())
        return out

    _SIMPLE_ANN = {"str": STR, "int": INT, "float": REAL, "bool": BOOL}

    def _ann_type(self, ann):
        """types of plain annotations: str/int/float/bool, list[...]/set[...]/dict[str, ...] of those, X | None"""
        if isinstance(ann, ast.Constant) and isinstance(ann.value, str):
            try:
                ann = ast.parse(ann.value, mode="eval").body
            except SyntaxError:
                return None
        if isinstance(ann, ast.Name):
            return self._SIMPLE_ANN.get(ann.id) or getattr(self.reg, "ann_types", {}).get(ann.id)
        if isinstance(ann, ast.BinOp) and isinstance(ann.op, ast.BitOr):
            sides = [ann.left, ann.right]
            non_none = [x for x in sides if not (isinstance(x, ast.Constant) and x.value is None)]
            if len(non_none) == 1:
                inner = self._ann_type(non_none[0])
                return Opt(inner) if inner is not None else None
            return None
        if isinstance(ann, ast.Subscript) and isinstance(ann.value, ast.Name):
            args = ann.slice.elts if isinstance(ann.slice, ast.Tuple) else [ann.slice]
            inner = [self._ann_type(a) for a in args]
            if any(t is None for t in inner):
                return None
            if ann.value.id in ("list", "List", "deque") and len(inner) == 1:
                return SeqT(inner[0])
            if ann.value.id in ("set", "Set", "frozenset") and len(inner) == 1:
                return SetT(inner[0])
            if ann.value.id in ("dict", "Dict") and len(inner) == 2:
                return MapT(inner[0], inner[1])
        return None

    def _auto_field(self, shape, field: str) -> bool:
        """A bookkeeping attribute that the class declares (`self.x: T = ...`) but the sidecar shape does not mention: it becomes a
        "don't care" field of the declared type - unconstrained at entry, outside every frame check - so that code using it can still
        be interpreted (what the code then does with arbitrary contents is judged by the contract)."""
        if not getattr(shape, "auto_fields", False) or not shape.cls or not self.src.has_module(shape.cls[0]):
            return False
        seen, todo = set(), [tuple(shape.cls)]
        while todo:
            m, c = todo.pop(0)
            if (m, c) in seen or not self.src.has_module(m):
                continue
            seen.add((m, c))
            try:
                cls = self.src.klass(m, c)
            except Exception:
                continue
            for node in ast.walk(cls):
                if isinstance(node, ast.AnnAssign) and isinstance(node.target, ast.Attribute) and isinstance(node.target.value, ast.Name) \
                        and node.target.value.id == "self" and node.target.attr == field:
                    ty = self._ann_type(node.annotation)
                    idk = getattr(shape, "auto_str_key", None)     # in this class plain `str` keys are invocation ids (an atom in the contracts)
                    if idk is not None and isinstance(ty, MapT) and ty.key == STR:
                        ty = MapT(idk, ty.val)
                    elif idk is not None and isinstance(ty, SetT) and ty.elem == STR:
                        ty = SetT(idk)
                    if ty is not None:
                        shape.fields[field] = ty
                        shape.dont_care = getattr(shape, "dont_care", set()) | {field}
                        return True
                # an unannotated attribute initialised with a literal: its type is the literal's
                if isinstance(node, ast.Assign) and len(node.targets) == 1 and isinstance(node.targets[0], ast.Attribute) and \
                        isinstance(node.targets[0].value, ast.Name) and node.targets[0].value.id == "self" and node.targets[0].attr == field and \
                        isinstance(node.value, ast.Constant) and type(node.value.value) in (int, float, str, bool):
                    shape.fields[field] = {int: INT, float: REAL, str: STR, bool: BOOL}[type(node.value.value)]
                    shape.dont_care = getattr(shape, "dont_care", set()) | {field}
                    return True
            try:
                todo.extend(self.src.class_bases(m, c))
            except Exception:
                pass
        return False

    # ------------------------------------------------------------------ branching
    def branch(self, st: State, cond, label=""):
        """Split st on cond; returns [(state, bool)] for the feasible sides."""
        cond = z3.simplify(cond) if not isinstance(cond, bool) else z3.BoolVal(cond)
        if z3.is_true(cond):
            return [(st, True)]
        if z3.is_false(cond):
            return [(st, False)]
        out = []
        for side, c in ((True, cond), (False, z3.Not(cond))):
            s2 = st.fork()
            s2.assume(c)
            if quick_sat(s2.pc):
                s2.trail.append(f"{label}={'T' if side else 'F'}")
                out.append((s2, side))
            else:
                self.infeasible_paths += 1
        return out

    # ------------------------------------------------------------------ names
    def cur_module(self):
        return self.module_stack[-1]

    def resolve_global(self, st: State, name: str):
        modname = self.cur_module()
        mod = self.src.module(modname)
        imp = st.imports.get(name) or mod.imports.get(name)
        if imp:
            m, n = imp
            return self.resolve_qualified(m, n)
        top = mod.top(name)
        if top is not None:
            return self.resolve_qualified(modname, name)
        if name in BUILTIN_NAMES:
            return BuiltinVal(name)
        if name in BUILTIN_EXC:
            return FuncVal("builtins", name, "exc")
        raise Unsupported(f"unresolved name {name} in {modname}")

    def resolve_qualified(self, m: str, n: str | None):
        if n is None:
            if f"{m}:" in self.reg.natives:
                return self.reg.natives[f"{m}:"]   # a dependency module with an assumed model (re, hashlib, json, ...)
            return ModVal(m)
        key = f"{m}:{n}"
        if key in self.reg.natives:
            return self.reg.natives[key]
        if key in self.reg.enums or key in self.reg.records or key in self.reg.class_shapes:
            return FuncVal(m, n, "class")
        if n in self.reg.exceptions or n in BUILTIN_EXC:
            return FuncVal(m, n, "exc")
        if key in self.reg.contracts:
            return FuncVal(m, n, "func")
        if self.src.has_module(m):
            mod = self.src.module(m)
            top = mod.top(n)
            if isinstance(top, ast.ClassDef):
                return FuncVal(m, n, "class")
            if isinstance(top, (ast.FunctionDef, ast.AsyncFunctionDef)):
                return FuncVal(m, n, "func")
            if top is None and n in mod.imports:
                m2, n2 = mod.imports[n]
                return self.resolve_qualified(m2, n2)
            if top is None and self.src.has_module(f"{m}.{n}"):
                return ModVal(f"{m}.{n}")
            if top is not None:
                valnode = getattr(top, "value", None)
                def _const_expr(nd):
                    if isinstance(nd, ast.Constant):
                        return isinstance(nd.value, (int, float, str, bool))
                    if isinstance(nd, ast.UnaryOp):
                        return _const_expr(nd.operand)
                    if isinstance(nd, ast.BinOp) and isinstance(nd.op, (ast.Add, ast.Sub, ast.Mult)):
                        return _const_expr(nd.left) and _const_expr(nd.right)
                    return False
                if valnode is not None and _const_expr(valnode):
                    res = self.eval(valnode, State())   # literal module constant: its value is the literal in the source
                    return res[0][2]
                raise Unsupported(f"module constant {key} has no native model")
        if m in ("time",) and n == "time":
            return BuiltinVal("time")
        if m == "datetime" and n in ("datetime", "UTC", "timedelta", "timezone"):
            return BuiltinVal("datetime." + n)
        return FuncVal(m, n, "external")

    # ------------------------------------------------------------------ expressions
    def dotted(self, node):
        parts = []
        while isinstance(node, ast.Attribute):
            parts.append(node.attr)
            node = node.value
        if isinstance(node, ast.Name):
            parts.append(node.id)
            return ".".join(reversed(parts))
        if isinstance(node, ast.Call):
            inner = self.dotted(node.func)
            if inner:
                parts.append(inner + "()")
                return ".".join(reversed(parts))
        return None

    def eval(self, node, st: State):
        """Evaluate an expression: returns [(kind, state, value)] (kind OK or RAISE)."""
        m = getattr(self, "e_" + type(node).__name__, None)
        if m is None:
            raise Unsupported(f"expression {type(node).__name__} at line {getattr(node, 'lineno', '?')}")
        return m(node, st)

    def eval_many(self, nodes, st: State):
        results = [(OK, st, [])]
        for n in nodes:
            def step(s, acc, n=n):
                return [(k, s2, acc + [v]) if k == OK else (k, s2, v) for k, s2, v in self.eval(n, s)]
            results = bind(results, step)
        return results

    def e_Constant(self, node, st):
        v = node.value
        if v is None:
            return [(OK, st, NONE)]
        if isinstance(v, bool):
            return [(OK, st, boolval(v))]
        if isinstance(v, int):
            return [(OK, st, Val(z3.IntVal(v), INT))]
        if isinstance(v, float):
            return [(OK, st, Val(z3.RealVal(repr(v)), REAL))]
        if isinstance(v, str):
            return [(OK, st, Val(z3.StringVal(v), STR, template=v))]
        if isinstance(v, bytes):
            return [(OK, st, Val(z3.StringVal(v.decode("latin-1")), STR))]   # bytes are modelled as the string of their characters
        if v is Ellipsis:
            return [(OK, st, NONE)]
        raise Unsupported(f"constant {v!r}")

    def e_Name(self, node, st):
        if node.id in st.env:
            v = st.env[node.id]
            if isinstance(v, Val) and v.origin is not None:
                # the local is an alias of a mutable collection in the heap: read it through
                cur = self.read_lv(st, v.origin, insert_default=False) if v.origin[0] != "sub" else self.read_alias_sub(st, v.origin)
                return [(OK, st, Val(cur.term, cur.ty, origin=v.origin))]
            return [(OK, st, v)]
        return [(OK, st, self.resolve_global(st, node.id))]

    def e_NamedExpr(self, node, st):
        def k(s, v):
            s.env[node.target.id] = v
            return [(OK, s, v)]
        return bind(self.eval(node.value, st), k)

    def e_Tuple(self, node, st):
        return bind(self.eval_many(node.elts, st), lambda s, vs: [(OK, s, TupleVal(vs))])

    def e_List(self, node, st):
        return bind(self.eval_many(node.elts, st), lambda s, vs: [(OK, s, ListVal(vs))])

    def e_Set(self, node, st):
        return bind(self.eval_many(node.elts, st), lambda s, vs: [(OK, s, ListVal(vs))])

    def e_JoinedStr(self, node, st):
        # f-string: literal parts are kept, formatted parts are unknown strings
        t = z3.StringVal("")
        template = ""
        for part in node.values:
            if isinstance(part, ast.Constant):
                t = z3.Concat(t, z3.StringVal(str(part.value)))
                template += str(part.value)
            else:
                piece = None
                if isinstance(part.value, (ast.Name, ast.Attribute)) and part.format_spec is None and part.conversion == -1:
                    try:
                        res = self.eval(part.value, st)
                        if len(res) == 1 and res[0][0] == OK and isinstance(res[0][2], Val) and res[0][2].ty == STR:
                            piece = res[0][2].term   # a string-valued name is interpolated as itself
                        elif len(res) == 1 and res[0][0] == OK and isinstance(res[0][2], Val) and isinstance(res[0][2].ty, Atom):
                            v = res[0][2]            # formatting is a function of the value: the same value gives the same text
                            piece = z3.Function(f"format_{v.ty.name}", v.ty.sort(), z3.StringSort())(v.term)
                    except Unsupported:
                        piece = None
                t = z3.Concat(t, piece if piece is not None else z3.String(fresh_name("fmt")))
                template += "{" + ast.unparse(part.value) + "}"
        return [(OK, st, Val(z3.simplify(t), STR, template=template))]

    def e_IfExp(self, node, st):
        def k(s, c):
            out = []
            for s2, side in self.branch(s, truthy(c), "ifexp"):
                out.extend(self.eval(node.body if side else node.orelse, s2))
            return out
        return bind(self.eval(node.test, st), k)

    def e_BoolOp(self, node, st):
        is_and = isinstance(node.op, ast.And)

        def chain(s, idx):
            def k(s1, v):
                if idx == len(node.values) - 1:
                    return [(OK, s1, v)]
                out = []
                for s2, side in self.branch(s1, truthy(v), "and" if is_and else "or"):
                    if side == is_and:
                        out.extend(chain(s2, idx + 1))
                    else:
                        out.append((OK, s2, v))
                return out
            return bind(self.eval(node.values[idx], s), k)
        return chain(st, 0)

    def e_UnaryOp(self, node, st):
        def k(s, v):
            if isinstance(node.op, ast.Not):
                return [(OK, s, Val(z3.Not(truthy(v)), BOOL))]
            if isinstance(node.op, ast.USub):
                return [(OK, s, Val(-v.term, v.ty))]
            raise Unsupported("unary op")
        return bind(self.eval(node.operand, st), k)

    def e_BinOp(self, node, st):
        def k(s, vs):
            return self.binop(s, node.op, vs[0], vs[1])
        return bind(self.eval_many([node.left, node.right], st), k)

    def binop(self, st, op, a, b):
        if isinstance(a, Val) and isinstance(a.ty, Opt):
            a = self.unwrap_opt(st, a, "operand of arithmetic")
        if isinstance(b, Val) and isinstance(b.ty, Opt):
            b = self.unwrap_opt(st, b, "operand of arithmetic")
        if isinstance(a, Val) and isinstance(b, Val):
            ta, tb = a.ty, b.ty
            if DATETIME in (ta, tb):
                if ta == DATETIME and tb == DATETIME and isinstance(op, ast.Sub):
                    return [(OK, st, Val(a.term - b.term, REAL))]
                if ta == DATETIME and tb in (INT, REAL) and isinstance(op, (ast.Add, ast.Sub)):
                    y = coerce(b, REAL).term
                    return [(OK, st, Val(a.term + y if isinstance(op, ast.Add) else a.term - y, DATETIME))]
                raise Unsupported("datetime arithmetic")
            if ta in (INT, REAL) and tb in (INT, REAL):
                real = REAL in (ta, tb) or isinstance(op, ast.Div)
                x = coerce(a, REAL).term if real else a.term
                y = coerce(b, REAL).term if real else b.term
                ty = REAL if real else INT
                if isinstance(op, ast.Add):
                    return [(OK, st, Val(x + y, ty))]
                if isinstance(op, ast.Sub):
                    return [(OK, st, Val(x - y, ty))]
                if isinstance(op, ast.Mult):
                    return [(OK, st, Val(x * y, ty))]
                if isinstance(op, ast.Div):
                    self.implicit(st, y != 0, "ZeroDivisionError", "division")
                    return [(OK, st, Val(x / y, REAL))]
                if isinstance(op, ast.Mod):
                    self.implicit(st, y != 0, "ZeroDivisionError", "modulo")
                    if real:
                        # Python float % under real semantics (assumption, stated in evidence)
                        st.assume(ops.fmod_facts(x, y))
                        return [(OK, st, Val(ops.fmod(x, y), REAL))]
                    return [(OK, st, Val(x % y, INT))]
                if isinstance(op, ast.FloorDiv) and not real:
                    self.implicit(st, y != 0, "ZeroDivisionError", "floordiv")
                    return [(OK, st, Val(x / y, INT))]
            if ta == STR and tb == STR and isinstance(op, ast.Add):
                return [(OK, st, Val(z3.Concat(a.term, b.term), STR))]
            if isinstance(ta, SeqT) and ta == tb and isinstance(op, ast.Add):
                return [(OK, st, Val(z3.Concat(a.term, b.term), ta))]
            if isinstance(ta, SetT) and ta == tb:
                if isinstance(op, ast.BitOr):
                    return [(OK, st, Val(ops.set_union(a.term, b.term), ta))]
                if isinstance(op, ast.BitAnd):
                    return [(OK, st, Val(ops.set_inter(a.term, b.term), ta))]
                if isinstance(op, ast.Sub):
                    return [(OK, st, Val(ops.set_diff(a.term, b.term), ta))]
        raise Unsupported(f"binary op {type(op).__name__} on {a!r}, {b!r}")

    def e_Compare(self, node, st):
        def k(s, vs):
            conj = []
            for op, a, b in zip(node.ops, vs, vs[1:]):
                conj.append(self.compare(s, op, a, b))
            t = conj[0] if len(conj) == 1 else z3.And(conj)
            return [(OK, s, Val(t, BOOL))]
        return bind(self.eval_many([node.left] + node.comparators, st), k)

    def compare(self, st, op, a, b):
        if isinstance(op, ast.Eq):
            return values_equal(a, b)
        if isinstance(op, ast.NotEq):
            return z3.Not(values_equal(a, b))
        if isinstance(op, (ast.Is, ast.IsNot)) and (hasattr(a, "flag") or hasattr(b, "flag")):
            # identity test against a module-level sentinel object: decided by the ghost flag attached to the parameter
            other = b if hasattr(a, "flag") else a
            flag = getattr(self, "sentinel_flags", {}).get(str(other.term)) if isinstance(other, Val) else None
            r = flag if flag is not None else z3.BoolVal(False)
            return r if isinstance(op, ast.Is) else z3.Not(r)
        if isinstance(op, (ast.Is, ast.IsNot)):
            if isinstance(a, NoneVal) or isinstance(b, NoneVal):
                o = b if isinstance(a, NoneVal) else a
                if isinstance(o, NoneVal):
                    r = z3.BoolVal(True)
                elif isinstance(o, Val) and isinstance(o.ty, Opt):
                    r = o.ty.is_none(o.term)
                else:
                    r = z3.BoolVal(False)
            elif isinstance(a, ObjRef) and isinstance(b, ObjRef):
                r = z3.BoolVal(a.oid == b.oid)
            elif isinstance(a, Val) and isinstance(b, Val) and a.ty == BOOL and b.ty == BOOL:
                r = a.term == b.term
            elif isinstance(a, Val) and isinstance(b, Val) and a.ty == b.ty and isinstance(a.ty, (Atom, Enum)):
                r = a.term == b.term          # opaque objects / enum members: identity is equality of the abstract value
            else:
                raise Unsupported("`is` on non-None values")
            return r if isinstance(op, ast.Is) else z3.Not(r)
        if isinstance(op, (ast.In, ast.NotIn)):
            from .values import ExcType
            if isinstance(a, ExcType):
                # `type(exc) in <tuple of classes>`: an exact-class test. For an exception that is an instance of a listed class the answer
                # is True only if its own class is listed - it may as well be a proper subclass: an unconstrained boolean
                listed = isinstance(b, Val) and getattr(b.ty, "name", "") == "ExcTuple" and a.cls == "retriable_exceptions"
                r = z3.Bool(fresh_name("exact_class_is_listed")) if listed else z3.BoolVal(False)
                return r if isinstance(op, ast.In) else z3.Not(r)
        if isinstance(op, ast.In):
            return contains(b, a)
        if isinstance(op, ast.NotIn):
            return z3.Not(contains(b, a))
        if isinstance(a, Val) and isinstance(a.ty, Opt):
            a = self.unwrap_opt(st, a, "operand of ordering comparison")
        if isinstance(b, Val) and isinstance(b.ty, Opt):
            b = self.unwrap_opt(st, b, "operand of ordering comparison")
        if isinstance(a, Val) and isinstance(b, Val) and a.ty == DATETIME and b.ty == DATETIME:
            a, b = Val(a.term, REAL), Val(b.term, REAL)
        if isinstance(a, Val) and isinstance(b, Val) and a.ty in (INT, REAL) and b.ty in (INT, REAL):
            real = REAL in (a.ty, b.ty)
            x = coerce(a, REAL).term if real else a.term
            y = coerce(b, REAL).term if real else b.term
            if isinstance(op, ast.Lt):
                return x < y
            if isinstance(op, ast.LtE):
                return x <= y
            if isinstance(op, ast.Gt):
                return x > y
            if isinstance(op, ast.GtE):
                return x >= y
        raise Unsupported(f"comparison {type(op).__name__} on {a!r}, {b!r}")

    def implicit(self, st: State, cond, exc: str, what: str):
        """No-implicit-exception obligation (unless the contract declares the exception,
        in which case callers fork explicitly)."""
        cond = z3.simplify(cond)
        if z3.is_true(cond):
            return
        self.oblige(st, cond, f"implicit:{exc}:{what}", "implicit")

    def unwrap_opt(self, st: State, v, what: str):
        if isinstance(v, NoneVal):
            self.oblige(st, z3.BoolVal(False), f"implicit:AttributeError:{what}", "implicit")
            raise Unsupported(f"use of None ({what})")
        if isinstance(v, Val) and isinstance(v.ty, Opt):
            self.implicit(st, v.ty.is_some(v.term), "AttributeError", what)
            return Val(v.ty.val(v.term), v.ty.inner)
        return v

    def e_Attribute(self, node, st):
        d = self.dotted(node)
        def k(s, base):
            v = self.getattr(s, base, node.attr, node)
            from .values import PropertyRead
            if isinstance(v, PropertyRead):
                return self.call_method(s, v.recv, v.name, [], {})
            return [(OK, s, v)]
        return bind(self.eval(node.value, st), k)

    def getattr(self, st, base, attr, node=None):
        if isinstance(base, ObjRef):
            if self.has_field(base, attr):
                v = self.heap_read(st, base, attr)
                if isinstance(v, Val) and isinstance(v.ty, (SetT, MapT, SeqT)):
                    return Val(v.term, v.ty, origin=("field", base, attr))
                return v
            # a @property of the real class (or of an abstract component): reading it runs it
            shape = self.reg.shapes.get(base.shape)
            is_prop = attr in getattr(shape, "properties", ())
            if not is_prop and shape is not None and shape.cls and self.src.has_module(shape.cls[0]):
                fi = self.src.find_method(shape.cls[0], shape.cls[1], attr)
                is_prop = fi is not None and any((isinstance(d, ast.Name) and d.id in ("property", "cached_property")) or
                                                 (isinstance(d, ast.Attribute) and d.attr in ("property", "cached_property")) for d in fi.node.decorator_list)
            if is_prop:
                from .values import PropertyRead
                return PropertyRead(base, attr)
            return BoundMeth(base, attr)
        if isinstance(base, Native):
            return base.vc_getattr(self, st, attr)
        if isinstance(base, ModVal):
            return self.resolve_qualified(base.name, attr)
        if isinstance(base, FuncVal) and base.kind in ("class", "exc"):
            key = base.key
            if key in self.reg.enums:
                ety = self.reg.enums[key]
                if attr in ety.members:
                    return Val(ety.const(attr), ety)
            return BoundMeth(base, attr)
        if isinstance(base, BuiltinVal):
            return BuiltinVal(base.name + "." + attr)
        if isinstance(base, Val):
            if isinstance(base.ty, Opt):
                base = self.unwrap_opt(st, base, f".{attr}")
            ty = base.ty
            if isinstance(ty, Record) and ty.has(attr):
                return Val(ty.get(base.term, attr), ty.field_ty(attr))
            if isinstance(ty, (Record, Enum)) and getattr(ty, "pycls", None) and self.src.has_module(ty.pycls[0]):
                fi = self.src.find_method(ty.pycls[0], ty.pycls[1], attr)
                if fi is not None and any((isinstance(d, ast.Name) and d.id in ("property", "cached_property")) or
                                          (isinstance(d, ast.Attribute) and d.attr in ("property", "cached_property")) for d in fi.node.decorator_list):
                    res = self.inline_call(st, fi.key, base, [], {}, self.reg.contracts.get(fi.key))
                    if len(res) == 1 and res[0][0] == OK:
                        return res[0][2]    # a property: reading it runs its (real) body
                    raise Unsupported(f"property {attr} with several outcomes")
            hook = getattr(self.reg, "value_attrs", {}).get((getattr(ty, "name", None), attr))
            if hook is not None:
                return hook(self, st, base)
            if ty == REAL and attr in ("days", "seconds"):
                # a timedelta (seconds as a real): Python normalises to days = floor(total / 86400), 0 <= seconds < 86400
                days = z3.ToInt(base.term / 86400)
                if attr == "days":
                    return Val(days, INT)
                return Val(z3.ToInt(base.term - z3.ToReal(days) * 86400), INT)
            if isinstance(ty, Enum) and attr == "value":
                return ops.enum_value(base)
            if isinstance(ty, Enum) and attr == "name":
                return Val(z3.String(fresh_name("enumname")), STR)
            return BoundMeth(base, attr)
        if isinstance(base, TupleVal) or isinstance(base, ListVal) or isinstance(base, GenVal):
            return BoundMeth(base, attr)
        if isinstance(base, ExcVal):
            if attr in base.fields:
                return base.fields[attr]
            return Val(z3.String(fresh_name("excattr")), STR)
        raise Unsupported(f"attribute {attr} of {base!r}")

    def e_Subscript(self, node, st):
        if isinstance(node.slice, ast.Slice):
            sl = node.slice
            parts = [sl.lower or ast.Constant(None), sl.upper or ast.Constant(None)]
            if sl.step is not None:
                raise Unsupported("slice step")
            def k(s, vs):
                return [(OK, s, self.slice(s, vs[0], vs[1], vs[2]))]
            return bind(self.eval_many([node.value] + parts, st), k)

        def k(s, vs):
            return self.subscript_read(s, vs[0], vs[1], node)
        return bind(self.eval_many([node.value, node.slice], st), k)

    def slice(self, st, base, lo, hi):
        if isinstance(base, ListVal):
            l = None if isinstance(lo, NoneVal) else _const_int(lo)
            h = None if isinstance(hi, NoneVal) else _const_int(hi)
            return ListVal(base.items[l:h])
        if isinstance(base, Val) and (isinstance(base.ty, SeqT) or base.ty == STR):
            n = z3.Length(base.term)
            def norm(v, default):
                if isinstance(v, NoneVal):
                    return default
                t = v.term
                t = z3.If(t < 0, z3.If(n + t < 0, z3.IntVal(0), n + t), z3.If(t > n, n, t))
                return t
            l = norm(lo, z3.IntVal(0))
            h = norm(hi, n)
            empty = z3.StringVal("") if base.ty == STR else base.ty.empty()
            if getattr(self.reg, "seq_pointwise_hints", False) and base.ty != STR:
                r = z3.Const(fresh_name("slice"), base.ty.sort())
                st.assume(r == z3.If(h > l, z3.SubSeq(base.term, l, h - l), empty))
                st.assume(z3.Length(r) == z3.If(h > l, h - l, 0))
                ops.slice_hints(st, r, base.term, l)
                return Val(r, base.ty)
            return Val(z3.If(h > l, z3.SubSeq(base.term, l, h - l), empty), base.ty)
        raise Unsupported(f"slice of {base!r}")

    def subscript_read(self, st, base, idx, node=None):
        if isinstance(base, (ListVal, TupleVal)):
            i = _const_int(idx)
            if i is None:
                raise Unsupported("symbolic index into concrete list")
            if not (-len(base.items) <= i < len(base.items)):
                self.oblige(st, z3.BoolVal(False), "implicit:IndexError:list", "implicit")
                return []
            return [(OK, st, base.items[i])]
        if isinstance(base, Val) and isinstance(base.ty, Opt):
            base = self.unwrap_opt(st, base, "subscript")
        if isinstance(base, Val) and isinstance(base.ty, MapT):
            ty = base.ty
            kterm = coerce(idx, ty.key).term
            cell = z3.Select(base.term, kterm)
            if ty.default is not None:
                # defaultdict: a read of a missing key inserts the default
                newmap = z3.If(ty.opt.is_some(cell), base.term, z3.Store(base.term, kterm, ty.opt.some(ty.default())))
                if base.origin:
                    self.write_lv(st, base.origin, Val(newmap, ty))
                val = z3.If(ty.opt.is_some(cell), ty.opt.val(cell), ty.default())
                return [(OK, st, Val(val, ty.val, origin=("sub", base.origin, Val(kterm, ty.key)) if base.origin else None))]
            out = []
            declared = self.declares_exc("KeyError")
            if declared:
                for s2, present in self.branch(st, ty.opt.is_some(cell), "key"):
                    if present:
                        out.append((OK, s2, Val(ty.opt.val(cell), ty.val,
                                                origin=("sub", base.origin, Val(kterm, ty.key)) if base.origin else None)))
                    else:
                        out.append((RAISE, s2, ExcVal("KeyError")))
                return out
            self.implicit(st, ty.opt.is_some(cell), "KeyError", "dict subscript")
            return [(OK, st, Val(ty.opt.val(cell), ty.val,
                                 origin=("sub", base.origin, Val(kterm, ty.key)) if base.origin else None))]
        if isinstance(base, Val) and base.ty == STR:
            i = coerce(idx, INT).term
            n = z3.Length(base.term)
            self.implicit(st, z3.And(i >= -n, i < n), "IndexError", "string index")
            i2 = z3.If(i < 0, n + i, i)
            return [(OK, st, Val(z3.SubString(base.term, i2, 1), STR))]
        if isinstance(base, Val) and isinstance(base.ty, SeqT):
            i = coerce(idx, INT).term
            n = z3.Length(base.term)
            self.implicit(st, z3.And(i >= -n, i < n), "IndexError", "sequence index")
            i2 = z3.If(i < 0, n + i, i)
            return [(OK, st, Val(base.term[i2], base.ty.elem))]
        raise Unsupported(f"subscript of {base!r}")

    def declares_exc(self, name: str) -> bool:
        c = getattr(self, "top_contract", None) or self.cur_contract
        return bool(c) and any(cs.raises == name for cs in c.cases)

    # ------------------------------------------------------------------ l-values
    def eval_lv(self, node, st):
        """L-value of an expression: [(kind, st, lv)], lv = ('local', name) | ('field', ref, fld) | ('sub', lv, keyVal)."""
        if isinstance(node, ast.Name):
            v = st.env.get(node.id)
            if isinstance(v, Val) and v.origin is not None:
                return [(OK, st, v.origin)]
            return [(OK, st, ("local", node.id))]
        if isinstance(node, ast.Attribute):
            def k(s, base):
                if isinstance(base, ObjRef):
                    return [(OK, s, ("field", base, node.attr))]
                raise Unsupported(f"l-value attribute of {base!r}")
            return bind(self.eval(node.value, st), k)
        if isinstance(node, ast.Subscript):
            def k(s, lv):
                def k2(s2, key):
                    return [(OK, s2, ("sub", lv, key))]
                return bind(self.eval(node.slice, s), k2)
            return bind(self.eval_lv(node.value, st), k)
        raise Unsupported(f"l-value {type(node).__name__}")

    def read_lv(self, st, lv, insert_default=True):
        kind = lv[0]
        if kind == "local":
            return st.env[lv[1]]
        if kind == "field":
            return self.heap_read(st, lv[1], lv[2])
        if kind == "sub":
            base = self.read_lv(st, lv[1])
            if not (isinstance(base, Val) and isinstance(base.ty, MapT)):
                raise Unsupported(f"subscript l-value on {base!r}")
            ty = base.ty
            kterm = coerce(lv[2], ty.key).term
            cell = z3.Select(base.term, kterm)
            if ty.default is not None:
                if insert_default:
                    newmap = z3.If(ty.opt.is_some(cell), base.term, z3.Store(base.term, kterm, ty.opt.some(ty.default())))
                    self.write_lv(st, lv[1], Val(newmap, ty))
                return Val(z3.If(ty.opt.is_some(cell), ty.opt.val(cell), ty.default()), ty.val)
            self.implicit(st, ty.opt.is_some(cell), "KeyError", "dict subscript")
            return Val(ty.opt.val(cell), ty.val)
        raise Unsupported(f"read l-value {lv!r}")

    def write_lv(self, st, lv, val):
        kind = lv[0]
        if kind == "local":
            st.env[lv[1]] = val
        elif kind == "field":
            self.heap_write(st, lv[1], lv[2], val)
        elif kind == "sub":
            base = self.read_lv(st, lv[1])
            if isinstance(base, Val) and isinstance(base.ty, MapT):
                ty = base.ty
                kterm = coerce(lv[2], ty.key).term
                self.note_card_map_store(st, base, kterm)
                self.write_lv(st, lv[1], Val(z3.Store(base.term, kterm, ty.opt.some(self.need(st, val, ty.val).term)), ty))
            else:
                raise Unsupported(f"subscript store on {base!r}")
        else:
            raise Unsupported(f"write l-value {lv!r}")

    def read_alias_sub(self, st, lv):
        base = self.read_lv(st, lv[1], insert_default=False) if lv[1][0] != "sub" else self.read_alias_sub(st, lv[1])
        ty = base.ty
        cell = z3.Select(base.term, coerce(lv[2], ty.key).term)
        dflt = ty.default() if ty.default is not None else ty.opt.val(cell)
        return Val(z3.If(ty.opt.is_some(cell), ty.opt.val(cell), dflt), ty.val)

    def note_card_map_store(self, st, base, kterm):
        """len(dict) bookkeeping: storing under a key grows the key set by one exactly when the key was absent"""
        ty = base.ty
        ks = ty.key.sort()
        old_keys = ops.set_keys(base).term
        new_keys = ops.set_keys(Val(z3.Store(base.term, kterm, ty.opt.some(z3.Const(fresh_name("anyv"), ty.val.sort()))), ty)).term
        st.assume(ops.card(new_keys, ks) == ops.card(old_keys, ks) + z3.If(ty.opt.is_some(z3.Select(base.term, kterm)), 0, 1))

    # comprehension / lambda / misc
    def e_Lambda(self, node, st):
        return [(OK, st, LambdaVal(node, dict(st.env)))]

    def e_Dict(self, node, st):
        if not node.keys:
            return [(OK, st, ListVal([]))]  # empty literal: typed on assignment
        if any(k is None for k in node.keys):
            raise Unsupported("dict literal with ** unpacking")
        # a non-empty literal is evaluated for the effects of its parts and kept as an opaque value
        # (it can only be handed to calls that have an assumed contract, e.g. template rendering)
        def k(s, vals):
            v = mk_fresh(OpaqueT("dict"), "dictlit")
            v.template = None
            return [(OK, s, v)]
        return bind(self.eval_many([v for v in node.values], st), k)

    def e_ListComp(self, node, st):
        """[f(x) for x in seq]  (no filter): a sequence of the same length, element-wise image."""
        if len(node.generators) != 1 or node.generators[0].is_async:
            raise Unsupported("nested list comprehension")
        g = node.generators[0]
        if node.generators[0].ifs:
            # a filtered comprehension over dict items / a set yields each surviving element once: its set view is exact
            return self.e_SetComp(node, st)

        def k(s, it):
            if isinstance(it, (ListVal, TupleVal)):
                results = [(OK, s, [])]
                for item in it.items:
                    def step(s2, acc, item=item):
                        return bind(bind(self.assign_target(g.target, item, s2), lambda s3, _v: self.eval(node.elt, s3)),
                                    lambda s4, v: [(OK, s4, acc + [v])])
                    results = bind(results, step)
                return bind(results, lambda s2, vs: [(OK, s2, ListVal(vs))])
            if isinstance(it, Val) and isinstance(it.ty, SeqT):
                # element-wise image: the result holds exactly the images of the elements (stated over element sets;
                # multiplicity and order are not tracked at this level)
                xq = z3.Const(fresh_name("lcx"), it.ty.elem.sort())
                from .values import name_mark
                mark = name_mark()
                s2 = s.fork()
                s2.ghost["$lc_index"] = z3.IntVal(0)
                res = bind(self.assign_target(g.target, Val(xq, it.ty.elem), s2), lambda s3, _v: self.eval(node.elt, s3))
                if len(res) != 1 or res[0][0] != OK or not isinstance(res[0][2], Val):
                    raise Unsupported("branching list comprehension body")
                elt = res[0][2]
                # constants generated while evaluating the element expression are per-element values: they become functions of the
                # element (Skolem functions), otherwise "for all x: fact(x, c)" would tie one c to every element
                facts = list(res[0][1].pc[len(s.pc):])
                subs = _per_element_subs(facts + [elt.term], xq, mark)
                if subs:
                    facts = [z3.substitute(f, *subs) for f in facts]
                    elt = Val(z3.substitute(elt.term, *subs), elt.ty)
                for extra_fact in facts:
                    s.assume(z3.ForAll([xq], extra_fact))   # facts the element expression's contract gives for every element
                rty = SeqT(elt.ty)
                r = z3.Const(fresh_name("lcres"), rty.sort())
                src_set = ops.seq_elems(it.term, it.ty.elem.sort())
                dst_set = ops.seq_elems(r, elt.ty.sort())
                yq = z3.Const(fresh_name("lcy"), elt.ty.sort())
                s.assume(z3.Length(r) == z3.Length(it.term))
                if getattr(self.reg, "listcomp_pointwise", False):
                    # the defining equation of the comprehension, position by position (kept behind a registry flag: one more quantifier per site)
                    jq = z3.Int(fresh_name("lcj"))
                    s.assume(z3.ForAll([jq], z3.Implies(z3.And(jq >= 0, jq < z3.Length(it.term)), r[jq] == z3.substitute(elt.term, (xq, it.term[jq])))))
                s.assume(z3.ForAll([xq], z3.Implies(z3.Select(src_set, xq), z3.Select(dst_set, elt.term))))
                s.assume(z3.ForAll([yq], z3.Implies(z3.Select(dst_set, yq), z3.Exists([xq], z3.And(z3.Select(src_set, xq), elt.term == yq)))))
                return [(OK, s, Val(r, rty))]
            raise Unsupported(f"list comprehension over {it!r}")
        return bind(self.eval(g.iter, st), k)

    def e_SetComp(self, node, st):
        """{elt for k, v in m.items() if cond}  /  {elt for x in some_set if cond}: a set defined by comprehension."""
        if len(node.generators) != 1 or node.generators[0].is_async:
            raise Unsupported("nested set comprehension")
        g = node.generators[0]

        def k(s, it):
            items_map = getattr(it, "items_of", None)
            if items_map is not None:
                mty = items_map.ty
                kq = z3.Const(fresh_name("sck"), mty.key.sort())
                member = mty.opt.is_some(z3.Select(items_map.term, kq))
                item = TupleVal([Val(kq, mty.key), Val(mty.opt.val(z3.Select(items_map.term, kq)), mty.val)])
                qty = mty.key
            elif isinstance(it, Val) and isinstance(it.ty, SetT):
                kq = z3.Const(fresh_name("sck"), it.ty.elem.sort())
                member = z3.Select(it.term, kq)
                item = Val(kq, it.ty.elem)
                qty = it.ty.elem
            elif isinstance(it, Val) and isinstance(it.ty, MapT):      # iterating a dict = iterating its keys
                kq = z3.Const(fresh_name("sck"), it.ty.key.sort())
                member = it.ty.opt.is_some(z3.Select(it.term, kq))
                item = Val(kq, it.ty.key)
                qty = it.ty.key
            else:
                raise Unsupported(f"set comprehension over {it!r}")
            from .values import name_mark
            mark = name_mark()
            s2 = s.fork()
            res = bind(self.assign_target(g.target, item, s2), lambda s3, _v: self.eval_many(list(g.ifs) + [node.elt], s3))
            if len(res) != 1 or res[0][0] != OK:
                raise Unsupported("branching set comprehension body")
            vs = res[0][2]
            cond = z3.And([member] + [truthy(c) for c in vs[:-1]])
            elt = vs[-1]
            facts = list(res[0][1].pc[len(s.pc):])
            subs = _per_element_subs(facts + [cond] + ([elt.term] if isinstance(elt, Val) else []), kq, mark)
            if subs:
                cond = z3.substitute(cond, *subs)
                if isinstance(elt, Val):
                    elt = Val(z3.substitute(elt.term, *subs), elt.ty)
                for f in facts:       # what the body's contracts give for the arbitrary member holds for every member
                    s.assume(z3.ForAll([kq], z3.Implies(member, z3.substitute(f, *subs))))
            if isinstance(elt, Val) and z3.eq(elt.term, kq):
                return [(OK, s, Val(z3.Lambda([kq], cond), SetT(qty)))]
            yq = z3.Const(fresh_name("scy"), elt.ty.sort())
            return [(OK, s, Val(z3.Lambda([yq], z3.Exists([kq], z3.And(cond, elt.term == yq))), SetT(elt.ty)))]
        return bind(self.eval(g.iter, st), k)

    def e_DictComp(self, node, st):
        """{k: value(k) for k in keys [if cond]}: a map defined pointwise over the iterated keys (the key expression must be the loop variable)."""
        if len(node.generators) != 1 or node.generators[0].is_async:
            raise Unsupported("nested dict comprehension")
        g = node.generators[0]
        pair = isinstance(g.target, ast.Tuple) and len(g.target.elts) == 2 and all(isinstance(e, ast.Name) for e in g.target.elts)
        key_name = g.target.elts[0].id if pair else (g.target.id if isinstance(g.target, ast.Name) else None)
        if key_name is None or not (isinstance(node.key, ast.Name) and node.key.id == key_name):
            raise Unsupported("dict comprehension whose key is not the loop variable")

        def k(s, it):
            items_map = getattr(it, "items_of", None)
            if pair and items_map is None:
                raise Unsupported("dict comprehension with a pair target over something else than d.items()")
            if items_map is not None and not pair:
                raise Unsupported("dict comprehension over d.items() without a (key, value) target")
            if items_map is not None:
                it = items_map
            if isinstance(it, Val) and isinstance(it.ty, SetT):
                kty, member_of = it.ty.elem, (lambda q: z3.Select(it.term, q))
            elif isinstance(it, Val) and isinstance(it.ty, SeqT):
                kty = it.ty.elem
                elems = ops.seq_elems(it.term, kty.sort())
                member_of = lambda q: z3.Select(elems, q)
            elif isinstance(it, Val) and isinstance(it.ty, MapT):
                kty, member_of = it.ty.key, (lambda q: it.ty.opt.is_some(z3.Select(it.term, q)))
            else:
                raise Unsupported(f"dict comprehension over {it!r}")
            kq = z3.Const(fresh_name("dck"), kty.sort())
            from .values import name_mark
            mark = name_mark()
            s2 = s.fork()
            n_before = len(s2.pc)
            s2.assume(member_of(kq))
            item = TupleVal([Val(kq, kty), Val(it.ty.opt.val(z3.Select(it.term, kq)), it.ty.val)]) if pair else Val(kq, kty)
            res = bind(self.assign_target(g.target, item, s2), lambda s3, _v: self.eval_many(list(g.ifs) + [node.value], s3))
            ok = [r for r in res if r[0] == OK]
            bad = [r for r in res if r[0] != OK]
            if not ok:
                raise Unsupported("dict comprehension body never completes")
            out = list(bad)                 # e.g. an exception of the value expression for some key: the comprehension raises
            for _kind, s_ok, vs in ok:      # one result per way the body can evaluate (e.g. a cached property being filled or not)
                val = vs[-1]
                if not isinstance(val, Val):
                    raise Unsupported("dict comprehension value")
                cond = z3.And([member_of(kq)] + [truthy(c) for c in vs[:-1]])
                facts = list(s_ok.pc[n_before + 1:])
                subs = _per_element_subs(facts + [cond, val.term], kq, mark)
                if subs:
                    cond = z3.substitute(cond, *subs)
                    val = Val(z3.substitute(val.term, *subs), val.ty)
                    for f in facts:
                        s_ok.assume(z3.ForAll([kq], z3.Implies(member_of(kq), z3.substitute(f, *subs))))
                mty = MapT(kty, val.ty)
                m = z3.Const(fresh_name("dcomp"), mty.sort())
                # facts established while evaluating the body for an arbitrary member stay (they only mention that fresh member);
                # implicit-exception obligations of the body were raised for that arbitrary member, i.e. for every member
                s_ok.assume(z3.ForAll([kq], z3.Select(m, kq) == z3.If(cond, mty.opt.some(val.term), mty.opt.none())))
                out.append((OK, s_ok, Val(m, mty)))
            return out
        return bind(self.eval(g.iter, st), k)

    def e_Starred(self, node, st):
        raise Unsupported("starred expression")


def _const_int(v):
    if isinstance(v, Val) and v.ty == INT:
        t = z3.simplify(v.term)
        if z3.is_int_value(t):
            return t.as_long()
    return None
