"""Type-directed primitive operations on symbolic values (no AST knowledge here)."""
from __future__ import annotations

import z3

from .types import BOOL, DATETIME, INT, REAL, STR, Atom, Enum, MapT, ObjT, Opt, OpaqueT, Record, SeqT, SetT, TupleT, Ty
from .values import NONE, ExcVal, ListVal, NoneVal, ObjRef, TupleVal, Val, boolval, fresh_name, mk_fresh, FuncVal, BoundMeth, GenVal, Native


class Unsupported(Exception):
    """The construct is outside the encoder's subset: the function is *undecided*."""


def truthy(v) -> object:
    """z3 Bool for Python truthiness of v."""
    if isinstance(v, NoneVal):
        return z3.BoolVal(False)
    if isinstance(v, (ObjRef, FuncVal, BoundMeth, Native)):
        return z3.BoolVal(True)
    if isinstance(v, TupleVal):
        return z3.BoolVal(len(v.items) > 0)
    if isinstance(v, ListVal):
        return z3.BoolVal(len(v.items) > 0)
    if isinstance(v, GenVal):
        return z3.BoolVal(True)
    if not isinstance(v, Val):
        raise Unsupported(f"truthiness of {v!r}")
    t, ty = v.term, v.ty
    if ty == BOOL:
        return t
    if ty == INT:
        return t != 0
    if ty == REAL:
        return t != 0
    if ty == STR:
        return z3.Length(t) > 0
    if ty == DATETIME:
        return z3.BoolVal(True)
    if isinstance(ty, (Atom, Record, Enum)):
        # StrEnum members of the repo are all non-empty strings; atoms are non-empty ids by type invariant
        return z3.BoolVal(True)
    if isinstance(ty, Opt):
        return z3.And(ty.is_some(t), truthy(Val(ty.val(t), ty.inner)))
    if isinstance(ty, SetT):
        return t != ty.empty()
    if isinstance(ty, MapT):
        return t != ty.empty()
    if isinstance(ty, SeqT):
        return z3.Length(t) > 0
    raise Unsupported(f"truthiness of type {ty}")


def unify_types(a, b):
    """Common type of two values for merging / comparison; returns Ty or None."""
    ta = a.ty if isinstance(a, Val) else None
    tb = b.ty if isinstance(b, Val) else None
    if isinstance(a, NoneVal) and isinstance(b, NoneVal):
        return None
    if isinstance(a, NoneVal):
        return tb if isinstance(tb, Opt) else Opt(tb)
    if isinstance(b, NoneVal):
        return ta if isinstance(ta, Opt) else Opt(ta)
    if ta is None or tb is None:
        return None
    if ta == tb:
        return ta
    if isinstance(ta, Opt) and ta.inner == tb:
        return ta
    if isinstance(tb, Opt) and tb.inner == ta:
        return tb
    if {ta, tb} == {INT, REAL}:
        return REAL
    if isinstance(ta, Opt) and isinstance(tb, Opt):
        if {ta.inner, tb.inner} == {INT, REAL}:
            return Opt(REAL)
    if isinstance(ta, MapT) and isinstance(tb, MapT) and ta.plain() == tb.plain():
        return ta.plain()
    return None


def coerce(v, ty: Ty):
    """Convert v to type ty (must be a widening), returning a Val."""
    if isinstance(v, NoneVal):
        if isinstance(ty, Opt):
            return Val(ty.none(), ty)
        raise Unsupported(f"None where {ty} expected")
    if isinstance(v, ListVal):
        if isinstance(ty, SeqT):
            t = ty.empty()
            for it in v.items:
                t = z3.Concat(t, z3.Unit(coerce(it, ty.elem).term)) if v.items else t
            return Val(t, ty)
        if isinstance(ty, SetT):
            t = ty.empty()
            for it in v.items:
                t = z3.Store(t, coerce(it, ty.elem).term, True)
            return Val(t, ty)
        if isinstance(ty, MapT) and not v.items:
            return Val(ty.empty(), ty)         # {} / dict()
        raise Unsupported(f"list literal where {ty} expected")
    if not isinstance(v, Val):
        raise Unsupported(f"cannot coerce {v!r} to {ty}")
    if v.ty == ty:
        return v
    if isinstance(ty, Opt):
        if isinstance(v.ty, Opt):
            if v.ty.inner == INT and ty.inner == REAL:
                return Val(z3.If(v.ty.is_none(v.term), ty.none(), ty.some(z3.ToReal(v.ty.val(v.term)))), ty)
            raise Unsupported(f"cannot coerce {v.ty} to {ty}")
        return Val(ty.some(coerce(v, ty.inner).term), ty)
    if ty == REAL and v.ty == INT:
        return Val(z3.ToReal(v.term), REAL)
    if ty == DATETIME and v.ty == REAL or ty == REAL and v.ty == DATETIME:
        return Val(v.term, ty)
    if isinstance(ty, MapT) and isinstance(v.ty, MapT) and ty.plain() == v.ty.plain():
        return Val(v.term, ty)
    if isinstance(ty, SetT) and isinstance(v.ty, SeqT) and ty.elem == v.ty.elem:
        x = z3.Const(fresh_name("e"), ty.elem.sort())
        return Val(z3.Lambda([x], z3.Contains(v.term, z3.Unit(x))), ty)
    conv = COERCIONS.get((getattr(v.ty, "name", None), getattr(ty, "name", None)))
    if conv is not None:
        return Val(conv(v.term), ty)      # a view declared by the contract module (e.g. an opaque value known to be an Arguments object)
    raise Unsupported(f"cannot coerce {v.ty} to {ty}")


COERCIONS: dict = {}


_OVERRIDE: dict = {}


def map_override(base, other, ty):
    """dict(base); .update(other): other's entries on top of base's.  An uninterpreted function per map type with its pointwise
    definition as an axiom (`map_override_axiom`): code and specification then coincide syntactically, no lambda under a quantifier."""
    key = ty.sort().sexpr() if hasattr(ty.sort(), "sexpr") else str(ty.sort())
    if key not in _OVERRIDE:
        _OVERRIDE[key] = z3.Function("dict_override_" + "".join(ch if ch.isalnum() else "_" for ch in key), ty.sort(), ty.sort(), ty.sort())
    return _OVERRIDE[key](base, other)


def map_override_axiom(ty):
    b, o = z3.Const("ovb", ty.sort()), z3.Const("ovo", ty.sort())
    k = z3.Const("ovk", ty.key.sort())
    return z3.ForAll([b, o, k], z3.Select(map_override(b, o, ty), k) == z3.If(ty.opt.is_some(z3.Select(o, k)), z3.Select(o, k), z3.Select(b, k)))


def concat_hints(st, new, a, b):
    """theorems of the sequence theory about new = a ++ b, position by position (z3 does not find them unprompted)"""
    j = z3.Int(fresh_name("cj"))
    st.assume(z3.Length(new) == z3.Length(a) + z3.Length(b))
    st.assume(z3.ForAll([j], z3.Implies(z3.And(j >= 0, j < z3.Length(a)), new[j] == a[j])))
    st.assume(z3.ForAll([j], z3.Implies(z3.And(j >= z3.Length(a), j < z3.Length(a) + z3.Length(b)), new[j] == b[j - z3.Length(a)])))


def slice_hints(st, r, base, lo):
    """r = base[lo:hi] with 0 <= lo: r[k] == base[lo + k] for every position of r"""
    k = z3.Int(fresh_name("sk"))
    st.assume(z3.ForAll([k], z3.Implies(z3.And(k >= 0, k < z3.Length(r)), r[k] == base[lo + k])))


def values_equal(a, b):
    """z3 Bool for Python `a == b`."""
    if isinstance(a, NoneVal) and isinstance(b, NoneVal):
        return z3.BoolVal(True)
    if isinstance(a, NoneVal) or isinstance(b, NoneVal):
        o = b if isinstance(a, NoneVal) else a
        if isinstance(o, Val) and isinstance(o.ty, Opt):
            return o.ty.is_none(o.term)
        return z3.BoolVal(False)
    if isinstance(a, ObjRef) and isinstance(b, ObjRef):
        return z3.BoolVal(a.oid == b.oid)
    if isinstance(a, TupleVal) and isinstance(b, TupleVal):
        if len(a.items) != len(b.items):
            return z3.BoolVal(False)
        return z3.And([values_equal(x, y) for x, y in zip(a.items, b.items)] or [z3.BoolVal(True)])
    if isinstance(a, Val) and isinstance(b, Val):
        ty = unify_types(a, b)
        if ty is None:
            if isinstance(a.ty, Enum) and b.ty == STR or isinstance(b.ty, Enum) and a.ty == STR:
                e, s = (a, b) if isinstance(a.ty, Enum) else (b, a)
                return enum_value(e).term == s.term
            raise Unsupported(f"== between {a.ty} and {b.ty}")
        return coerce(a, ty).term == coerce(b, ty).term
    raise Unsupported(f"== between {a!r} and {b!r}")


def enum_value(v: Val) -> Val:
    ty = v.ty
    assert isinstance(ty, Enum)
    t = z3.StringVal("?")
    for m in ty.members:
        t = z3.If(v.term == ty.const(m), z3.StringVal(str(ty.values.get(m, m))), t)
    return Val(t, STR)


def contains(container, item):
    """z3 Bool for `item in container`."""
    if isinstance(container, ListVal):
        return z3.Or([values_equal(item, x) for x in container.items] or [z3.BoolVal(False)])
    if isinstance(container, TupleVal):
        return z3.Or([values_equal(item, x) for x in container.items] or [z3.BoolVal(False)])
    if isinstance(container, GenVal):
        return z3.Select(container.out_set, coerce(item, container.elem_ty).term)
    if not isinstance(container, Val):
        raise Unsupported(f"`in` on {container!r}")
    ty = container.ty
    if isinstance(ty, SetT):
        if isinstance(item, NoneVal):
            return z3.BoolVal(False)
        if isinstance(item, Val) and isinstance(item.ty, Opt) and item.ty.inner == ty.elem:
            return z3.And(item.ty.is_some(item.term), z3.Select(container.term, item.ty.val(item.term)))
        return z3.Select(container.term, coerce(item, ty.elem).term)
    if isinstance(ty, MapT):
        if isinstance(item, NoneVal):
            return z3.BoolVal(False)
        if isinstance(item, Val) and isinstance(item.ty, Opt) and item.ty.inner == ty.key:
            return z3.And(item.ty.is_some(item.term), ty.opt.is_some(z3.Select(container.term, item.ty.val(item.term))))
        return ty.opt.is_some(z3.Select(container.term, coerce(item, ty.key).term))
    if isinstance(ty, SeqT):
        return z3.Contains(container.term, z3.Unit(coerce(item, ty.elem).term))
    if ty == STR:
        return z3.Contains(container.term, coerce(item, STR).term)
    raise Unsupported(f"`in` on type {ty}")


def ite(cond, a, b):
    """Merge two values under a condition (used by IfExp and `or`/`and` values)."""
    if isinstance(a, NoneVal) and isinstance(b, NoneVal):
        return NONE
    ty = unify_types(a, b)
    if ty is None:
        raise Unsupported(f"cannot merge {a!r} and {b!r}")
    return Val(z3.If(cond, coerce(a, ty).term, coerce(b, ty).term), ty)


def set_keys(mapval: Val) -> Val:
    ty = mapval.ty
    k = z3.Const(fresh_name("k"), ty.key.sort())
    return Val(z3.Lambda([k], ty.opt.is_some(z3.Select(mapval.term, k))), SetT(ty.key))


def set_union(a, b):
    return z3.Map(_or_decl(), a, b)


def set_inter(a, b):
    return z3.Map(_and_decl(), a, b)


def set_diff(a, b):
    return z3.Map(_and_decl(), a, z3.Map(_not_decl(), b))


def set_subset(a, b, elem_sort):
    x = z3.Const(fresh_name("x"), elem_sort)
    return z3.ForAll([x], z3.Implies(z3.Select(a, x), z3.Select(b, x)))


def _or_decl():
    return z3.Or(z3.Bool("a"), z3.Bool("b")).decl()


def _and_decl():
    return z3.And(z3.Bool("a"), z3.Bool("b")).decl()


def _not_decl():
    return z3.Not(z3.Bool("a")).decl()


_card_funcs: dict = {}


def card(set_term, elem_sort):
    """Uninterpreted cardinality; facts about it are added only at the operations
    that change a set (sound instances of the finite-set axioms)."""
    key = elem_sort.name()
    if key not in _card_funcs:
        _card_funcs[key] = z3.Function("card_" + key, z3.ArraySort(elem_sort, z3.BoolSort()), z3.IntSort())
    return _card_funcs[key](set_term)


_fmod = None


def fmod(x, y):
    """Python float `%` under real semantics: an uninterpreted function whose defining facts
    (x = k*y + fmod(x,y), 0 <= fmod(x,y) < y for y > 0) are added at each use."""
    global _fmod
    if _fmod is None:
        _fmod = z3.Function("fmod", z3.RealSort(), z3.RealSort(), z3.RealSort())
    return _fmod(x, y)


def fmod_facts(x, y):
    k = z3.Int(fresh_name("modk"))
    r = fmod(x, y)
    return z3.And(z3.Implies(y > 0, z3.And(x == z3.ToReal(k) * y + r, r >= 0, r < y)),
                  z3.Implies(y < 0, z3.And(x == z3.ToReal(k) * y + r, r <= 0, r > y)))


_elems_funcs: dict = {}


def seq_elems(term, elem_sort):
    """The set of elements of a sequence.  For a sequence built from a literal list (Concat of Units) it is the
    explicit finite set; otherwise an uninterpreted function of the sequence (contracts that only care about
    *which* elements a list holds then need no index arithmetic)."""
    lit = _literal_elems(term)
    if lit is not None:
        s = z3.K(elem_sort, z3.BoolVal(False))
        for e in lit:
            s = z3.Store(s, e, True)
        return s
    key = elem_sort.name()
    if key not in _elems_funcs:
        _elems_funcs[key] = z3.Function("elems_" + key, z3.SeqSort(elem_sort), z3.ArraySort(elem_sort, z3.BoolSort()))
    return _elems_funcs[key](term)


def _literal_elems(term):
    if not z3.is_app(term):
        return None
    k = term.decl().kind()
    if k == z3.Z3_OP_SEQ_EMPTY:
        return []
    if k == z3.Z3_OP_SEQ_UNIT:
        return [term.arg(0)]
    if k == z3.Z3_OP_SEQ_CONCAT:
        out = []
        for a in term.children():
            sub = _literal_elems(a)
            if sub is None:
                return None
            out.extend(sub)
        return out
    return None
