"""Property-level driver: verify the contracted functions, run lemmas / analyses / bounded
stand-ins, replay counter-models, apply the known-findings file, write evidence."""
from __future__ import annotations

import fnmatch
import json
import multiprocessing as mp
import os
import sys
import time
import traceback
from dataclasses import dataclass, field
from typing import Callable

import z3

from .contract import Contract, Registry
from .solve import Obligation, discharge
from .source import Source
from .verify import FunctionReport, verify_function

VERIF = os.path.dirname(os.path.dirname(os.path.abspath(__file__)))


@dataclass
class BoundedResult:
    name: str
    bound: str
    cases: int = 0
    distinct: int = 0
    exhaustive: bool = False
    failures: list = field(default_factory=list)   # [{"what":..., "input":..., "observed":..., "expected":..., "finding_key":...}]
    error: str | None = None
    samples: list = field(default_factory=list)
    time_s: float = 0.0


@dataclass
class Prop:
    pid: str
    title: str
    level: str                       # evidence level: proof / other
    technique: str
    registry: Registry | None = None
    verify: list = field(default_factory=list)         # [Contract] verified against the real source
    lemmas: list = field(default_factory=list)         # [callable(ctx) -> [Obligation]] spec-level / syntactic obligations
    bounded: list = field(default_factory=list)        # [callable(ctx) -> BoundedResult]
    replayers: dict = field(default_factory=dict)      # obligation-name glob -> callable(ctx, ob) -> dict
    assumptions: list = field(default_factory=list)
    trusted_base: list = field(default_factory=list)
    not_decided: str = ""
    step_hooks: dict = field(default_factory=dict)     # contract key -> [hook]
    min_obligations: int = 1
    parts: list = field(default_factory=list)          # [(module, [contract keys])] functions verified under another module's registry for this property


@dataclass
class RunCtx:
    repo: str
    tier: str
    seed: int
    src: Source
    out_dir: str


def _verify_one(args):
    (build_mod, pid, repo, tier, seed, key) = args
    try:
        import importlib
        mod = importlib.import_module(build_mod)
        src = Source(repo)
        prop = mod.build(RunCtx(repo, tier, seed, src, ""))
        contract = next((c for c in prop.verify if c.key == key), None) or prop.registry.contracts[key]      # a part may name any contract of the other module's registry
        rep = verify_function(src, prop.registry, contract, pid, step_hooks=prop.step_hooks.get(key))
        return _pack(rep)
    except Exception as e:
        rep = FunctionReport(key)
        rep.error = f"engine error: {type(e).__name__}: {e}\n{traceback.format_exc(limit=8)}"
        rep.error_kind = "engine"
        return _pack(rep)


def _vc_hash(ob) -> str:
    from .solve import vc_hash
    try:
        return vc_hash(ob)
    except Exception:      # noqa: BLE001
        return ""


def _rescue_one(smt2: str) -> str:
    import z3
    try:
        s = z3.Solver()
        s.set("timeout", 90000)
        s.set("random_seed", 11)
        s.from_string(smt2)
        return str(s.check())
    except Exception as e:      # noqa: BLE001
        return f"error: {type(e).__name__}"


def _pack(rep: FunctionReport):
    obs = []
    want_hash = os.environ.get("PYVC_WRITE_BASELINE") == "1"
    for ob in rep.obligations:
        obs.append({"name": ob.name, "vc_hash": (_vc_hash(ob) if (want_hash or ob.status == "unknown") and ob.kind != "cover" else ""), "kind": ob.kind, "status": ob.status, "backend": ob.backend, "time_s": ob.time_s,
                    "model_text": ob.model_text, "detail": ob.detail, "function": ob.function,
                    "extra": {k: (v if isinstance(v, (str, int, float, list, dict, bool, type(None))) else str(v)) for k, v in ob.extra.items()},
                    "smt2": ob.smt2() if ob.status != "discharged" else "", "model_values": _model_values(ob)})
    return {"key": rep.key, "info": rep.info, "obligations": obs, "paths": rep.paths, "infeasible": rep.infeasible,
            "inlined": rep.inlined, "dropped": rep.dropped, "assumed": getattr(rep, "assumed", {}), "axioms": getattr(rep, "axioms", []), "used_contracts": getattr(rep, "used_contracts", []), "error": rep.error, "error_kind": rep.error_kind, "time_s": rep.time_s}


def _model_values(ob: Obligation):
    if ob.model is None or ob.status != "failed":
        return {}
    out = {}
    try:
        for d in ob.model.decls():
            if d.arity() == 0:
                out[d.name()] = str(ob.model[d])
    except Exception:
        pass
    return out


def pack_obligation(ob: Obligation):
    return {"name": ob.name, "kind": ob.kind, "status": ob.status, "backend": ob.backend, "time_s": ob.time_s,
            "model_text": ob.model_text, "detail": ob.detail, "function": ob.function, "extra": dict(ob.extra),
            "smt2": "", "model_values": _model_values(ob)}


def load_findings(pid: str):
    path = os.path.join(VERIF, "findings", "known_findings.jsonl")
    known, fixed = [], []
    if os.path.exists(path):
        for line in open(path):
            line = line.strip()
            if not line or line.startswith("#"):
                continue
            if line.startswith("fixed:"):
                fixed.append(line)
                continue
            rec = json.loads(line)
            if rec.get("property") == pid:
                known.append(rec)
    return known, fixed


def match_finding(known, key: str):
    for rec in known:
        pats = rec.get("match") or []
        if isinstance(pats, str):
            pats = [pats]
        if any(fnmatch.fnmatchcase(key, p) for p in pats):
            return rec
    return None


def run_property(build_mod: str, pid: str, argv=None) -> int:
    import argparse
    ap = argparse.ArgumentParser()
    ap.add_argument("--tier", default=os.environ.get("VERIF_TIER", "quick"))
    ap.add_argument("--repo", default="/repo")
    ap.add_argument("--replay", default=None)
    ap.add_argument("--jobs", type=int, default=min(16, os.cpu_count() or 4))
    ap.add_argument("--only", default=None)
    ap.add_argument("-v", action="store_true")
    a = ap.parse_args(argv)
    seed = int(os.environ.get("VERIF_SEED", "0") or 0)
    t0 = time.time()
    repo = os.path.abspath(a.repo)
    if sys.path[0] != repo:
        sys.path.insert(0, repo)
    out_dir = os.path.join(VERIF, "out", "replays", pid)
    os.makedirs(out_dir, exist_ok=True)
    import importlib
    mod = importlib.import_module(build_mod)
    src = Source(repo)
    ctx = RunCtx(repo, a.tier, seed, src, out_dir)
    if a.replay:
        return mod.replay_file(ctx, a.replay) if hasattr(mod, "replay_file") else _generic_replay(ctx, mod, a.replay)
    try:
        prop: Prop = mod.build(ctx)
    except Exception as e:
        print(f"CHECKER-ERROR property={pid} while building contracts: {type(e).__name__}: {e}")
        traceback.print_exc()
        _write_evidence(pid, a.tier, seed, "other", {"explanation": f"checker error: {e}", "evaluations": 0,
                                                       "distinct_nontrivial": 0}, [], time.time() - t0, 0)
        return 3

    # ---- 1. deductive part: every contracted function, in parallel
    keys = [c.key for c in prop.verify if not a.only or a.only in c.key]
    jobs = [(build_mod, pid, repo, a.tier, seed, k) for k in keys]
    for part_mod, part_keys in prop.parts:
        jobs += [(part_mod, pid, repo, a.tier, seed, k) for k in part_keys if not a.only or a.only in k]
    reports = []
    if jobs:
        if a.jobs > 1 and len(jobs) > 1:
            # every function gets a wall-clock budget: z3 now and then ignores its timeout inside a worker (seen on sequence/quantifier queries: a
            # worker at 100 % CPU for 40 minutes on a tree where the same run otherwise takes 35 s).  Past the budget the workers are stopped and the
            # unfinished functions are verified once more in fresh workers; only if that does not finish either is a function reported as undecided.
            budget = float(os.environ.get("PYVC_FUNCTION_BUDGET_S", "300"))

            def run_batch(batch):
                done, late = [], []
                pool = mp.get_context("fork").Pool(min(a.jobs, len(batch)))
                try:
                    handles = [(j, pool.apply_async(_verify_one, (j,))) for j in batch]
                    t_start = time.time()
                    for j, h in handles:
                        try:
                            done.append((j, h.get(timeout=max(1.0, budget - (time.time() - t_start)))))
                        except mp.TimeoutError:
                            late.append(j)
                finally:
                    pool.terminate()
                    pool.join()
                return done, late
            done, late = run_batch(jobs)
            if late:
                done2, late2 = run_batch(late)
                done += done2
                late = late2
            by_job = {id(j): r for j, r in done}
            for j in jobs:
                if id(j) in by_job:
                    reports.append(by_job[id(j)])
                else:
                    reports.append({"key": j[5], "info": {}, "obligations": [], "paths": 0, "infeasible": 0, "inlined": [], "dropped": [], "assumed": {}, "axioms": [],
                                    "used_contracts": [], "error": f"verification of this function did not finish within {budget:.0f} s, twice (stopped)",
                                    "error_kind": "unsupported", "time_s": 2 * budget})
        else:
            reports = [_verify_one(j) for j in jobs]
    all_obs = []
    errors = []
    for r in reports:
        if r["error"]:
            errors.append((r["key"], r["error_kind"], r["error"]))
        all_obs.extend(r["obligations"])
    # ---- 2. lemmas and syntactic obligations
    lemma_obs = []
    for lem in prop.lemmas:
        if a.only and a.only not in getattr(lem, "__name__", ""):
            continue
        try:
            for ob in lem(ctx):
                if ob.status == "open":
                    discharge(ob)
                lemma_obs.append(pack_obligation(ob))
        except Exception as e:
            errors.append((getattr(lem, "__name__", "lemma"), "engine", f"{type(e).__name__}: {e}\n{traceback.format_exc(limit=6)}"))
    all_obs.extend(lemma_obs)
    # ---- 3. bounded stand-ins (never counted as proved)
    bounded_results = []
    for b in prop.bounded:
        if a.only and a.only not in getattr(b, "__name__", ""):
            continue
        tb = time.time()
        try:
            res = b(ctx)
        except Exception as e:
            res = BoundedResult(getattr(b, "__name__", "bounded"), "?", error=f"{type(e).__name__}: {e}\n{traceback.format_exc(limit=6)}")
        res.time_s = time.time() - tb
        bounded_results.append(res)
        if res.error:
            errors.append((res.name, "bounded", res.error))

    # ---- verdicts
    known, fixed = load_findings(pid)
    baseline = _load_baseline(pid)
    baseline_base = {n.split("#p")[0] for n in baseline}
    violations, known_hits, undecided = [], [], []
    # last resort before an obligation that the committed baseline lists as discharged is reported: one more long z3 run on the
    # stored query (a loaded machine must not turn a slow proof into an alarm); at most 4, in parallel
    rescue = [ob for ob in all_obs if ob["kind"] != "cover" and ob["status"] == "unknown" and ob.get("smt2") and not match_finding(known, ob["name"])
              and (ob["name"] in baseline or ob["name"].split("#p")[0] in baseline_base)][:4]
    if rescue and os.environ.get("PYVC_FAST") != "1":
        with mp.get_context("fork").Pool(len(rescue)) as pool:
            verdicts = pool.map(_rescue_one, [ob["smt2"] for ob in rescue])
        for ob, v in zip(rescue, verdicts):
            if v == "unsat":
                ob["status"], ob["backend"] = "discharged", "z3 (second run, 90 s)"
            else:
                ob["detail"] += f" | second run (90 s): {v}"
    # an obligation whose VC is byte-identical (up to generated names) to the one proved when the committed baseline was written keeps
    # that verdict when this run's solvers only time out: the formula is the same, only the machine was busier
    base_vc = _load_baseline_vc(pid)
    for ob in all_obs:
        if ob["kind"] != "cover" and ob["status"] == "unknown" and ob.get("vc_hash") and base_vc.get(ob["name"]) == ob["vc_hash"]:
            ob["status"], ob["backend"] = "discharged", "z3 (verdict recorded in the committed baseline for the identical VC; this run timed out)"
    for ob in all_obs:
        if ob["kind"] == "cover":
            if ob["status"] == "failed":
                errors.append((ob["name"], "vacuity", "precondition unsatisfiable"))
            continue
        if ob["status"] in ("discharged", "open"):
            continue   # "open": the function could not be executed symbolically (reported once as undecided), nothing was decided
        rec = match_finding(known, ob["name"])
        if ob["status"] == "failed":
            if rec:
                known_hits.append((rec, ob))
            else:
                violations.append(ob)
        else:  # unknown
            if rec:
                known_hits.append((rec, ob))
            elif ob["name"] in baseline or ob["name"].split("#p")[0] in baseline_base:
                # the function or a contract changed (another VC than the baseline's) and no solver decides the new VC: that is not evidence of a
                # violation - a behaviour-preserving refactoring can make a proof time out just as well (seen with an extracted helper) - so it is
                # reported as undecided (exit 2), never as a VIOLATION
                ob["detail"] += " | was discharged in the committed baseline for another VC (the function or a contract changed); no solver decides the new one"
                undecided.append(ob)
            else:
                undecided.append(ob)
    bounded_viol = []
    for res in bounded_results:
        for f in res.failures:
            rec = match_finding(known, f"bounded:{res.name}:{f.get('finding_key', '')}")
            if rec:
                known_hits.append((rec, {"name": f"bounded:{res.name}:{f.get('finding_key', '')}", "detail": f.get("what", "")}))
            else:
                bounded_viol.append((res, f))

    # ---- replay + report
    exit_code = 0
    printed = set()
    for rec, ob in known_hits:
        k = rec.get("id", rec.get("what"))
        if k in printed:
            continue
        printed.add(k)
        print(f"KNOWN-FINDING: property={pid} {rec.get('id', '')} {rec['what']}")
    stale = [rec for rec in known if rec.get("id", rec.get("what")) not in printed]
    n_viol = 0
    for ob in violations:
        n_viol += 1
        path, confirmed = _write_replay(ctx, prop, pid, ob)
        suffix = "" if confirmed else " no-failing-input-found"
        print(f"VIOLATION property={pid} replay={path}{suffix}")
        print(f"  obligation: {ob['name']}  [{ob['status']} by {ob['backend']}] {ob['detail'][:300]}")
        exit_code = 1
    for res, f in bounded_viol:
        n_viol += 1
        path = os.path.join(out_dir, _safe(f"bounded-{res.name}-{n_viol}") + ".json")
        json.dump({"property": pid, "bounded_check": res.name, "bound": res.bound, **f}, open(path, "w"), indent=1, default=str)
        print(f"VIOLATION property={pid} replay={path}")
        print(f"  bounded check {res.name}: {f.get('what', '')}"[:400])
        exit_code = 1
    if errors:
        kinds = {k for _, k, _ in errors}
        if exit_code == 0:
            exit_code = 2 if kinds <= {"unsupported"} else 3
        for key, kind, msg in errors:
            print(f"{'UNDECIDED' if kind == 'unsupported' else 'CHECKER-ERROR'} property={pid} {key}: {msg[:1500]}")
    if exit_code == 0 and undecided:
        exit_code = 2
        for ob in undecided:
            print(f"UNDECIDED property={pid} obligation {ob['name']}: {ob['detail'][:300]}")
    real_obs = [o for o in all_obs if o["kind"] != "cover"]
    if exit_code == 0 and len(real_obs) < prop.min_obligations:
        print(f"CHECKER-ERROR property={pid}: only {len(real_obs)} obligations generated (< {prop.min_obligations})")
        exit_code = 3

    # ---- evidence
    discharged = [o for o in real_obs if o["status"] == "discharged"]
    by_backend = {}
    for o in discharged:
        by_backend[o["backend"]] = by_backend.get(o["backend"], 0) + 1
    samples = [{"obligation": o["name"], "kind": o["kind"], "status": o["status"], "backend": o["backend"],
                "time_s": round(o["time_s"], 4)} for o in real_obs[:: max(1, len(real_obs) // 12)]][:14]
    coverage = {
        "obligations": len(real_obs),
        "discharged": len(discharged),
        "failed_known_findings": len([1 for _r, o in known_hits if not str(o.get("name", "")).startswith("bounded:")]),
        "checker_cmd": f"./check {pid} --tier {a.tier}",
        "trusted_base": prop.trusted_base,
        "functions_under_contract": [r["info"] | {"paths": r["paths"], "infeasible_branches": r["infeasible"],
                                                  "obligations": len([o for o in r["obligations"] if o["kind"] != "cover"]),
                                                  "inlined_callees": r["inlined"], "time_s": round(r["time_s"], 3)}
                                     for r in reports if r["info"]],
        "by_backend": by_backend,
        "slowest_obligations": [{"obligation": o["name"], "time_s": round(o["time_s"], 2), "backend": o["backend"]}
                                for o in sorted(real_obs, key=lambda x: -x["time_s"])[:5]],
        "solver_time_s": round(sum(o["time_s"] for o in all_obs), 3),
        "cover_checks": len([o for o in all_obs if o["kind"] == "cover"]),
        "bounded": [{"name": b.name, "bound": b.bound, "cases": b.cases, "distinct": b.distinct, "exhaustive": b.exhaustive,
                     "failures": len(b.failures), "time_s": round(b.time_s, 2), "samples": b.samples[:3],
                     "label": "bounded stand-in: NOT counted in obligations/discharged"} for b in bounded_results],
        "dropped_by_extraction": sorted({d for r in reports for d in r["dropped"]}) + ["docstrings", "type annotations"],
        "assumed_contracts_used": [{"callee": k, "note": v} for k, v in sorted({k: v for r in reports for k, v in r.get("assumed", {}).items()}.items())],
        "spec_function_axioms": sorted({a for r in reports for a in r.get("axioms", [])}),
        "callee_contracts_relied_on_but_verified_in_another_check": sorted({k for r in reports for k in r.get("used_contracts", [])} - {r["key"] for r in reports}),
        "not_decided": prop.not_decided,
        "known_findings_reported": sorted(printed),
        "stale_known_findings": [r.get("id", r.get("what")) for r in stale],
        "fixed_entries": fixed,
        "undecided": [o["name"] for o in undecided],
        "errors": [f"{k}: {kind}" for k, kind, _ in errors],
        "samples": samples,
        "technique": prop.technique,
        "explanation": prop.title,
        "evaluations": max(1, len(real_obs) + sum(b.cases for b in bounded_results)),
        "distinct_nontrivial": max(0, len({o["name"] for o in real_obs}) + sum(b.distinct for b in bounded_results)),
        "rule": "one evaluation per solver obligation (distinct by obligation name) plus one per bounded stand-in case (distinct by input)",
    }
    level = prop.level
    _write_evidence(pid, a.tier, seed, level, coverage, prop.assumptions, time.time() - t0, n_viol)
    if a.v:
        for o in all_obs:
            if o["status"] != "discharged" or o["time_s"] > 1.0:
                print(f"    ob {o['name']} -> {o['status']} [{o['backend']}] {o['time_s']:.2f}s {o['detail'][:100]}")
    if a.v or exit_code != 0:
        for r in reports:
            print(f"  fn {r['key']}: paths={r['paths']} obligations={len(r['obligations'])} t={r['time_s']:.2f}s err={bool(r['error'])}")
    print(f"[{pid}] tier={a.tier} obligations={len(real_obs)} discharged={len(discharged)} known={len(printed)} "
          f"violations={n_viol} undecided={len(undecided)} errors={len(errors)} bounded_cases={sum(b.cases for b in bounded_results)} "
          f"wall={time.time() - t0:.1f}s exit={exit_code}")
    if os.environ.get("PYVC_WRITE_BASELINE") == "1" and exit_code == 0:
        _write_baseline(pid, [o["name"] for o in discharged], {o["name"]: o["vc_hash"] for o in discharged if o.get("vc_hash")})
    return exit_code


def _safe(s: str) -> str:
    return "".join(c if c.isalnum() or c in "-_." else "_" for c in s)[-150:]


def _write_replay(ctx: RunCtx, prop: Prop, pid: str, ob: dict):
    path = os.path.join(ctx.out_dir, _safe(ob["name"]) + ".json")
    rec = {"property": pid, "obligation": ob["name"], "kind": ob["kind"], "function": ob["function"], "status": ob["status"],
           "backend": ob["backend"], "solver_detail": ob["detail"], "counter_model": ob["model_text"],
           "model_values": ob.get("model_values", {}), "trail": ob["extra"].get("trail"), "repo": ctx.repo}
    confirmed = False
    for pat, fn in prop.replayers.items():
        if fnmatch.fnmatchcase(ob["name"], pat):
            try:
                res = fn(ctx, ob)
                rec["replay"] = res
                confirmed = bool(res and res.get("confirmed"))
            except Exception as e:
                rec["replay"] = {"confirmed": False, "error": f"{type(e).__name__}: {e}"}
            break
    if not confirmed:
        rec["note"] = "no-failing-input-found: the obligation is reported as violated on the strength of the solver verdict; " \
                      "the counter-model above was not (or could not be) replayed on the real code"
    json.dump(rec, open(path, "w"), indent=1, default=str)
    return path, confirmed


def _generic_replay(ctx, mod, path):
    rec = json.load(open(path))
    print(json.dumps({k: rec.get(k) for k in ("property", "obligation", "status", "replay", "note")}, indent=1, default=str))
    prop = mod.build(ctx)
    for pat, fn in prop.replayers.items():
        if fnmatch.fnmatchcase(rec.get("obligation", ""), pat):
            res = fn(ctx, {"name": rec["obligation"], "model_values": rec.get("model_values", {}), "extra": {"trail": rec.get("trail")},
                           "model_text": rec.get("counter_model", "")})
            print("replay on current tree:", json.dumps(res, default=str))
            return 1 if res and res.get("confirmed") else 0
    return 0


def _baseline_path(pid):
    return os.path.join(VERIF, "baseline", f"{pid}.json")


def _load_baseline(pid):
    p = _baseline_path(pid)
    if os.path.exists(p):
        d = json.load(open(p))
        return set(d["names"] if isinstance(d, dict) else d)
    return set()


def _load_baseline_vc(pid):
    p = _baseline_path(pid)
    if os.path.exists(p):
        d = json.load(open(p))
        return d.get("vc", {}) if isinstance(d, dict) else {}
    return {}


def _write_baseline(pid, names, vc=None):
    os.makedirs(os.path.dirname(_baseline_path(pid)), exist_ok=True)
    json.dump({"names": sorted(set(names)), "vc": dict(sorted((vc or {}).items()))}, open(_baseline_path(pid), "w"), indent=0)


def _write_evidence(pid, tier, seed, level, coverage, assumptions, wall, violations):
    if os.environ.get("PYVC_NO_EVIDENCE") == "1":
        return
    os.makedirs(os.path.join(VERIF, "evidence"), exist_ok=True)
    ev = {"property_id": pid, "tier": "thorough" if tier == "thorough" else "quick", "seed": seed, "level": level,
          "coverage": coverage, "assumptions": list(assumptions), "wall_s": round(wall, 3), "violations": violations}
    path = os.path.join(VERIF, "evidence", f"{pid}.json")
    json.dump(ev, open(path, "w"), indent=1, default=str)
    try:
        import jsonschema
        schema = json.load(open(os.path.join(VERIF, "spec", "EVIDENCE.schema.json"))) if os.path.exists(os.path.join(VERIF, "spec", "EVIDENCE.schema.json")) else None
        if schema:
            jsonschema.validate(ev, schema)
    except Exception as e:  # pragma: no cover
        print(f"CHECKER-WARNING evidence for {pid} does not validate: {e}")
