"""Obligations and their discharge by z3, with cvc5 as the second opinion."""
from __future__ import annotations

import os
import subprocess
import tempfile
import time
from dataclasses import dataclass, field

import z3

Z3_TIMEOUT_MS = int(os.environ.get("PYVC_Z3_TIMEOUT_MS", "20000"))
CVC5_TIMEOUT_MS = int(os.environ.get("PYVC_CVC5_TIMEOUT_MS", "60000"))
CVC5_BIN = "/usr/bin/cvc5"
FAST = os.environ.get("PYVC_FAST") == "1"   # development aid: short z3 budget, no second solver, no retry


@dataclass
class Obligation:
    name: str
    kind: str                 # ensures / requires / invariant / frame / implicit / loop-init / loop-pres / step / perm / lemma / cover
    pc: list
    goal: object
    function: str = ""
    status: str = "open"      # discharged / failed / unknown
    backend: str = ""
    time_s: float = 0.0
    model: object = None
    model_text: str = ""
    detail: str = ""
    extra: dict = field(default_factory=dict)
    expect_sat: bool = False  # cover obligations: must be satisfiable

    def smt2(self) -> str:
        s = z3.Solver()
        for c in self.pc:
            s.add(c)
        s.add(self.goal if self.expect_sat else z3.Not(self.goal))
        return s.to_smt2()


_TERM_MEMO: dict = {}
_SORT_MEMO: dict = {}


def _sort_sig(srt) -> str:
    key = srt.sexpr()
    if key in _SORT_MEMO:
        return _SORT_MEMO[key]
    _SORT_MEMO[key] = key          # recursion guard (recursive datatypes)
    k = srt.kind()
    if k == z3.Z3_DATATYPE_SORT:
        parts = [srt.name()]
        for i in range(srt.num_constructors()):
            c = srt.constructor(i)
            parts.append(c.name())
            for j in range(c.arity()):
                parts.append(srt.accessor(i, j).name() + ":" + _sort_sig(c.domain(j)))
        sig = "(" + " ".join(parts) + ")"
    elif k == z3.Z3_ARRAY_SORT:
        sig = f"(Array {_sort_sig(srt.domain())} {_sort_sig(srt.range())})"
    elif k == z3.Z3_SEQ_SORT and not srt.is_string():
        sig = f"(Seq {_sort_sig(srt.basis())})"
    else:
        sig = key
    _SORT_MEMO[key] = sig
    return sig


def _term_hash(root) -> str:
    """structural hash of a z3 term (DAG walk, iterative): declaration names, sorts with their definitions, de Bruijn indices."""
    import hashlib
    stack = [(root, False)]
    while stack:
        t, done = stack.pop()
        i = t.get_id()
        if i in _TERM_MEMO:
            continue
        if z3.is_quantifier(t):
            kids = [t.body()] + [t.pattern(k) for k in range(t.num_patterns())]
        elif z3.is_app(t):
            kids = t.children()
        else:
            kids = []
        if not done:
            stack.append((t, True))
            stack.extend((k, False) for k in kids if k.get_id() not in _TERM_MEMO)
            continue
        if z3.is_quantifier(t):
            parts = ["Q", "forall" if t.is_forall() else "exists" if t.is_exists() else "lambda", str(t.num_vars())] + \
                [_sort_sig(t.var_sort(k)) for k in range(t.num_vars())]
        elif z3.is_var(t):
            parts = ["V", str(z3.get_var_index(t)), _sort_sig(t.sort())]
        elif z3.is_app(t) and t.num_args() == 0:
            parts = ["C", t.sexpr(), _sort_sig(t.sort())]
        elif z3.is_app(t):
            d = t.decl()
            parts = ["A", d.name(), str(d.kind()), _sort_sig(t.sort())]
        else:
            parts = ["?", t.sexpr()]
        parts += [_TERM_MEMO[k.get_id()][0] for k in kids]
        _TERM_MEMO[i] = (hashlib.sha1("\x00".join(parts).encode()).hexdigest(), t)     # the term is kept alive: ids are not reused
    return _TERM_MEMO[root.get_id()][0]


def vc_hash(ob) -> str:
    """Identity of a verification condition: hypotheses in order, goal, polarity.  Generated names are deterministic
    (counter reset per function, fixed PYTHONHASHSEED), so the same source and the same contracts give the same hash."""
    import hashlib
    parts = ["sat" if ob.expect_sat else "valid"] + [_term_hash(c) for c in ob.pc] + [_term_hash(ob.goal)]
    return hashlib.sha256("\x00".join(parts).encode()).hexdigest()[:24]


def _run_cvc5(smt2: str, timeout_ms: int, strings=True):
    if not os.path.exists(CVC5_BIN):
        return "unknown", "cvc5 not found"
    text = smt2
    if "(set-logic" not in text:
        text = "(set-logic ALL)\n" + text
    with tempfile.NamedTemporaryFile("w", suffix=".smt2", delete=False) as f:
        f.write(text)
        path = f.name
    try:
        args = [CVC5_BIN, f"--tlimit={timeout_ms}"]
        if strings:
            args.append("--strings-exp")
        args.append(path)
        p = subprocess.run(args, capture_output=True, text=True, timeout=timeout_ms / 1000 + 10)
        out = (p.stdout or "").strip().splitlines()
        verdict = out[0].strip() if out else "unknown"
        if verdict not in ("sat", "unsat"):
            verdict = "unknown"
        return verdict, (p.stdout + p.stderr)[:2000]
    except subprocess.TimeoutExpired:
        return "unknown", "cvc5 timeout"
    finally:
        os.unlink(path)


def _run_z3_cli(smt2: str, timeout_ms: int) -> str:
    exe = "/usr/bin/z3"
    if not os.path.exists(exe):
        return "unavailable"
    with tempfile.NamedTemporaryFile("w", suffix=".smt2", delete=False) as f:
        f.write(smt2)
        path = f.name
    try:
        p = subprocess.run([exe, f"-T:{max(1, timeout_ms // 1000)}", path], capture_output=True, text=True, timeout=timeout_ms / 1000 + 5)
        first = (p.stdout.strip().splitlines() or ["unknown"])[0].strip()
        return first if first in ("sat", "unsat") else "unknown"
    except Exception:      # noqa: BLE001
        return "unknown"
    finally:
        os.unlink(path)


def discharge(ob: Obligation, use_cvc5=True, z3_timeout=None, cvc5_timeout=None, retry=True) -> Obligation:
    t0 = time.time()
    dump = os.environ.get("PYVC_DUMP")
    if dump and dump in ob.name:      # development aid: write the query of matching obligations
        d = os.path.join(os.path.dirname(os.path.dirname(os.path.abspath(__file__))), "out", "dump")
        os.makedirs(d, exist_ok=True)
        with open(os.path.join(d, "".join(ch if ch.isalnum() or ch in "._-#" else "_" for ch in ob.name)[-150:] + ".smt2"), "w") as f:
            f.write(ob.smt2())
    if not ob.expect_sat and z3.is_false(z3.simplify(ob.goal)):
        # the clause evaluated to False on this path (trace predicates, undeclared exceptions): it fails unless the
        # path itself is infeasible; "unknown" feasibility counts as feasible (the executor reached the point)
        s0 = z3.Solver()
        s0.set("timeout", 5000)
        for c in ob.pc:
            s0.add(c)
        r0 = s0.check()
        ob.backend = "z3"
        if r0 == z3.unsat:
            ob.status = "discharged"
        else:
            ob.status = "failed"
            ob.detail = (ob.detail + " | " if ob.detail else "") + "clause is False on a reachable path" + ("" if r0 == z3.sat else " (path feasibility: unknown)")
            if r0 == z3.sat:
                ob.model = s0.model()
                ob.model_text = _model_text(ob.model)
        ob.time_s = time.time() - t0
        return ob
    if FAST:
        z3_timeout, use_cvc5 = 5000, False
    s = z3.Solver()
    s.set("timeout", z3_timeout or Z3_TIMEOUT_MS)
    for c in ob.pc:
        s.add(c)
    s.add(ob.goal if ob.expect_sat else z3.Not(ob.goal))
    r = s.check()
    ob.backend = "z3"
    good, bad = (z3.sat, z3.unsat) if ob.expect_sat else (z3.unsat, z3.sat)
    if r == good:
        ob.status = "discharged"
        if ob.expect_sat:
            ob.model = s.model()
    elif r == bad:
        ob.status = "failed"
        if not ob.expect_sat:
            ob.model = s.model()
            ob.model_text = _model_text(ob.model)
    else:
        ob.status = "unknown"
        ob.detail = "z3: " + s.reason_unknown()
        if not ob.expect_sat and retry and _small_universe_refutation(ob):
            ob.time_s = time.time() - t0
            return ob
        if ob.expect_sat and _small_universe_witness(ob):
            ob.time_s = time.time() - t0
            return ob
        verdict = _run_z3_cli(ob.smt2(), 8000 if FAST else 30000)      # the Debian z3 4.8.12 binary: another version, other heuristics
        want_good = "sat" if ob.expect_sat else "unsat"
        if verdict == want_good:
            ob.status, ob.backend = "discharged", "z3 4.8.12 (cli)"
            ob.time_s = time.time() - t0
            return ob
        if verdict in ("sat", "unsat"):
            ob.detail += " | z3 4.8.12 (cli): " + verdict + " (not taken as a refutation: no model is read back)"
        if use_cvc5:
            verdict, out = _run_cvc5(ob.smt2(), cvc5_timeout or CVC5_TIMEOUT_MS)
            want_good = "sat" if ob.expect_sat else "unsat"
            want_bad = "unsat" if ob.expect_sat else "sat"
            if verdict == want_good:
                ob.status, ob.backend = "discharged", "cvc5"
            elif verdict == want_bad:
                ob.status, ob.backend = "failed", "cvc5"
                ob.detail += " | cvc5: " + verdict
            else:
                ob.detail += " | cvc5: unknown"
        if ob.status == "unknown" and not ob.expect_sat and not FAST and retry:
            # last resort before giving up (verdicts must not flip when the machine is busy): longer budget, other seed
            s2 = z3.Solver()
            s2.set("timeout", 3 * (z3_timeout or Z3_TIMEOUT_MS))
            s2.set("random_seed", 7)
            for c in ob.pc:
                s2.add(c)
            s2.add(z3.Not(ob.goal))
            r2 = s2.check()
            if r2 == z3.unsat:
                ob.status, ob.backend = "discharged", "z3 (retry)"
            elif r2 == z3.sat:
                ob.status, ob.backend = "failed", "z3 (retry)"
                ob.model = s2.model()
                ob.model_text = _model_text(ob.model)
            else:
                ob.detail += " | z3 retry: " + s2.reason_unknown()
    ob.time_s = time.time() - t0
    return ob


def _uninterpreted_sorts():
    from .types import _sort_cache
    return [v for k, v in _sort_cache.items() if isinstance(v, z3.SortRef) and v.kind() == z3.Z3_UNINTERPRETED_SORT]


def _small_universe_refutation(ob: Obligation, sizes=(2, 3), timeout_ms=4000) -> bool:
    """A quantified obligation that is *not* valid often leaves z3 without a model ("unknown").  Restricting every
    uninterpreted sort to a small finite universe makes the quantifiers finite; a model found there is a model
    of the original query too (extra axioms only remove models), i.e. a genuine counterexample."""
    sorts = _uninterpreted_sorts()
    if not sorts:
        return False
    for k in sizes:
        s = z3.Solver()
        s.set("timeout", timeout_ms)
        for c in ob.pc:
            s.add(c)
        s.add(z3.Not(ob.goal))
        for srt in sorts:
            elems = [z3.Const(f"u{k}_{srt.name()}_{i}", srt) for i in range(k)]
            x = z3.Const(f"ux_{srt.name()}", srt)
            s.add(z3.ForAll([x], z3.Or([x == e for e in elems])))
        if s.check() == z3.sat:
            ob.status = "failed"
            ob.backend = f"z3 (universe of {k} per id sort)"
            ob.model = s.model()
            ob.model_text = _model_text(ob.model)
            ob.detail += f" | counter-model found with {k} elements per uninterpreted sort"
            return True
    return False


def _small_universe_witness(ob: Obligation, sizes=(1, 2, 3), timeout_ms=4000) -> bool:
    """Cover obligations (the precondition must be satisfiable): a model over a small finite universe is a model."""
    sorts = _uninterpreted_sorts()
    if not sorts:
        return False
    for k in sizes:
        s = z3.Solver()
        s.set("timeout", timeout_ms)
        for c in ob.pc:
            s.add(c)
        s.add(ob.goal)
        for srt in sorts:
            elems = [z3.Const(f"w{k}_{srt.name()}_{i}", srt) for i in range(k)]
            x = z3.Const(f"wx_{srt.name()}", srt)
            s.add(z3.ForAll([x], z3.Or([x == e for e in elems])))
        if s.check() == z3.sat:
            ob.status = "discharged"
            ob.backend = f"z3 (universe of {k} per id sort)"
            ob.detail += f" | satisfiable with {k} elements per uninterpreted sort"
            return True
    return False


def _model_text(m, limit=4000) -> str:
    try:
        parts = []
        for d in m.decls():
            parts.append(f"{d.name()} = {m[d]}")
        return "\n".join(sorted(parts))[:limit]
    except Exception as e:  # pragma: no cover
        return f"<model unavailable: {e}>"


def quick_sat(pc, timeout_ms=1500) -> bool:
    """Feasibility of a path condition; unknown counts as feasible."""
    s = z3.Solver()
    s.set("timeout", timeout_ms)
    for c in pc:
        s.add(c)
    return s.check() != z3.unsat
