"""Reads the real source under the repository root on every run.

Nothing here is cached across runs: the function table is rebuilt from the files
as they are *now*.  For every function handed to the verifier we record file,
line span and the sha256 of the exact source segment.
"""
from __future__ import annotations

import ast
import hashlib
import os


class SourceError(Exception):
    pass


class Module:
    def __init__(self, name, path, text):
        self.name = name
        self.path = path
        self.text = text
        self.tree = ast.parse(text, filename=path)
        self.imports: dict[str, tuple[str, str | None]] = {}
        self._scan_imports()

    def _scan_imports(self):
        pkg_parts = self.name.split(".")
        is_pkg = os.path.basename(self.path) == "__init__.py"
        for node in ast.walk(self.tree):
            if isinstance(node, ast.Import):
                for a in node.names:
                    self.imports[a.asname or a.name.split(".")[0]] = (a.name if a.asname else a.name.split(".")[0], None)
            elif isinstance(node, ast.ImportFrom):
                if node.level:
                    base = pkg_parts if is_pkg else pkg_parts[:-1]
                    base = base[: len(base) - (node.level - 1)]
                    mod = ".".join(base + ([node.module] if node.module else []))
                else:
                    mod = node.module or ""
                for a in node.names:
                    self.imports[a.asname or a.name] = (mod, a.name)

    def top(self, name):
        for node in self.tree.body:
            if isinstance(node, (ast.FunctionDef, ast.AsyncFunctionDef, ast.ClassDef)) and node.name == name:
                return node
            if isinstance(node, (ast.Assign, ast.AnnAssign)):
                targets = node.targets if isinstance(node, ast.Assign) else [node.target]
                for t in targets:
                    if isinstance(t, ast.Name) and t.id == name:
                        return node
        return None


class FuncInfo:
    def __init__(self, module: Module, qualname: str, node, cls=None):
        self.module = module
        self.qualname = qualname
        self.node = node
        self.cls = cls
        seg = ast.get_source_segment(module.text, node) or ""
        self.sha256 = hashlib.sha256(seg.encode()).hexdigest()
        self.lines = (node.lineno, node.end_lineno)

    @property
    def key(self):
        return f"{self.module.name}:{self.qualname}"

    def describe(self, root):
        return {
            "function": self.key,
            "file": os.path.relpath(self.module.path, root),
            "lines": list(self.lines),
            "sha256": self.sha256,
        }


class Source:
    def __init__(self, root: str):
        self.root = os.path.abspath(root)
        self._mods: dict[str, Module] = {}

    def module(self, name: str) -> Module:
        if name not in self._mods:
            rel = name.replace(".", os.sep)
            for cand in (os.path.join(self.root, rel + ".py"), os.path.join(self.root, rel, "__init__.py")):
                if os.path.isfile(cand):
                    with open(cand, encoding="utf-8") as f:
                        self._mods[name] = Module(name, cand, f.read())
                    break
            else:
                raise SourceError(f"module {name} not found under {self.root}")
        return self._mods[name]

    def has_module(self, name: str) -> bool:
        try:
            self.module(name)
            return True
        except SourceError:
            return False

    def klass(self, modname: str, clsname: str) -> ast.ClassDef:
        node = self.module(modname).top(clsname)
        if not isinstance(node, ast.ClassDef):
            raise SourceError(f"class {modname}:{clsname} not found")
        return node

    def function(self, key: str) -> FuncInfo:
        modname, qual = key.split(":")
        mod = self.module(modname)
        parts = qual.split(".")
        if len(parts) == 1:
            node = mod.top(parts[0])
            if not isinstance(node, (ast.FunctionDef, ast.AsyncFunctionDef)):
                raise SourceError(f"function {key} not found")
            return FuncInfo(mod, qual, node)
        cls = mod.top(parts[0])
        if not isinstance(cls, ast.ClassDef):
            raise SourceError(f"class for {key} not found")
        for node in cls.body:
            if isinstance(node, (ast.FunctionDef, ast.AsyncFunctionDef)) and node.name == parts[1]:
                return FuncInfo(mod, qual, node, cls)
        raise SourceError(f"method {key} not found")

    def has_function(self, key: str) -> bool:
        try:
            self.function(key)
            return True
        except SourceError:
            return False

    def class_bases(self, modname: str, clsname: str) -> list[tuple[str, str]]:
        """Resolve the base classes of a class to (module, name) pairs (repo classes only)."""
        mod = self.module(modname)
        cls = self.klass(modname, clsname)
        out = []
        for b in cls.bases:
            if isinstance(b, ast.Name):
                if b.id in mod.imports:
                    m, n = mod.imports[b.id]
                    out.append((m, n or b.id))
                elif mod.top(b.id) is not None:
                    out.append((modname, b.id))
                else:
                    out.append(("builtins", b.id))
            elif isinstance(b, ast.Subscript) and isinstance(b.value, ast.Name):
                nm = b.value.id     # Generic base: Base[Params, Result]
                if nm in mod.imports:
                    m, n = mod.imports[nm]
                    out.append((m, n or nm))
                elif mod.top(nm) is not None:
                    out.append((modname, nm))
                else:
                    out.append(("typing", nm))
        return out

    def find_method(self, modname: str, clsname: str, meth: str):
        """Method lookup along the (single-inheritance-first) MRO inside the repo."""
        seen = set()
        todo = [(modname, clsname)]
        while todo:
            m, c = todo.pop(0)
            if (m, c) in seen or not self.has_module(m):
                continue
            seen.add((m, c))
            k = f"{m}:{c}.{meth}"
            if self.has_function(k):
                return self.function(k)
            try:
                todo.extend(self.class_bases(m, c))
            except SourceError:
                pass
        return None


def loop_nodes(fn: ast.AST):
    """Loops of a function in source order (pre-order), not descending into nested defs."""
    out = []

    def walk(n):
        for ch in ast.iter_child_nodes(n):
            if isinstance(ch, (ast.FunctionDef, ast.AsyncFunctionDef, ast.Lambda, ast.ClassDef)):
                continue
            if isinstance(ch, (ast.For, ast.While)):
                out.append(ch)
            walk(ch)

    walk(fn)
    return out
