"""Model of the sqlite connection wrapper for *glue* obligations.

SQL text is data to the verifier: the meaning of a statement is never proved.  What is
proved about a SQLite method is the Python glue around `conn.execute`: which statements are
issued in which order on which connection, which values are bound to the `?` placeholders,
how the fetched row is decoded, and whether the read-validate-write section is bracketed by
`BEGIN IMMEDIATE` ... `commit` on one connection.  Every executed statement is appended to
the path's event list; contracts state trace predicates over it.
"""
from __future__ import annotations

import re

import z3

from .ops import Unsupported, coerce
from .types import BOOL, DATETIME, INT, REAL, STR, Atom, Opt
from .values import NONE, OK, RAISE, BoundMeth, ExcVal, ListVal, Native, NoneVal, TupleVal, Val, fresh_name, mk_fresh

_conn_ids = [0]


def parse_sql(template: str) -> dict:
    t = " ".join(template.split())
    up = t.upper()
    info = {"text": t, "kind": "OTHER", "table": None, "columns": [], "where": [], "set": [], "order_by": None, "limit": None}
    if up.startswith("BEGIN IMMEDIATE"):
        info["kind"] = "BEGIN IMMEDIATE"
    elif up.startswith("BEGIN"):
        info["kind"] = "BEGIN"
    elif up.startswith("SELECT"):
        info["kind"] = "SELECT"
        m = re.match(r"SELECT\s+(DISTINCT\s+)?(.*?)\s+FROM\s+(\S+)", t, re.I)
        if m:
            info["columns"] = [c.strip().split(".")[-1] for c in m.group(2).split(",")]
            info["table"] = m.group(3)
    elif up.startswith("INSERT"):
        info["kind"] = "INSERT"
        m = re.match(r"INSERT\s+(OR\s+\w+\s+)?INTO\s+(\S+)\s*\((.*?)\)", t, re.I)
        if m:
            info["table"] = m.group(2)
            info["columns"] = [c.strip() for c in m.group(3).split(",")]
            info["or"] = (m.group(1) or "").strip().upper()
    elif up.startswith("UPDATE"):
        info["kind"] = "UPDATE"
        m = re.match(r"UPDATE\s+(\S+)\s+SET\s+(.*?)(\s+WHERE\s+(.*))?$", t, re.I)
        if m:
            info["table"] = m.group(1)
            info["set"] = [p.split("=")[0].strip() for p in m.group(2).split(",")]
    elif up.startswith("DELETE"):
        info["kind"] = "DELETE"
        m = re.match(r"DELETE\s+FROM\s+(\S+)", t, re.I)
        if m:
            info["table"] = m.group(1)
    elif up.startswith("CREATE"):
        info["kind"] = "CREATE"
    elif up.startswith("PRAGMA"):
        info["kind"] = "PRAGMA"
    mw = re.search(r"\sWHERE\s+(.*?)(\s+ORDER\s+BY|\s+LIMIT|\s+GROUP\s+BY|$)", t, re.I)
    if mw:
        info["where_text"] = mw.group(1)
        info["where"] = re.findall(r"([A-Za-z_\.]+)\s*(?:=|<=|>=|<|>|!=|LIKE|IN)\s*\(?\?", mw.group(1))
    mo = re.search(r"ORDER\s+BY\s+(.*?)(\s+LIMIT|$)", t, re.I)
    if mo:
        info["order_by"] = mo.group(1).strip()
    ml = re.search(r"LIMIT\s+(\S+)", t, re.I)
    if ml:
        info["limit"] = ml.group(1)
    info["placeholders"] = t.count("?")
    return info


class CursorNative(Native):
    def __init__(self, conn, info, event):
        self.conn, self.info, self.event = conn, info, event

    def vc_getattr(self, eng, st, name):
        return BoundMeth(self, name)

    def vc_call(self, eng, st, name, args, kwargs):
        if name == "close":
            return [(OK, st, NONE)]
        if name == "fetchone":
            cols = self.info["columns"]
            schema = self.conn.schema
            out = []
            s_none = st.fork()
            s_none.trail.append("row=none")
            self.event_on(s_none)["row"] = None
            out.append((OK, s_none, NONE))
            s_row = st.fork()
            s_row.trail.append("row=some")
            vals = []
            for c in cols:
                ty, constraint = schema.get(c, (None, None))
                if ty is None:
                    raise Unsupported(f"column {c!r} has no declared type in the SQL schema of the sidecar")
                v = mk_fresh(ty, f"col_{c}")
                if constraint is not None:
                    s_row.assume(constraint(v.term))
                vals.append(v)
            row = TupleVal(vals)
            self.event_on(s_row)["row"] = dict(zip(cols, vals))
            out.append((OK, s_row, row))
            return out
        if name == "fetchall":
            raise Unsupported("cursor.fetchall(): multi-row results are outside the glue model (bounded stand-in only)")
        if name == "rowcount":
            return [(OK, st, mk_fresh(INT, "rowcount"))]
        raise Unsupported(f"cursor.{name}")

    def event_on(self, st):
        """the (copied) event dict of this cursor's statement in state st"""
        for i in range(len(st.events) - 1, -1, -1):
            e = st.events[i]
            if isinstance(e, dict) and e.get("eid") == self.event["eid"]:
                e2 = dict(e)
                st.events[i] = e2
                return e2
        raise Unsupported("cursor used on a path where its statement was not executed")


class ConnNative(Native):
    def __init__(self, schema):
        _conn_ids[0] += 1
        self.cid = _conn_ids[0]
        self.schema = schema

    def vc_getattr(self, eng, st, name):
        return BoundMeth(self, name)

    def vc_enter(self, eng, st):
        st.events.append({"ev": "conn-enter", "conn": self.cid})

        def on_exit(eng2, st2, kind):
            st2.events.append({"ev": "conn-exit", "conn": self.cid, "how": kind})
            st2.perms[:] = [p for p in st2.perms if p != ("db", self.cid)]
        return ("conn", self.cid, on_exit), self

    def vc_call(self, eng, st, name, args, kwargs):
        if name == "execute":
            sql = args[0]
            template = getattr(sql, "template", None)
            if template is None:
                raise Unsupported("conn.execute with a statement that is not a literal / f-string")
            info = parse_sql(template)
            params = []
            if len(args) > 1:
                p = args[1]
                if isinstance(p, (TupleVal, ListVal)):
                    params = list(p.items)
                else:
                    raise Unsupported("bound parameters are not a literal tuple")
            out = []
            if getattr(eng.reg, "sql_read_faults", False) and info["kind"] in ("SELECT",):
                # a read can fail (database is locked, I/O error, table missing): nothing is answered
                sf = st.fork()
                sf.events.append({"ev": "read-failed", "conn": self.cid, "table": info["table"]})
                sf.trail.append("select=fault")
                out.append((RAISE, sf, ExcVal("OperationalError")))
            eid = fresh_name("stmt")
            ev = {"ev": "sql", "eid": eid, "conn": self.cid, "kind": info["kind"], "table": info["table"], "info": info,
                  "params": params, "owned": ("db", self.cid) in st.perms}
            st.events.append(ev)
            if info["kind"] == "BEGIN IMMEDIATE":
                st.perms.append(("db", self.cid))
            return out + [(OK, st, CursorNative(self, info, ev))]
        if name == "commit":
            out = []
            if getattr(eng.reg, "sql_commit_faults", False):
                # a commit can fail (database is locked / I/O error): nothing is committed, the pending statements stay pending
                sf = st.fork()
                sf.events.append({"ev": "commit-failed", "conn": self.cid})
                sf.trail.append("commit=fault")
                out.append((RAISE, sf, ExcVal("OperationalError")))
            st.events.append({"ev": "commit", "conn": self.cid})
            st.perms[:] = [p for p in st.perms if p != ("db", self.cid)]
            out.append((OK, st, NONE))
            return out
        if name == "rollback":
            st.events.append({"ev": "rollback", "conn": self.cid})
            st.perms[:] = [p for p in st.perms if p != ("db", self.cid)]
            return [(OK, st, NONE)]
        raise Unsupported(f"connection.{name}")


def sql_events(st, kinds=None):
    return [e for e in st.events if isinstance(e, dict) and e.get("ev") == "sql" and (kinds is None or e["kind"] in kinds)]


def all_events(st):
    return [e for e in st.events if isinstance(e, dict)]


def install(reg, schema):
    """Register `create_sqlite_connection` (and its usual alias) as returning a modelled connection."""
    from .contract import Contract
    merged = getattr(reg, "sql_schema", None)
    if merged is None:
        merged = reg.sql_schema = {}
    merged.update(schema)

    def handler(eng, st, recv, args, kwargs):
        return [(OK, st, ConnNative(merged))]
    reg.add(Contract(key="pynenc.util.sqlite_utils:create_sqlite_connection", handler=handler, assumed=True,
                     note="sqlite connection wrapper: context manager; execute/commit are recorded as trace events"))
