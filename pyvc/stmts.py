"""Statement execution for the pyvc engine (attached to Engine at import)."""
from __future__ import annotations

import ast

import z3

from . import ops
from .contract import LoopSpec
from .engine import Ctx, Engine, LOGGER_RE
from .ops import Unsupported, coerce, truthy
from .source import loop_nodes
from .types import BOOL, INT, REAL, STR, MapT, ObjT, Opt, SeqT, SetT, Ty
from .values import (BRK, CONT, NONE, OK, RAISE, RET, ExcVal, FuncVal, GenVal, ListVal, NoneVal, ObjRef, State, TupleVal, Val,
                     bind, boolval, fresh_name, mk_fresh)

MUTATORS = {"add", "discard", "remove", "pop", "append", "appendleft", "popleft", "clear", "update", "setdefault",
            "intersection_update", "difference_update", "extend", "insert", "popitem", "sort", "move_to_end"}


def exec_block(self: Engine, stmts, st: State):
    results = [(OK, st, None)]
    for stmt in stmts:
        nxt = []
        for kind, s, v in results:
            if kind != OK:
                nxt.append((kind, s, v))
                continue
            nxt.extend(self.exec_stmt(stmt, s))
        results = nxt
        if not results:
            break
    return results


def exec_stmt(self: Engine, node, st: State):
    m = getattr(self, "s_" + type(node).__name__, None)
    if m is None:
        raise Unsupported(f"statement {type(node).__name__} at line {node.lineno}")
    return m(node, st)


def _expr_results(results):
    """Expression results -> statement results (value dropped on OK)."""
    return [(k, s, (None if k == OK else v)) for k, s, v in results]


def s_Expr(self, node, st):
    v = node.value
    if isinstance(v, ast.Constant):
        return [(OK, st, None)]  # docstring
    if isinstance(v, ast.Yield):
        if v.value is None:
            return [(OK, st, None)]
        def k(s, val):
            self.do_yield(s, val)
            return [(OK, s, None)]
        return _expr_results(bind(self.eval(v.value, st), k))
    if isinstance(v, ast.YieldFrom):
        def k(s, val):
            self.do_yield_from(s, val)
            return [(OK, s, None)]
        return _expr_results(bind(self.eval(v.value, st), k))
    return _expr_results(self.eval(v, st))


def s_Pass(self, node, st):
    return [(OK, st, None)]


def s_Import(self, node, st):
    for a in node.names:
        st.imports[a.asname or a.name.split(".")[0]] = (a.name if a.asname else a.name.split(".")[0], None)
    return [(OK, st, None)]


def s_ImportFrom(self, node, st):
    modname = self.cur_module()
    if node.level:
        base = modname.split(".")[:-1]
        base = base[: len(base) - (node.level - 1)]
        mod = ".".join(base + ([node.module] if node.module else []))
    else:
        mod = node.module or ""
    for a in node.names:
        st.imports[a.asname or a.name] = (mod, a.name)
    return [(OK, st, None)]


def assign_target(self, target, val, st: State):
    """Assign val to an AST target; returns statement results."""
    if isinstance(target, ast.Name):
        st.env[target.id] = val
        return [(OK, st, None)]
    if isinstance(target, (ast.Tuple, ast.List)):
        if isinstance(val, (TupleVal, ListVal)):
            if len(val.items) != len(target.elts):
                raise Unsupported("unpack arity")
            res = [(OK, st, None)]
            for t, v in zip(target.elts, val.items):
                res = bind(res, lambda s, _x, t=t, v=v: self.assign_target(t, v, s))
            return res
        raise Unsupported(f"unpack of {val!r}")
    if isinstance(target, ast.Subscript):
        # item assignment on a modelled dependency object (e.g. the context storage dict)
        res = self.eval(target.value, st)
        if len(res) == 1 and res[0][0] == OK and hasattr(res[0][2], "vc_setitem"):
            def k0(s, key):
                res[0][2].vc_setitem(self, s, key, val)
                return [(OK, s, None)]
            return _expr_results(bind(self.eval(target.slice, res[0][1]), k0))
    if isinstance(target, (ast.Attribute, ast.Subscript)):
        def k(s, lv):
            self.write_lv(s, lv, val)
            return [(OK, s, None)]
        return _expr_results(bind(self.eval_lv(target, st), k))
    raise Unsupported(f"assignment target {type(target).__name__}")


def s_Assign(self, node, st):
    def k(s, val):
        lt = getattr(self.cur_contract, "local_types", None) if self.cur_contract is not None else None
        if lt and len(node.targets) == 1 and isinstance(node.targets[0], ast.Name) and node.targets[0].id in lt:
            ty = lt[node.targets[0].id]
            if isinstance(val, ListVal) and not val.items and isinstance(ty, MapT):
                val = Val(ty.empty(), ty)
            else:
                val = coerce(val, ty)
        res = [(OK, s, None)]
        for t in node.targets:
            res = bind(res, lambda s2, _x, t=t: self.assign_target(t, val, s2))
        return res
    return _expr_results(bind(self.eval(node.value, st), k))


def s_AnnAssign(self, node, st):
    if node.value is None:
        return [(OK, st, None)]
    def k(s, val):
        val = self.apply_annotation(s, node.annotation, val)
        return self.assign_target(node.target, val, s)
    return _expr_results(bind(self.eval(node.value, st), k))


def apply_annotation(self, st, ann, val):
    """Use a local annotation only to give a type to an empty literal / None."""
    ty = self.annotation_type(ann)
    if ty is None:
        return val
    if isinstance(val, NoneVal) and isinstance(ty, Opt):
        return coerce(val, ty)
    if isinstance(val, ListVal) and not val.items and isinstance(ty, (SeqT, SetT)):
        return coerce(val, ty)
    if isinstance(val, ListVal) and not val.items and isinstance(ty, MapT):
        return Val(ty.empty(), ty)
    if isinstance(val, Val) and isinstance(ty, Opt) and val.ty == ty.inner:
        return coerce(val, ty)
    return val


def annotation_type(self, ann):
    c = self.cur_contract
    if c is not None and isinstance(ann, (ast.Name, ast.Subscript, ast.BinOp, ast.Constant)):
        src = ast.unparse(ann)
        table = getattr(c, "annotations", None) or {}
        if src in table:
            return table[src]
        if src in ("str | None", "Optional[str]"):
            return Opt(STR)
    try:
        return self._ann_type(ann)      # plain annotations: builtin scalars, list/set/dict of them, names declared by the module (reg.ann_types)
    except Exception:
        return None


def s_AugAssign(self, node, st):
    def k(s, lv):
        cur = self.read_lv(s, lv)
        def k2(s2, rhs):
            out = []
            for kind, s3, v in self.binop(s2, node.op, cur, rhs):
                if kind == OK:
                    self.write_lv(s3, lv, v)
                    out.append((OK, s3, None))
                else:
                    out.append((kind, s3, v))
            return out
        return bind(self.eval(node.value, s), k2)
    return _expr_results(bind(self.eval_lv(node.target, st), k))


def s_Delete(self, node, st):
    res = [(OK, st, None)]
    for t in node.targets:
        def one(s, _x, t=t):
            if isinstance(t, ast.Name):
                s.env.pop(t.id, None)
                return [(OK, s, None)]
            if isinstance(t, ast.Subscript):
                def k(s2, lv):
                    base = self.read_lv(s2, lv[1])
                    ty = base.ty
                    if not isinstance(ty, MapT):
                        raise Unsupported("del on non-map")
                    kterm = coerce(lv[2], ty.key).term
                    self.implicit(s2, ty.opt.is_some(z3.Select(base.term, kterm)), "KeyError", "del")
                    self.write_lv(s2, lv[1], Val(z3.Store(base.term, kterm, ty.opt.none()), ty))
                    return [(OK, s2, None)]
                return _expr_results(bind(self.eval_lv(t, s), k))
            raise Unsupported("del target")
        res = bind(res, one)
    return res


def s_Return(self, node, st):
    if node.value is None:
        return [(RET, st, NONE)]
    return [(RET if k == OK else k, s, v) for k, s, v in self.eval(node.value, st)]


def s_Raise(self, node, st):
    if node.exc is None:
        exc = st.ghost.get("$current_exc")
        if exc is None:
            raise Unsupported("bare raise outside handler")
        return [(RAISE, st, exc)]
    def k(s, v):
        if isinstance(v, ExcVal):
            return [(RAISE, s, v)]
        if isinstance(v, FuncVal) and v.kind == "exc":
            return [(RAISE, s, ExcVal(v.name))]
        raise Unsupported(f"raise of {v!r}")
    return [(kk, s, v) for kk, s, v in bind(self.eval(node.exc, st), k)]


def s_If(self, node, st):
    def k(s, c):
        out = []
        for s2, side in self.branch(s, truthy(c), f"if@{self.rel_line(node)}"):
            out.extend(self.exec_block(node.body if side else node.orelse, s2))
        return out
    return bind(self.eval(node.test, st), k)


def rel_line(self, node):
    base = self.cur_fn.node.lineno if self.cur_fn else 0
    return getattr(node, "lineno", 0) - base


def rel_line_cur(self):
    return "gen"


def s_Assert(self, node, st):
    def k(s, c):
        self.oblige(s, truthy(c), f"assert@{self.rel_line(node)}", "assert")
        return [(OK, s, None)]
    return _expr_results(bind(self.eval(node.test, st), k))


def s_With(self, node, st):
    if len(node.items) != 1:
        raise Unsupported("multi-item with")
    item = node.items[0]
    def k(s, cm):
        token, bound = self.enter_cm(s, cm, item.context_expr)
        if item.optional_vars is not None:
            s.env[item.optional_vars.id] = bound
        out = []
        for kind, s2, v in self.exec_block(node.body, s):
            self.exit_cm(s2, token, kind)
            out.append((kind, s2, v))
        return out
    return bind(self.eval(item.context_expr, st), k)


def enter_cm(self, st, cm, node):
    """Context managers known to the engine: locks (permission tokens) and
    contract-declared managers (shape field `__cm__`)."""
    if isinstance(cm, Val) and getattr(cm.ty, "name", "") in ("Lock", "RLock") or getattr(cm, "is_lock", False):
        token = ("lock", cm.term if isinstance(cm, Val) else self.lock_identity(st, cm, node))
        st.perms.append(token)
        st.events.append({"ev": "acquire", "lock": token[1]})
        return token, NONE
    if isinstance(cm, ObjRef):
        shape = self.reg.shapes[cm.shape]
        enter = getattr(shape, "cm_enter", None)
        if enter:
            return enter(self, st, cm)
    h = getattr(cm, "vc_enter", None)
    if h:
        return h(self, st)
    raise Unsupported(f"with on {cm!r}")


def lock_identity(self, st, cm, node):
    return getattr(cm, "lock_id", None) or self.dotted(node) or ast.unparse(node)


def exit_cm(self, st, token, kind):
    if token and token[0] == "lock":
        if token in st.perms:
            st.perms.remove(token)
        st.events.append({"ev": "release", "lock": token[1]})
    elif token and callable(token[-1]):
        token[-1](self, st, kind)


def s_Try(self, node, st):
    out = []
    for kind, s, v in self.exec_block(node.body, st):
        if kind == RAISE:
            handled = False
            pending = [(s, v)]
            for h in node.handlers:
                nxt = []
                for s1, exc in pending:
                    for s2, verdict in self.match_handler(s1, exc, h):
                        if verdict:
                            if h.name:
                                s2.env[h.name] = exc
                            prev = s2.ghost.get("$current_exc")
                            s2.ghost["$current_exc"] = exc
                            for k3, s3, v3 in self.exec_block(h.body, s2):
                                if prev is None:
                                    s3.ghost.pop("$current_exc", None)
                                else:
                                    s3.ghost["$current_exc"] = prev
                                out.append((k3, s3, v3))
                        else:
                            nxt.append((s2, exc))
                pending = nxt
            for s1, exc in pending:
                out.append((RAISE, s1, exc))
        elif kind == OK and node.orelse:
            out.extend(self.exec_block(node.orelse, s))
        else:
            out.append((kind, s, v))
    if node.finalbody:
        fin = []
        for kind, s, v in out:
            for k2, s2, v2 in self.exec_block(node.finalbody, s):
                if k2 == OK:
                    fin.append((kind, s2, v))
                else:
                    fin.append((k2, s2, v2))
        out = fin
    return out


def exc_is_subclass(self, cls: str, parent: str) -> bool:
    if cls == parent or parent in ("Exception", "BaseException"):
        if parent == "Exception" and cls in ("KeyboardInterrupt", "SystemExit", "BaseException"):
            return False
        return True
    seen = set()
    todo = [cls]
    while todo:
        c = todo.pop()
        if c in seen:
            continue
        seen.add(c)
        if c == parent:
            return True
        if c in self.reg.exceptions:
            todo.extend(self.reg.exceptions[c])
        else:
            import builtins
            bc = getattr(builtins, c, None)
            if isinstance(bc, type):
                todo.extend(b.__name__ for b in bc.__bases__)
    return False


def match_handler(self, st, exc: ExcVal, handler):
    """[(state, matched?)]; an inexact exception class can match a more specific handler or not."""
    if handler.type is None:
        return [(st, True)]
    names = []
    t = handler.type
    elts = t.elts if isinstance(t, ast.Tuple) else [t]
    for e in elts:
        names.append(e.attr if isinstance(e, ast.Attribute) else e.id)
    if any(self.exc_is_subclass(exc.cls, n) for n in names):
        return [(st, True)]
    if not exc.exact and any(self.exc_is_subclass(n, exc.cls) for n in names):
        a, b = st.fork(), st.fork()
        a.trail.append("exc-narrow=T")
        b.trail.append("exc-narrow=F")
        return [(a, True), (b, False)]
    return [(st, False)]


# ---------------------------------------------------------------------- loops
def loop_spec(self, node) -> LoopSpec | None:
    c = self.cur_contract
    ordinal = self.loop_ordinals.get(id(node))
    if c is None or ordinal is None:
        return None
    return c.loops.get(ordinal)


def assigned_names(body) -> set[str]:
    names = set()
    for n in body:
        for sub in ast.walk(n):
            if isinstance(sub, ast.Name) and isinstance(sub.ctx, (ast.Store, ast.Del)):
                names.add(sub.id)
            elif isinstance(sub, ast.ExceptHandler) and sub.name:
                names.add(sub.name)
    return names


def mutated_local_collections(self, body, st) -> set[str]:
    out = set()
    for n in body:
        for sub in ast.walk(n):
            if isinstance(sub, ast.Call) and isinstance(sub.func, ast.Attribute) and sub.func.attr in MUTATORS:
                base = sub.func.value
                while isinstance(base, ast.Subscript):
                    base = base.value
                if isinstance(base, ast.Name) and base.id in st.env:
                    out.add(base.id)
            if isinstance(sub, (ast.Subscript,)) and isinstance(sub.ctx, (ast.Store, ast.Del)):
                base = sub.value
                while isinstance(base, ast.Subscript):
                    base = base.value
                if isinstance(base, ast.Name) and base.id in st.env:
                    out.add(base.id)
    return out


def havoc_for_loop(self, node, st: State, spec: LoopSpec):
    """Havoc everything the loop body may change: assigned locals, every heap cell in the
    function's frame (the invariant must say what stays), generator output, events."""
    for name in assigned_names(node.body) | self.mutated_local_collections(node.body, st):
        if name in st.env:
            v = st.env[name]
            if isinstance(v, Val):
                st.env[name] = mk_fresh(v.ty, name)
            elif isinstance(v, NoneVal):
                pass
        # names first assigned in the body need no havoc: they are defined before use in each iteration
    for name in spec.extra_havoc:
        v = st.env.get(name)
        if isinstance(v, Val):
            st.env[name] = mk_fresh(v.ty, name)
    for (oid, fld), val in list(st.heap.items()):
        if isinstance(val, Val) and ((self.in_frame(st, oid, fld) and (spec.modifies is None or fld in spec.modifies)) or fld in self.dont_care_fields()):
            st.heap[(oid, fld)] = mk_fresh(val.ty, f"h.{fld}")
    for g in ("$out_set", "$out_count", "$out_seq"):
        if g in st.ghost:
            v = st.ghost[g]
            st.ghost[g] = mk_fresh(v.ty, g)
    for g, v in list(st.ghost.items()):
        if g.startswith("g:") and isinstance(v, Val):
            st.ghost[g] = mk_fresh(v.ty, g)


def in_frame(self, st, oid, fld) -> bool:
    fr = st.ghost.get("$frame_cells")
    if fr is None:
        return True
    return (oid, fld) in fr or fld in st.ghost.get("$frame_any", ())


def loop_hints(self, st: State, ordinal, ctx_extra, at_exit=False):
    """instances of the defining equations of spec functions (folds), supplied by the contract where the solver needs them"""
    hints = (getattr(self.cur_contract, "loop_hints", None) or {}).get(ordinal)
    if not hints:
        return
    ctx = Ctx(self, st, self.self_ref, st.ghost.get("$args", {}), extra=ctx_extra)
    for h in hints(ctx):
        try:
            st.assume(h)
        except Exception:
            pass


def check_inv(self, st: State, spec: LoopSpec, which: str, ordinal, ctx_extra):
    ctx = Ctx(self, st, self.self_ref, st.ghost.get("$args", {}), extra=ctx_extra)
    if which == "pres" and spec.modifies is not None:
        head = st.ghost.get(f"$loophead{ordinal}", {})
        for key, cur in st.heap.items():
            if key[1] in spec.modifies or key not in head or key[1] in self.dont_care_fields():
                continue
            h = head[key]
            if isinstance(cur, Val) and isinstance(h, Val) and not (cur.term is h.term or z3.eq(cur.term, h.term)):
                self.oblige(st.fork(), cur.term == h.term, f"loop{ordinal}:frame:{key[1]}", "frame")
    for name, f in spec.inv:
        self.oblige(st, f(ctx), f"loop{ordinal}:{which}:{name}", "loop-" + which)


def assume_inv(self, st: State, spec: LoopSpec, ctx_extra):
    ctx = Ctx(self, st, self.self_ref, st.ghost.get("$args", {}), extra=ctx_extra)
    for name, f in spec.inv:
        st.assume(f(ctx))


def s_While(self, node, st):
    spec = self.loop_spec(node)
    ordinal = self.loop_ordinals.get(id(node))
    if spec is None:
        raise Unsupported(f"while loop {ordinal} without invariant")
    if node.orelse:
        raise Unsupported("while-else")
    self.check_inv(st, spec, "init", ordinal, {})
    st = st.fork()
    self.havoc_for_loop(node, st, spec)
    st.ghost[f"$loophead{ordinal}"] = dict(st.heap)
    self.assume_inv(st, spec, {})
    out = []

    def after_body(results, exits):
        for kind, s, v in results:
            if kind in (OK, CONT):
                self.check_inv(s, spec, "pres", ordinal, {})
                # path ends here (cut point)
            elif kind == BRK:
                exits.append((OK, s, None))
            else:
                exits.append((kind, s, v))

    def k(s, c):
        exits = []
        for s2, side in self.branch(s, truthy(c), f"while{ordinal}"):
            if side:
                after_body(self.exec_block(node.body, s2), exits)
            else:
                exits.append((OK, s2, None))
        return exits
    return bind(self.eval(node.test, st), k)


def s_For(self, node, st):
    if node.orelse:
        raise Unsupported("for-else")
    def k(s, it):
        return self.for_over(node, s, it)
    return bind(self.eval(node.iter, st), k)


def for_over(self, node, st: State, it):
    spec = self.loop_spec(node)
    ordinal = self.loop_ordinals.get(id(node))
    # concrete list: unroll completely (its length is a constant of the program text)
    symbolic_view = getattr(it, "enumerate_of", None) is not None or getattr(it, "items_of", None) is not None
    if symbolic_view and spec is None:
        raise Unsupported(f"for loop {ordinal} over a symbolic sequence/mapping view without invariant")      # (an empty TupleVal is only the carrier of the view)
    if isinstance(it, (ListVal, TupleVal)) and spec is None:
        states = [(OK, st, None)]
        exits = []
        for item in it.items:
            nxt = []
            for kind, s, v in states:
                for k2, s2, v2 in bind([(OK, s, None)], lambda s_, _x: bind(self.assign_target(node.target, item, s_),
                                                                         lambda s3, _y: self.exec_block(node.body, s3))):
                    if k2 in (OK, CONT):
                        nxt.append((OK, s2, None))
                    elif k2 == BRK:
                        exits.append((OK, s2, None))
                    else:
                        exits.append((k2, s2, v2))
            states = nxt
        return states + exits
    if spec is None:
        raise Unsupported(f"for loop {ordinal} over {it!r} without invariant")

    from .values import RangeVal
    if isinstance(it, RangeVal):
        # for v in range(start, stop, step): v = start, start+step, ... while v < stop.  The step must be positive (obligation);
        # the invariant is stated over the loop variable's value at the head ("i").
        self.oblige(st, it.step > 0, f"loop{ordinal}:range-step-is-positive", "requires")
        self.check_inv(st, spec, "init", ordinal, {"i": it.start, "start": it.start, "stop": it.stop, "step": it.step})
        s = st.fork()
        self.havoc_for_loop(node, s, spec)
        s.ghost[f"$loophead{ordinal}"] = dict(s.heap)
        iv = z3.Int(fresh_name("rv"))
        s.assume(z3.And(iv >= it.start, it.step > 0))
        s_exit = s.fork()
        s_exit.assume(z3.And(iv >= it.stop, z3.Or(iv == it.start, iv - it.step < it.stop)))
        self.assume_inv(s_exit, spec, {"i": iv, "start": it.start, "stop": it.stop, "step": it.step})
        s_exit.trail.append(f"for{ordinal}=exit")
        exits = [(OK, s_exit, None)]
        s.assume(iv < it.stop)
        self.assume_inv(s, spec, {"i": iv, "start": it.start, "stop": it.stop, "step": it.step})
        s.trail.append(f"for{ordinal}=body")
        if quick_sat(s.pc):
            for kind, s2, v in bind(self.assign_target(node.target, Val(iv, INT), s), lambda s3, _x: self.exec_block(node.body, s3)):
                if kind in (OK, CONT):
                    self.check_inv(s2, spec, "pres", ordinal, {"i": iv + it.step, "start": it.start, "stop": it.stop, "step": it.step})
                elif kind == BRK:
                    s2.ghost["$loop_broke"] = True
                    exits.append((OK, s2, None))
                else:
                    exits.append((kind, s2, v))
        return exits

    # symbolic iteration
    if isinstance(it, GenVal):
        mode, elem_ty = "set", it.elem_ty
        full = it.out_set
    elif isinstance(it, ListVal):
        raise Unsupported("invariant loop over concrete list")
    elif isinstance(it, Val) and isinstance(it.ty, SeqT):
        mode, elem_ty = "seq", it.ty.elem
    elif isinstance(it, Val) and isinstance(it.ty, SetT):
        mode, elem_ty = "set", it.ty.elem
        full = it.term
    elif isinstance(it, Val) and isinstance(it.ty, MapT):
        mode, elem_ty = "set", it.ty.key
        full = ops.set_keys(it).term
    elif isinstance(it, TupleVal) and getattr(it, "items_of", None) is not None:
        mode = "items"
    else:
        raise Unsupported(f"for over {it!r}")

    items_map = getattr(it, "items_of", None)
    if items_map is not None:
        mty = items_map.ty
        mode, elem_ty = "set", mty.key
        full = ops.set_keys(items_map).term

    if mode == "seq":
        es = elem_ty.sort()
        all_elems = ops.seq_elems(it.term, es)
        sset_t = SetT(elem_ty)
        extra0 = {"i": z3.IntVal(0), "seq": it.term, "seen_elems": sset_t.empty()}
        self.loop_hints(st, ordinal, extra0)
        self.check_inv(st, spec, "init", ordinal, extra0)
        s = st.fork()
        self.havoc_for_loop(node, s, spec)
        s.ghost[f"$loophead{ordinal}"] = dict(s.heap)
        i = z3.Int(fresh_name("i"))
        n = z3.Length(it.term)
        seen_elems = z3.Const(fresh_name("seen_elems"), sset_t.sort())
        s.assume(ops.set_subset(seen_elems, all_elems, es))
        # exit path
        s_exit = s.fork()
        self.assume_inv(s_exit, spec, {"i": n, "seq": it.term, "seen_elems": all_elems})
        self.loop_hints(s_exit, ordinal, {"i": n, "seq": it.term, "seen_elems": all_elems}, at_exit=True)
        s_exit.trail.append(f"for{ordinal}=exit")
        # body path
        s.assume(z3.And(i >= 0, i < n))
        # theorems of the sequence theory, given as hints (z3 does not find them unprompted)
        s.assume(z3.SubSeq(it.term, 0, i + 1) == z3.Concat(z3.SubSeq(it.term, 0, i), z3.Unit(it.term[i])))
        s.assume(z3.Select(all_elems, it.term[i]))
        self.assume_inv(s, spec, {"i": i, "seq": it.term, "seen_elems": seen_elems})
        self.loop_hints(s, ordinal, {"i": i, "seq": it.term, "seen_elems": seen_elems})
        s.trail.append(f"for{ordinal}=body")
        exits = [(OK, s_exit, None)]
        if quick_sat(s.pc):
            item = Val(it.term[i], elem_ty)
            for kind, s2, v in bind(self.assign_target(node.target, item, s), lambda s3, _x: self.exec_block(node.body, s3)):
                if kind in (OK, CONT):
                    self.check_inv(s2, spec, "pres", ordinal, {"i": i + 1, "seq": it.term, "seen_elems": z3.Store(seen_elems, it.term[i], True)})
                elif kind == BRK:
                    s2.ghost["$loop_broke"] = True
                    exits.append((OK, s2, None))
                else:
                    exits.append((kind, s2, v))
        return exits

    # set-like iteration: arbitrary order, each element once
    sset = SetT(elem_ty)
    empty = sset.empty()
    total = it.count if isinstance(it, GenVal) else ops.card(full, elem_ty.sort())
    self.check_inv(st, spec, "init", ordinal, {"seen": empty, "full": full, "n_seen": z3.IntVal(0), "total": total})
    s = st.fork()
    self.havoc_for_loop(node, s, spec)
    s.ghost[f"$loophead{ordinal}"] = dict(s.heap)
    seen = z3.Const(fresh_name("seen"), sset.sort())
    n_seen = z3.Int(fresh_name("n_seen"))
    x = z3.Const(fresh_name("x"), elem_ty.sort())
    s.assume(ops.set_subset(seen, full, elem_ty.sort()))
    s.assume(z3.And(n_seen >= 0, total >= 0))
    s_exit = s.fork()
    s_exit.assume(seen == full)
    s_exit.assume(n_seen == total)
    self.assume_inv(s_exit, spec, {"seen": full, "full": full, "n_seen": total, "total": total})
    s_exit.trail.append(f"for{ordinal}=exit")
    exits = [(OK, s_exit, None)]
    s.assume(z3.And(z3.Select(full, x), z3.Not(z3.Select(seen, x)), n_seen < total))
    self.assume_inv(s, spec, {"seen": seen, "full": full, "n_seen": n_seen, "total": total})
    s.trail.append(f"for{ordinal}=body")
    if quick_sat(s.pc):
        if items_map is not None:
            mty = items_map.ty
            item = TupleVal([Val(x, elem_ty), Val(mty.opt.val(z3.Select(items_map.term, x)), mty.val)])
            if getattr(it, "values_only", False):
                item = item.items[1]
        else:
            item = Val(x, elem_ty)
        for kind, s2, v in bind(self.assign_target(node.target, item, s), lambda s3, _x: self.exec_block(node.body, s3)):
            if kind in (OK, CONT):
                self.check_inv(s2, spec, "pres", ordinal, {"seen": z3.Store(seen, x, True), "full": full, "n_seen": n_seen + 1, "total": total})
            elif kind == BRK:
                s2.ghost["$loop_broke"] = True
                s2.ghost["$loop_seen"] = Val(z3.Store(seen, x, True), sset)
                exits.append((OK, s2, None))
            else:
                s2.ghost["$loop_seen"] = Val(z3.Store(seen, x, True), sset)
                exits.append((kind, s2, v))
    return exits


from .solve import quick_sat  # noqa: E402


def s_Break(self, node, st):
    return [(BRK, st, None)]


def s_Continue(self, node, st):
    return [(CONT, st, None)]


def s_FunctionDef(self, node, st):
    raise Unsupported("nested function definition")


def s_Global(self, node, st):
    raise Unsupported("global statement")


# ---------------------------------------------------------------------- generators
def do_yield(self, st: State, val):
    ety = self.cur_gen_elem(st)
    v = self.need(st, self.yield_repr(st, val), ety)
    hook = st.ghost.get("$yield_hook")
    if hook:
        hook(self, st, v)
    oset = st.ghost["$out_set"]
    top = getattr(self, "top_contract", None)
    if top is not None and getattr(top, "gen_distinct", False) and self.call_depth == 0:
        self.oblige(st, z3.Not(z3.Select(oset.term, v.term)), f"yield@{self.rel_line_cur()}:not-yielded-before", "ensures")
    st.ghost["$out_set"] = Val(z3.Store(oset.term, v.term, True), oset.ty)
    st.ghost["$out_count"] = Val(st.ghost["$out_count"].term + 1, INT)
    if "$out_seq" in st.ghost:
        sq = st.ghost["$out_seq"]
        st.ghost["$out_seq"] = Val(z3.Concat(sq.term, z3.Unit(v.term)), sq.ty)
    st.events.append({"ev": "yield", "value": v, "perms": tuple(st.perms)})


def yield_repr(self, st, val):
    conv = st.ghost.get("$yield_conv")
    if conv:
        return conv(self, st, val)
    return val


def cur_gen_elem(self, st):
    return st.ghost["$out_set"].ty.elem


def do_yield_from(self, st: State, val):
    oset = st.ghost["$out_set"]
    ety = oset.ty.elem
    if isinstance(val, GenVal):
        add, cnt, seq = val.out_set, val.count, val.seq
    elif isinstance(val, Val) and isinstance(val.ty, SetT):
        add, cnt, seq = val.term, ops.card(val.term, ety.sort()), None
    elif isinstance(val, Val) and isinstance(val.ty, SeqT):
        add, cnt, seq = coerce(val, SetT(ety)).term, z3.Length(val.term), val.term
    else:
        raise Unsupported(f"yield from {val!r}")
    st.ghost["$out_set"] = Val(ops.set_union(oset.term, add), oset.ty)
    st.ghost["$out_count"] = Val(st.ghost["$out_count"].term + cnt, INT)
    if "$out_seq" in st.ghost:
        if seq is None:
            raise Unsupported("sequence output of set-like yield from")
        sq = st.ghost["$out_seq"]
        st.ghost["$out_seq"] = Val(z3.Concat(sq.term, seq), sq.ty)


for _name, _obj in list(globals().items()):
    if callable(_obj) and (_name.startswith("s_") or _name in (
            "exec_block", "exec_stmt", "assign_target", "rel_line_cur", "apply_annotation", "annotation_type", "rel_line", "enter_cm",
            "lock_identity", "exit_cm", "exc_is_subclass", "match_handler", "loop_spec", "mutated_local_collections",
            "havoc_for_loop", "in_frame", "check_inv", "loop_hints", "assume_inv", "for_over", "do_yield", "yield_repr", "cur_gen_elem",
            "do_yield_from")):
        setattr(Engine, _name, _obj)
